(* C14 -- executable model of sorted searches in record sets.

   Follows /repo/sandbox/grist:
     sort_key.py      make_sort_key / SortKey.__init__ / SortKey.__lt__   (cmp3, py_lt, fb_key, col_step, vals_lt, key_lt)
     bisect (stdlib)  bisect_left / bisect_right with key=                (bisect_loop, bisect_left, bisect_right)
     records.py       RecordSet._at/_get_sort_key/_bisect_index/_bisect_find/_find_eq, FindOps.*   (at_row .. find_rank)
     table.py         make_sort_spec, Table.lookup_records (which rows, in which order, which sort_key)
     lookup.py        LookupMapColumn._do_lookup_with_sort: sorted(row_id_set, key=sort_key)     (sort_rows)
     functions/prevnext.py   PREVIOUS / NEXT / RANK via _sorted_lookup                             (eval_query)
   and the linear-scan definitions the property compares them with (the scan_ definitions).
   Definitions only; lemmas are in Proofs/Bisect_proofs.v.  Tied to the code by harness/props/c14.py. *)
From Coq Require Import ZArith QArith List Bool Sorted.
Import ListNotations.
Open Scope Z_scope.

(* ------------------------------------------------------------------------------------------------ *)
(* Cell values that may appear in sort columns / as probe values.                                    *)

Inductive val : Type :=
| VNone                          (* None *)
| VNum (q : Q)                   (* bool, int, finite float: the exact rational value (True = 1) *)
| VStr (s : list Z)              (* str, as code points *)
| VObj (ty : list Z) (ord : Z)   (* an object of a non-numeric class named ty whose instances are ordered among
                                    themselves by ord and with nothing else: datetime.date (ordinal), datetime (seconds) *)
| VSeq (tup : bool) (l : list val).  (* list (tup = false) or tuple (tup = true) *)

Definition num (n : Z) (d : positive) : val := VNum (Qmake n d).

Fixpoint str_cmp (s t : list Z) : comparison :=
  match s, t with
  | [], [] => Eq
  | [], _ :: _ => Lt
  | _ :: _, [] => Gt
  | a :: s', b :: t' => match a ?= b with Eq => str_cmp s' t' | c => c end
  end.
Definition str_eqb (s t : list Z) : bool := match str_cmp s t with Eq => true | _ => false end.
Definition str_ltb (s t : list Z) : bool := match str_cmp s t with Lt => true | _ => false end.

(* Lexicographic comparison of sequences as CPython's list/tuple richcompare does it: find the first
   position where the items are not ==, compare those items; else compare lengths.  None = TypeError. *)
Section LexOpt.
  Context {A : Type} (c : A -> A -> option comparison).
  Fixpoint lex_opt (l m : list A) : option comparison :=
    match l, m with
    | [], [] => Some Eq
    | [], _ :: _ => Some Lt
    | _ :: _, [] => Some Gt
    | x :: l', y :: m' => match c x y with Some Eq => lex_opt l' m' | r => r end
    end.
End LexOpt.

(* Python's native three-way comparison of two values where it is defined (== gives Eq, < gives Lt, > gives Gt);
   None where `<` raises TypeError (and == is False).  None == None holds although None < None raises: see py_lt. *)
Fixpoint cmp3 (a b : val) {struct a} : option comparison :=
  match a, b with
  | VNone, VNone => Some Eq
  | VNum p, VNum q => Some (Qcompare p q)
  | VStr s, VStr t => Some (str_cmp s t)
  | VObj t1 o1, VObj t2 o2 => if str_eqb t1 t2 then Some (o1 ?= o2) else None
  | VSeq k1 l, VSeq k2 m => if Bool.eqb k1 k2 then lex_opt cmp3 l m else None
  | _, _ => None
  end.

(* `a < b` in Python: Some b, or None for TypeError. *)
Definition py_lt (a b : val) : option bool :=
  match a, b with
  | VNone, VNone => None
  | _, _ => match cmp3 a b with Some Lt => Some true | Some _ => Some false | None => None end
  end.

(* type(a).__name__ ; for numbers the name never decides anything (two numbers always compare natively). *)
Definition s_NoneType := [78; 111; 110; 101; 84; 121; 112; 101].
Definition s_int := [105; 110; 116].
Definition s_str := [115; 116; 114].
Definition s_tuple := [116; 117; 112; 108; 101].
Definition s_list := [108; 105; 115; 116].
Definition type_name (a : val) : list Z :=
  match a with
  | VNone => s_NoneType
  | VNum _ => s_int
  | VStr _ => s_str
  | VObj ty _ => ty
  | VSeq true _ => s_tuple
  | VSeq false _ => s_list
  end.

(* af = ( (0 if a is None else 1), (0 if isinstance(a, Number) else 1), type(a).__name__ ) *)
Definition fb_key (a : val) : Z * Z * list Z :=
  ((match a with VNone => 0 | _ => 1 end), (match a with VNum _ => 0 | _ => 1 end), type_name a).

(* tuple `<` on (int, int, str) *)
Definition fb_lt (x y : Z * Z * list Z) : bool :=
  let '(x1, x2, x3) := x in
  let '(y1, y2, y3) := y in
  if x1 <? y1 then true else if y1 <? x1 then false
  else if x2 <? y2 then true else if y2 <? x2 then false
  else str_ltb x3 y3.

(* One iteration of the loop in SortKey.__lt__: Some r = `return r`, None = fall through to the next column.
   asc is `sign == 1`. *)
Definition fb_step (a b : val) (asc : bool) : option bool :=
  if fb_lt (fb_key a) (fb_key b) then Some asc
  else if fb_lt (fb_key b) (fb_key a) then Some (negb asc)
  else None.

Definition col_step (a b : val) (asc : bool) : option bool :=
  match py_lt a b with
  | Some true => Some asc
  | Some false =>
      match py_lt b a with
      | Some true => Some (negb asc)
      | Some false => None
      | None => fb_step a b asc           (* except TypeError *)
      end
  | None => fb_step a b asc               (* except TypeError *)
  end.

(* row ids as SortKey compares them: real ids, or the sentinels -+sys.float_info.max of records.py *)
Inductive rowid : Type := RNegInf | RId (r : Z) | RPosInf.
Definition rowid_lt (x y : rowid) : bool :=
  match x, y with
  | RNegInf, RNegInf => false
  | RNegInf, _ => true
  | _, RNegInf => false
  | RPosInf, _ => false
  | _, RPosInf => true
  | RId a, RId b => a <? b
  end.

(* SortKey object: (values, row_id).  The spec holds `sign == 1` per sort column. *)
Definition key : Type := (list val * rowid)%type.

(* for (a, b, (col_obj, sign)) in zip(self.values, other.values, col_sort_spec): ... ; return tie *)
Fixpoint vals_lt (spec : list bool) (va vb : list val) (tie : bool) : bool :=
  match va, vb, spec with
  | a :: va', b :: vb', s :: spec' =>
      match col_step a b s with Some r => r | None => vals_lt spec' va' vb' tie end
  | _, _, _ => tie
  end.

Definition key_lt (spec : list bool) (x y : key) : bool :=
  vals_lt spec (fst x) (fst y) (rowid_lt (snd x) (snd y)).

(* ------------------------------------------------------------------------------------------------ *)
(* bisect.bisect_left / bisect_right (lo = 0, hi = len(a), key = key)                               *)

Section BisectLoop.
  Context {A : Type} (go_right : A -> bool) (l : list A).
  (* while lo < hi: mid = (lo + hi) // 2; if go_right(a[mid]): lo = mid + 1 else: hi = mid *)
  Fixpoint bisect_loop (fuel : nat) (lo hi : Z) : Z :=
    match fuel with
    | O => lo
    | S f =>
        if lo <? hi then
          let mid := (lo + hi) / 2 in
          match nth_error l (Z.to_nat mid) with
          | Some e => if go_right e then bisect_loop f (mid + 1) hi else bisect_loop f lo mid
          | None => lo
          end
        else lo
    end.
End BisectLoop.

Section Bisect.
  Context {A K : Type} (ltb : K -> K -> bool) (keyf : A -> K).
  Definition len (l : list A) : Z := Z.of_nat (length l).
  (* bisect_left:  if key(a[mid]) < x: lo = mid + 1 else: hi = mid *)
  Definition bisect_left (l : list A) (x : K) : Z :=
    bisect_loop (fun e => ltb (keyf e) x) l (S (length l)) 0 (len l).
  (* bisect_right: if x < key(a[mid]): hi = mid else: lo = mid + 1 *)
  Definition bisect_right (l : list A) (x : K) : Z :=
    bisect_loop (fun e => negb (ltb x (keyf e))) l (S (length l)) 0 (len l).
End Bisect.

(* ------------------------------------------------------------------------------------------------ *)
(* RecordSet with a sort key, FindOps                                                                *)

(* a record of the set: row id and the values of the sort columns (what SortKey(row_id) reads) *)
Record row : Type := mkRow { rid : Z; rvals : list val }.
Definition row_key (r : row) : key := (rvals r, RId (rid r)).

(* rs_spec = [] stands for `_sort_key is None` (lookup without a sort spec). rs_rows are in _row_ids order. *)
Record rset : Type := mkRset { rs_spec : list bool; rs_rows : list row }.

Inductive res : Type :=
| Ok (z : Z)
| ErrValue          (* ValueError: "Can only use 'find' methods in a sorted reference list" *)
| ErrOther.         (* any other exception *)

(* RecordSet._at: the record at a valid non-negative index, else the empty record (None here) *)
Definition at_row (rows : list row) (i : Z) : option row :=
  if (0 <=? i) && (i <? Z.of_nat (length rows)) then nth_error rows (Z.to_nat i) else None.
Definition rid_of (o : option row) : Z := match o with Some r => rid r | None => 0 end.

(* _bisect_find(bisect_func, shift, search_row_id, search_values) with explicit values:
   key(search_row_id, search_values) takes `values or <cells of row search_row_id>`; with a sentinel row id
   and empty values the cell access fails. *)
Definition find_row (left : bool) (shift : Z) (sent : rowid) (rs : rset) (values : list val)
  : res + option row :=
  match rs_spec rs with
  | [] => inl ErrValue
  | _ :: _ =>
      match values with
      | [] => inl ErrOther
      | _ :: _ =>
          let x : key := (values, sent) in
          let i := if left then bisect_left (key_lt (rs_spec rs)) row_key (rs_rows rs) x
                   else bisect_right (key_lt (rs_spec rs)) row_key (rs_rows rs) x in
          inr (at_row (rs_rows rs) (i + shift))
      end
  end.
Definition to_res (x : res + option row) : res :=
  match x with inl e => e | inr o => Ok (rid_of o) end.

Definition find_lt (rs : rset) (values : list val) : res := to_res (find_row true (-1) RNegInf rs values).
Definition find_le (rs : rset) (values : list val) : res := to_res (find_row false (-1) RPosInf rs values).
Definition find_gt (rs : rset) (values : list val) : res := to_res (find_row false 0 RPosInf rs values).
Definition find_ge (rs : rset) (values : list val) : res := to_res (find_row true 0 RNegInf rs values).

(* _find_eq: found = ge; if found and key(found._row_id, values) < key(found._row_id): empty record *)
Definition find_eq (rs : rset) (values : list val) : res :=
  match find_row true 0 RNegInf rs values with
  | inl e => e
  | inr None => Ok 0
  | inr (Some r) =>
      if rid r =? 0 then Ok 0
      else if key_lt (rs_spec rs) (values, RId (rid r)) (row_key r) then Ok 0 else Ok (rid r)
  end.

(* FindOps.previous / next / rank: the probe is SortKey(row_id) of a record of the table *)
Definition find_previous (rs : rset) (r : row) : res :=
  match rs_spec rs with
  | [] => ErrValue
  | _ :: _ => Ok (rid_of (at_row (rs_rows rs)
                   (bisect_left (key_lt (rs_spec rs)) row_key (rs_rows rs) (row_key r) + -1)))
  end.
Definition find_next (rs : rset) (r : row) : res :=
  match rs_spec rs with
  | [] => ErrValue
  | _ :: _ => Ok (rid_of (at_row (rs_rows rs)
                   (bisect_right (key_lt (rs_spec rs)) row_key (rs_rows rs) (row_key r) + 0)))
  end.
Definition find_rank (rs : rset) (r : row) (asc : bool) : res :=
  match rs_spec rs with
  | [] => ErrValue
  | _ :: _ =>
      let index := bisect_left (key_lt (rs_spec rs)) row_key (rs_rows rs) (row_key r) in
      Ok (if asc then index + 1 else Z.of_nat (length (rs_rows rs)) - index)
  end.

(* ------------------------------------------------------------------------------------------------ *)
(* sorted(row_id_set, key=sort_key): the order is total on records with distinct ids, so any correct
   sort gives this list; insertion sort is the model.  With spec = [] this sorts by row id.            *)

Fixpoint insert_row (spec : list bool) (r : row) (l : list row) : list row :=
  match l with
  | [] => [r]
  | y :: t => if key_lt spec (row_key r) (row_key y) then r :: l else y :: insert_row spec r t
  end.
Definition sort_rows (spec : list bool) (l : list row) : list row := fold_right (insert_row spec) [] l.

(* ------------------------------------------------------------------------------------------------ *)
(* Linear-scan definitions (the reference the property names).                                       *)

(* the record's sort values come strictly before / after the probe values, as SortKey compares them
   (column by column with signs and fallback, over the columns both have; row ids play no role) *)
Definition before (spec : list bool) (vals : list val) (r : row) : bool := vals_lt spec (rvals r) vals false.
Definition after (spec : list bool) (vals : list val) (r : row) : bool := vals_lt spec vals (rvals r) false.

(* id of the last / first record of the list satisfying P, 0 (the empty record) if there is none *)
Definition scan_last (P : row -> bool) (rows : list row) : Z :=
  fold_left (fun acc r => if P r then rid r else acc) rows 0.
Definition scan_first (P : row -> bool) (rows : list row) : Z :=
  match find P rows with Some r => rid r | None => 0 end.

Definition lt_scan spec vals rows := scan_last (before spec vals) rows.
Definition le_scan spec vals rows := scan_last (fun r => negb (after spec vals r)) rows.
Definition gt_scan spec vals rows := scan_first (after spec vals) rows.
Definition ge_scan spec vals rows := scan_first (fun r => negb (before spec vals r)) rows.
Definition eq_scan spec vals rows :=
  scan_first (fun r => negb (before spec vals r) && negb (after spec vals r)) rows.

(* number of records of the list whose key is strictly before / after the key of r *)
Definition count_before spec (r : row) (rows : list row) : Z :=
  Z.of_nat (length (filter (fun e => key_lt spec (row_key e) (row_key r)) rows)).
Definition count_after spec (r : row) (rows : list row) : Z :=
  Z.of_nat (length (filter (fun e => key_lt spec (row_key r) (row_key e)) rows)).

(* ------------------------------------------------------------------------------------------------ *)
(* The domain: mutually comparable values.                                                           *)

(* a and b are ordered by SortKey in a meaningful way: natively comparable, or of different fallback
   classes.  (Two values of one class that Python cannot compare, e.g. [1] and ['x'], are treated by
   SortKey as equal; such columns are outside the property's domain, like NaN.) *)
Definition comparable (a b : val) : bool :=
  match cmp3 a b with
  | Some _ => true
  | None => fb_lt (fb_key a) (fb_key b) || fb_lt (fb_key b) (fb_key a)
  end.
Fixpoint vals_comparable (va vb : list val) : bool :=
  match va, vb with
  | a :: va', b :: vb' => comparable a b && vals_comparable va' vb'
  | _, _ => true
  end.
Definition all_comparable (vss : list (list val)) : bool :=
  forallb (fun va => forallb (vals_comparable va) vss) vss.

(* ------------------------------------------------------------------------------------------------ *)
(* Tables, make_sort_spec, lookup_records, PREVIOUS/NEXT/RANK                                        *)

Definition colid := list Z.
Record trow : Type := mkTrow { t_id : Z; t_cells : list (colid * val) }.

Fixpoint assoc (c : colid) (l : list (colid * val)) : option val :=
  match l with
  | [] => None
  | (k, v) :: t => if str_eqb k c then Some v else assoc c t
  end.
Definition cell (r : trow) (c : colid) : option val := assoc c (t_cells r).

Definition s_id := [105; 100].
Definition s_manualSort := [109; 97; 110; 117; 97; 108; 83; 111; 114; 116].
Definition c_minus := 45.

Fixpoint str_mem (s : list Z) (l : list (list Z)) : bool :=
  match l with [] => false | x :: t => str_eqb x s || str_mem s t end.
(* order_by[:order_by.index('id')] *)
Fixpoint cut_at_id (l : list (list Z)) : list (list Z) :=
  match l with [] => [] | x :: t => if str_eqb x s_id then [] else x :: cut_at_id t end.

(* table.make_sort_spec.  order_by: a string is given as a 1-element list, None as []; sort_by: [] for None/''. *)
Definition make_sort_spec (order_by : list (list Z)) (sort_by : list Z) (has_manual_sort : bool) : list (list Z) :=
  match sort_by with
  | _ :: _ => [sort_by]
  | [] =>
      if str_mem s_id order_by then cut_at_id order_by
      else if has_manual_sort && negb (str_mem s_manualSort order_by) then order_by ++ [s_manualSort]
      else order_by
  end.

(* make_sort_key: (col_spec[1:], -1) if col_spec.startswith('-') else (col_spec, 1) ; snd = (sign == 1) *)
Definition split_col_spec (cs : list Z) : colid * bool :=
  match cs with
  | c :: rest => if c =? c_minus then (rest, false) else (cs, true)
  | [] => (cs, true)
  end.

Fixpoint cells_of (r : trow) (cols : list colid) : option (list val) :=
  match cols with
  | [] => Some []
  | c :: t => match cell r c, cells_of r t with Some v, Some vs => Some (v :: vs) | _, _ => None end
  end.
Fixpoint rows_of (tbl : list trow) (cols : list colid) : option (list row) :=
  match tbl with
  | [] => Some []
  | r :: t => match cells_of r cols, rows_of t cols with
              | Some vs, Some rs => Some (mkRow (t_id r) vs :: rs) | _, _ => None end
  end.

(* keys of the lookup index are compared as dict keys: == (and equal hashes): 1 == 1.0 == True *)
Definition val_eqb (a b : val) : bool := match cmp3 a b with Some Eq => true | _ => false end.
Fixpoint group_match (r : trow) (gkey : list (colid * val)) : bool :=
  match gkey with
  | [] => true
  | (c, v) :: t => match cell r c with Some w => val_eqb w v && group_match r t | None => false end
  end.

(* Table.lookup_records(gkey..., order_by=..., sort_by=...): None stands for KeyError (unknown column) *)
Definition lookup_records (tbl : list trow) (has_manual_sort : bool) (gkey : list (colid * val))
           (order_by : list (list Z)) (sort_by : list Z) : option rset :=
  let sspec := map split_col_spec (make_sort_spec order_by sort_by has_manual_sort) in
  match rows_of tbl (map fst sspec) with       (* the sort columns must exist, whatever the key matches *)
  | None => None
  | Some _ =>
      match rows_of (filter (fun r => group_match r gkey) tbl) (map fst sspec) with
      | Some rows => Some (mkRset (map snd sspec) (sort_rows (map snd sspec) rows))
      | None => None
      end
  end.

Inductive op : Type := OLt | OLe | OGt | OGe | OEq | OPrev | ONext | ORankAsc | ORankDesc.

(* a formula cell `T.lookupRecords(gkey..., order_by=...).find.OP(probe values)` *)
Definition eval_find (o : op) (tbl : list trow) (hm : bool) (gkey : list (colid * val))
           (order_by : list (list Z)) (sort_by : list Z) (probe : list val) : res :=
  match lookup_records tbl hm gkey order_by sort_by with
  | None => ErrOther
  | Some rs =>
      match o with
      | OLt => find_lt rs probe
      | OLe => find_le rs probe
      | OGt => find_gt rs probe
      | OGe => find_ge rs probe
      | OEq => find_eq rs probe
      | _ => ErrOther
      end
  end.

Fixpoint gkey_of (r : trow) (group_by : list colid) : option (list (colid * val)) :=
  match group_by with
  | [] => Some []
  | c :: t => match cell r c, gkey_of r t with Some v, Some g => Some ((c, v) :: g) | _, _ => None end
  end.

(* PREVIOUS / NEXT / RANK (rec, group_by=..., order_by=..., order=...) for the record with id rec_id *)
Definition eval_prevnext (o : op) (tbl : list trow) (hm : bool) (group_by : list colid)
           (order_by : list (list Z)) (rec_id : Z) : res :=
  match find (fun r => t_id r =? rec_id) tbl with
  | None => ErrOther
  | Some rec =>
      match gkey_of rec group_by with
      | None => ErrOther
      | Some gkey =>
          match lookup_records tbl hm gkey order_by [] with
          | None => ErrOther
          | Some rs =>
              let sspec := map split_col_spec (make_sort_spec order_by [] hm) in
              match cells_of rec (map fst sspec) with
              | None => ErrOther
              | Some vs =>
                  let r := mkRow rec_id vs in
                  match o with
                  | OPrev => find_previous rs r
                  | ONext => find_next rs r
                  | ORankAsc => find_rank rs r true
                  | ORankDesc => find_rank rs r false
                  | _ => ErrOther
                  end
              end
          end
      end
  end.

Definition res_eqb (a b : res) : bool :=
  match a, b with
  | Ok x, Ok y => x =? y
  | ErrValue, ErrValue => true
  | ErrOther, ErrOther => true
  | _, _ => false
  end.

(* ------------------------------------------------------------------------------------------------ *)
(* Vocabulary of the theorems.                                                                       *)

(* the domain: every record has one value per sort column, and the sort values of the records are
   mutually comparable column by column *)
Definition dom_ok (spec : list bool) (rows : list row) : Prop :=
  (forall r, In r rows -> length (rvals r) = length spec) /\
  (forall a b, In a rows -> In b rows -> vals_comparable (rvals a) (rvals b) = true).

(* the probe values are comparable with the sort values of the records, column by column *)
Definition probe_ok (rows : list row) (vals : list val) : Prop :=
  forall a, In a rows -> vals_comparable (rvals a) vals = true.

(* the list is in SortKey order: no record's key is strictly before the key of an earlier record *)
Definition sorted_rows (spec : list bool) (l : list row) : Prop :=
  StronglySorted (fun a b => key_lt spec (row_key b) (row_key a) = false) l.

(* id of the last / first record of a list, 0 (the empty record) for the empty list *)
Definition last_id (l : list row) : Z := match rev l with r :: _ => rid r | [] => 0 end.
Definition head_id (l : list row) : Z := match l with r :: _ => rid r | [] => 0 end.

(* (column id, ascending?) for each entry of the effective sort spec *)
Definition sort_cols (order_by : list (list Z)) (sort_by : list Z) (hm : bool) : list (colid * bool) :=
  map split_col_spec (make_sort_spec order_by sort_by hm).

(* One formula cell of the correspondence check. *)
Inductive query : Type :=
| QFind (o : op) (gkey : list (colid * val)) (order_by : list (list Z)) (sort_by : list Z) (probe : list val)
| QPN (o : op) (group_by : list colid) (order_by : list (list Z)) (rec_id : Z).

Definition eval_query (tbl : list trow) (hm : bool) (q : query) : res :=
  match q with
  | QFind o gkey order_by sort_by probe => eval_find o tbl hm gkey order_by sort_by probe
  | QPN o group_by order_by rec_id => eval_prevnext o tbl hm group_by order_by rec_id
  end.

(* the hypotheses dom_ok / probe_ok of the theorems as a boolean (see rset_okb_spec) *)
Definition rset_okb (spec : list bool) (rows : list row) (probes : list (list val)) : bool :=
  forallb (fun r => Nat.eqb (length (rvals r)) (length spec)) rows && all_comparable (probes ++ map rvals rows).

(* ... evaluated on a whole table: sort values of all rows and the probes are mutually comparable column by
   column, and every record has one value per sort column *)
Definition domain_okb (tbl : list trow) (hm : bool) (order_by : list (list Z)) (sort_by : list Z)
           (probes : list (list val)) : bool :=
  match rows_of tbl (map fst (sort_cols order_by sort_by hm)) with
  | Some rows => rset_okb (map snd (sort_cols order_by sort_by hm)) rows probes
  | None => false
  end.
