(* C16 -- Renames never change formula results.  Executable model only (no proofs).

   Part A (tree level): formulas as expression trees over NAMED tables/columns, a document with named tables and
   columns, an evaluation semantics with fuel (cell -> formula -> cell ...), the static "which table is this
   record of" inference that decides which attribute names a rename touches (the role astroid plays in
   codebuilder.parse_grist_names), and rename_doc / rename_formula for an arbitrary renaming of table names
   (rn_tab) and of column names per table (rn_col).

   Part B (text level, further down): a formula text as list Z, name tokens as segments, the Replacer of
   textbuilder.py as used by UserActions._prepare_formula_renames. *)
From Coq Require Import ZArith List Bool.
Import ListNotations.
Open Scope Z_scope.

Definition name := list Z.

Fixpoint name_eqb (a b : name) : bool :=
  match a, b with
  | [], [] => true
  | x :: a', y :: b' => Z.eqb x y && name_eqb a' b'
  | _, _ => false
  end.

(* "group": the column NAME by which summary.decode_summary_table_name recognises a summary table *)
Definition GROUP : name := [103; 114; 111; 117; 112].

(* ---- results ---------------------------------------------------------------------------------- *)
Inductive R (A : Type) : Type := ROk (a : A) | RErr (k : Z).
Arguments ROk {A} a.
Arguments RErr {A} k.

Definition rbind {A B} (r : R A) (f : A -> R B) : R B :=
  match r with ROk a => f a | RErr k => RErr k end.

Fixpoint rmap {A B} (f : A -> R B) (l : list A) : R (list B) :=
  match l with
  | [] => ROk []
  | x :: t => rbind (f x) (fun y => rbind (rmap f t) (fun ys => ROk (y :: ys)))
  end.

Fixpoint rfilter {A} (f : A -> R bool) (l : list A) : R (list A) :=
  match l with
  | [] => ROk []
  | x :: t => rbind (f x) (fun b => rbind (rfilter f t) (fun ys => ROk (if b then x :: ys else ys)))
  end.

(* error kinds (what the cell shows as ['E', <exception>]) *)
Definition EATTR : Z := 1.   (* AttributeError: no such column / not a record *)
Definition ETYPE : Z := 2.   (* TypeError *)
Definition EFUEL : Z := 3.   (* evaluation did not finish (circular reference) *)
Definition ENAME : Z := 4.   (* NameError: no such table / variable *)

(* ---- values ----------------------------------------------------------------------------------- *)
Inductive val :=
| VNone
| VInt (n : Z)
| VStr (s : list Z)
| VRec (t : name) (r : Z)            (* a record of table t *)
| VRecs (t : name) (rs : list Z)     (* a record set of table t *)
| VList (vs : list val).

Definition truthy (v : val) : bool :=
  match v with
  | VNone => false
  | VInt n => negb (n =? 0)
  | VStr s => match s with [] => false | _ => true end
  | VRec _ r => negb (r =? 0)
  | VRecs _ rs => match rs with [] => false | _ => true end
  | VList vs => match vs with [] => false | _ => true end
  end.

(* equality of lookup keys: a reference is its row id; table names play no role; lists never match *)
Definition key_eqb (a b : val) : bool :=
  match a, b with
  | VNone, VNone => true
  | VInt x, VInt y => x =? y
  | VStr s, VStr t => name_eqb s t
  | VRec _ r, VRec _ r' => r =? r'
  | VRec _ r, VInt n => r =? n
  | VInt n, VRec _ r => n =? r
  | _, _ => false
  end.

Fixpoint keys_eqb (a b : list val) : bool :=
  match a, b with
  | [], [] => true
  | x :: a', y :: b' => key_eqb x y && keys_eqb a' b'
  | _, _ => false
  end.

Fixpoint lex_lt (a b : list Z) : bool :=
  match a, b with
  | _, [] => false
  | [], _ :: _ => true
  | x :: a', y :: b' => (x <? y) || ((x =? y) && lex_lt a' b')
  end.

(* sort_key.SortKey: None < numbers < other types by type name (Record, RecordSet, list, str) *)
Definition val_rank (v : val) : Z :=
  match v with VNone => 0 | VInt _ => 1 | VRec _ _ => 2 | VRecs _ _ => 3 | VList _ => 4 | VStr _ => 5 end.

(* the order used by order_by.  References of one column point into one table and sort by row id (the table name,
   which Record.__lt__ looks at first, is the same); lists / record sets among themselves are left unordered. *)
Definition val_lt (a b : val) : bool :=
  match a, b with
  | VInt x, VInt y => x <? y
  | VRec _ x, VRec _ y => x <? y
  | VStr s, VStr t => lex_lt s t
  | _, _ => val_rank a <? val_rank b
  end.

(* lexicographic comparison of sort keys; desc flips one component *)
Fixpoint key_lt (descs : list bool) (a b : list val) : bool :=
  match descs, a, b with
  | dsc :: ds, x :: a', y :: b' =>
      let lt := if dsc then val_lt y x else val_lt x y in
      let gt := if dsc then val_lt x y else val_lt y x in
      lt || (negb gt && key_lt ds a' b')
  | _, _, _ => false
  end.

(* stable insertion sort *)
Fixpoint insert_by {A} (lt : A -> A -> bool) (x : A) (l : list A) : list A :=
  match l with
  | [] => [x]
  | y :: t => if lt y x then y :: insert_by lt x t else x :: l
  end.

Definition sort_by {A} (lt : A -> A -> bool) (l : list A) : list A := fold_right (insert_by lt) [] l.

(* ---- formulas --------------------------------------------------------------------------------- *)
Inductive expr :=
| EInt (n : Z)
| EStr (s : list Z)
| ENone
| ERec                                   (* rec *)
| EVar (x : name)                        (* a comprehension variable *)
| EDollar (c : name)                     (* $c *)
| ECol (e : expr) (c : name)             (* e.c *)
| EId (e : expr)                         (* e.id *)
| ELookup (one : bool) (t : name) (ks : keys) (ob : list (bool * name))
                                         (* T.lookupOne / T.lookupRecords (k=e, ..., order_by=("-c", ...)) *)
| EAll (t : name)                        (* T.all *)
| EComp (body : expr) (x : name) (src : expr)                  (* [body for x in src] *)
| ECompIf (body : expr) (x : name) (src : expr) (cond : expr)  (* [body for x in src if cond] *)
| EPrevNext (w : Z) (e : expr) (gb : list name) (ob : list (bool * name))
                                         (* PREVIOUS (0) / NEXT (1) / RANK (2) (e, group_by=..., order_by=...) *)
| EPrim1 (f : Z) (e : expr)              (* len(e), SUM(e), ... *)
| EPrim2 (f : Z) (a b : expr)            (* a + b, a == b, ... *)
| EIf (c a b : expr)                     (* a if c else b *)
| EGroup                                 (* table.getSummarySourceGroup(rec) *)
with keys :=
| KNil
| KCons (k : name) (e : expr) (ks : keys).

(* ---- documents --------------------------------------------------------------------------------- *)
Inductive ctyp := CPlain | CRef (t : name) | CRefList (t : name).

Record column := mkcol { cname : name; ctype : ctyp; cformula : option expr; cdata : list (Z * val) }.
(* tgroups: for a summary table, the source rows of each summary row (what the summary lookup machinery yields) *)
Record table := mktab { tname : name; tcols : list column; trows : list Z; tgroups : list (Z * list Z) }.
Definition doc := list table.

Definition find_table (d : doc) (t : name) : option table := find (fun tb => name_eqb (tname tb) t) d.
Definition find_col (tb : table) (c : name) : option column := find (fun co => name_eqb (cname co) c) (tcols tb).

Fixpoint lookup_env {A} (x : name) (l : list (name * A)) : option A :=
  match l with
  | [] => None
  | (y, a) :: t => if name_eqb y x then Some a else lookup_env x t
  end.

Fixpoint lookup_z {A} (r : Z) (l : list (Z * A)) : option A :=
  match l with
  | [] => None
  | (y, a) :: t => if y =? r then Some a else lookup_z r t
  end.

(* the table a Ref / RefList column points to *)
Definition col_target (d : doc) (t c : name) : option name :=
  match find_table d t with
  | Some tb => match find_col tb c with
               | Some co => match ctype co with CRef u => Some u | CRefList u => Some u | CPlain => None end
               | None => None
               end
  | None => None
  end.

(* gencode/summary.decode_summary_table_name: a table is a summary table iff it has a column NAMED group whose
   formula is the group formula and whose type is a reference list; that type names the source table *)
Definition summary_source (d : doc) (t : name) : option name :=
  match find_table d t with
  | Some tb => match find_col tb GROUP with
               | Some co => match ctype co, cformula co with
                            | CRefList s, Some EGroup => Some s
                            | _, _ => None
                            end
               | None => None
               end
  | None => None
  end.

(* a column that WOULD make its table a summary table if it were named group *)
Definition is_grp (co : column) : bool :=
  match ctype co, cformula co with CRefList _, Some EGroup => true | _, _ => false end.

(* ---- static inference: of which table is this expression a record (set)? ---------------------- *)
Definition tenv := list (name * option name).

Fixpoint infer (d : doc) (self : name) (G : tenv) (e : expr) : option name :=
  match e with
  | ERec => Some self
  | EVar x => match lookup_env x G with Some o => o | None => None end
  | EDollar c => col_target d self c
  | ECol e1 c => match infer d self G e1 with Some t => col_target d t c | None => None end
  | ELookup _ t _ _ => Some t
  | EAll t => Some t
  | EPrevNext _ e1 _ _ => infer d self G e1
  | _ => None
  end.

(* a comprehension variable is typed only when it ranges directly over a lookup or over T.all
   (InferLookupComprehension, InferAllComprehension) *)
Definition comp_type (src : expr) : option name :=
  match src with ELookup _ t _ _ => Some t | EAll t => Some t | _ => None end.

(* every attribute / order_by / group_by name has a statically known table: the supported reference forms *)
Fixpoint wf_static (d : doc) (self : name) (G : tenv) (e : expr) : bool :=
  match e with
  | ECol e1 _ => wf_static d self G e1 && match infer d self G e1 with Some _ => true | None => false end
  | EId e1 => wf_static d self G e1
  | ELookup _ _ ks _ => wf_keys d self G ks
  | EComp body x src => wf_static d self G src && wf_static d self ((x, comp_type src) :: G) body
  | ECompIf body x src cond =>
      wf_static d self G src && wf_static d self ((x, comp_type src) :: G) body
      && wf_static d self ((x, comp_type src) :: G) cond
  | EPrevNext _ e1 gb ob =>
      wf_static d self G e1 &&
      match infer d self G e1 with Some _ => true | None => match gb, ob with [], [] => true | _, _ => false end end
  | EPrim1 _ e1 => wf_static d self G e1
  | EPrim2 _ a b => wf_static d self G a && wf_static d self G b
  | EIf c a b => wf_static d self G c && wf_static d self G a && wf_static d self G b
  | _ => true
  end
with wf_keys (d : doc) (self : name) (G : tenv) (ks : keys) : bool :=
  match ks with
  | KNil => true
  | KCons _ e ks' => wf_static d self G e && wf_keys d self G ks'
  end.

Definition doc_wf (d : doc) : Prop :=
  forall tb co f, In tb d -> In co (tcols tb) -> cformula co = Some f -> wf_static d (tname tb) [] f = true.

(* ---- renaming ---------------------------------------------------------------------------------- *)
Section Rename.
  Variable rn_tab : name -> name.            (* table ids *)
  Variable rn_col : name -> name -> name.    (* rn_col T c: the new id of column c of (old) table T *)

  Definition rn_ob (t : name) (ob : list (bool * name)) : list (bool * name) :=
    map (fun p => (fst p, rn_col t (snd p))) ob.
  Definition rn_opt_col (ot : option name) (c : name) : name :=
    match ot with Some t => rn_col t c | None => c end.
  Definition rn_opt_ob (ot : option name) (ob : list (bool * name)) : list (bool * name) :=
    match ot with Some t => rn_ob t ob | None => ob end.

  Fixpoint ren (d : doc) (self : name) (G : tenv) (e : expr) : expr :=
    match e with
    | EDollar c => EDollar (rn_col self c)
    | ECol e1 c => ECol (ren d self G e1) (rn_opt_col (infer d self G e1) c)
    | EId e1 => EId (ren d self G e1)
    | ELookup one t ks ob => ELookup one (rn_tab t) (ren_keys d self G t ks) (rn_ob t ob)
    | EAll t => EAll (rn_tab t)
    | EComp body x src => EComp (ren d self ((x, comp_type src) :: G) body) x (ren d self G src)
    | ECompIf body x src cond =>
        ECompIf (ren d self ((x, comp_type src) :: G) body) x (ren d self G src)
                (ren d self ((x, comp_type src) :: G) cond)
    | EPrevNext w e1 gb ob =>
        EPrevNext w (ren d self G e1) (map (rn_opt_col (infer d self G e1)) gb) (rn_opt_ob (infer d self G e1) ob)
    | EPrim1 f e1 => EPrim1 f (ren d self G e1)
    | EPrim2 f a b => EPrim2 f (ren d self G a) (ren d self G b)
    | EIf c a b => EIf (ren d self G c) (ren d self G a) (ren d self G b)
    | _ => e
    end
  with ren_keys (d : doc) (self : name) (G : tenv) (t : name) (ks : keys) : keys :=
    match ks with
    | KNil => KNil
    | KCons k e ks' => KCons (rn_col t k) (ren d self G e) (ren_keys d self G t ks')
    end.

  Definition rn_ctyp (ty : ctyp) : ctyp :=
    match ty with CPlain => CPlain | CRef t => CRef (rn_tab t) | CRefList t => CRefList (rn_tab t) end.

  Fixpoint rn_val (v : val) : val :=
    match v with
    | VRec t r => VRec (rn_tab t) r
    | VRecs t rs => VRecs (rn_tab t) rs
    | VList vs => VList (map rn_val vs)
    | _ => v
    end.

  Definition rn_res (r : R val) : R val := match r with ROk v => ROk (rn_val v) | RErr k => RErr k end.

  Definition rn_column (d : doc) (t : name) (co : column) : column :=
    mkcol (rn_col t (cname co)) (rn_ctyp (ctype co)) (option_map (ren d t []) (cformula co))
          (map (fun p => (fst p, rn_val (snd p))) (cdata co)).

  Definition rn_table (d : doc) (tb : table) : table :=
    mktab (rn_tab (tname tb)) (map (rn_column d (tname tb)) (tcols tb)) (trows tb) (tgroups tb).

  (* the schema AND every reference are renamed together *)
  Definition rename_doc (d : doc) : doc := map (rn_table d) d.
End Rename.

(* one column (T, a) -> b, one table a -> b *)
Definition ren1 (a b x : name) : name := if name_eqb x a then b else x.
Definition col1 (T a b : name) (t c : name) : name := if name_eqb t T then ren1 a b c else c.
Definition id_tab (t : name) : name := t.
Definition id_col (t c : name) : name := c.
(* the transposition a <-> b: what a rename a -> b amounts to when b is fresh *)
Definition swap (a b x : name) : name := if name_eqb x a then b else if name_eqb x b then a else x.
Definition colS (T a b : name) (t c : name) : name := if name_eqb t T then swap a b c else c.

(* the (table, column) pairs a formula refers to, as the static inference resolves them, and the tables it names *)
Fixpoint col_uses (d : doc) (self : name) (G : tenv) (e : expr) : list (name * name) :=
  match e with
  | EDollar c => [(self, c)]
  | ECol e1 c => match infer d self G e1 with Some t => [(t, c)] | None => [] end ++ col_uses d self G e1
  | EId e1 => col_uses d self G e1
  | ELookup _ t ks ob => key_uses d self G t ks ++ map (fun p => (t, snd p)) ob
  | EComp body x src => col_uses d self ((x, comp_type src) :: G) body ++ col_uses d self G src
  | ECompIf body x src cond =>
      col_uses d self ((x, comp_type src) :: G) body ++ col_uses d self G src
      ++ col_uses d self ((x, comp_type src) :: G) cond
  | EPrevNext _ e1 gb ob =>
      match infer d self G e1 with
      | Some t => map (fun c => (t, c)) gb ++ map (fun p => (t, snd p)) ob
      | None => []
      end ++ col_uses d self G e1
  | EPrim1 _ e1 => col_uses d self G e1
  | EPrim2 _ a b => col_uses d self G a ++ col_uses d self G b
  | EIf c a b => col_uses d self G c ++ col_uses d self G a ++ col_uses d self G b
  | _ => []
  end
with key_uses (d : doc) (self : name) (G : tenv) (t : name) (ks : keys) : list (name * name) :=
  match ks with
  | KNil => []
  | KCons k e ks' => (t, k) :: col_uses d self G e ++ key_uses d self G t ks'
  end.

Fixpoint tab_uses (e : expr) : list name :=
  match e with
  | ECol e1 _ => tab_uses e1
  | EId e1 => tab_uses e1
  | ELookup _ t ks _ => t :: key_tab_uses ks
  | EAll t => [t]
  | EComp body _ src => tab_uses body ++ tab_uses src
  | ECompIf body _ src cond => tab_uses body ++ tab_uses src ++ tab_uses cond
  | EPrevNext _ e1 _ _ => tab_uses e1
  | EPrim1 _ e1 => tab_uses e1
  | EPrim2 _ a b => tab_uses a ++ tab_uses b
  | EIf c a b => tab_uses c ++ tab_uses a ++ tab_uses b
  | _ => []
  end
with key_tab_uses (ks : keys) : list name :=
  match ks with
  | KNil => []
  | KCons _ e ks' => tab_uses e ++ key_tab_uses ks'
  end.

(* ---- evaluation -------------------------------------------------------------------------------- *)
(* what `rec.c` gives for the stored / computed raw value v of a column of type ty *)
Fixpoint ids_of (vs : list val) : option (list Z) :=
  match vs with
  | [] => Some []
  | VInt n :: t => option_map (cons n) (ids_of t)
  | VRec _ n :: t => option_map (cons n) (ids_of t)
  | _ :: _ => None
  end.

Definition wrap (ty : ctyp) (v : val) : R val :=
  match ty with
  | CPlain => ROk v
  | CRef u => match v with
              | VInt n => ROk (VRec u n)
              | VRec _ n => ROk (VRec u n)
              | VNone => ROk (VRec u 0)
              | VStr s => ROk (VStr s)        (* alternative text in a reference cell reads as the text itself *)
              | _ => RErr ETYPE
              end
  | CRefList u => match v with
                  | VNone => ROk (VRecs u [])
                  | VRecs _ rs => ROk (VRecs u rs)
                  | VList vs => match ids_of vs with Some rs => ROk (VRecs u rs) | None => RErr ETYPE end
                  | VStr s => ROk (VStr s)
                  | _ => RErr ETYPE
                  end
  end.

(* the stored value of row r; the entry for row 0, if any, is the column's default (what the empty record and
   references to missing rows show: '' for Text, 0 for Int ...) *)
Definition data_at (l : list (Z * val)) (r : Z) : val :=
  match lookup_z r l with
  | Some v => v
  | None => match lookup_z 0 l with Some v => v | None => VNone end
  end.

Definition flat_ids (vs : list val) : list Z :=
  flat_map (fun v => match v with VRec _ r => [r] | VRecs _ rs => rs | _ => [] end) vs.

(* the full sort key order: the order_by columns, then manualSort, then the row id.  Rows of the table are in
   manualSort order by row id here; a row id that is not a row of the table (the empty record, a dangling reference)
   has manualSort = infinity and comes after them. *)
Definition tie_lt (pa : bool) (ra : Z) (pb : bool) (rb : Z) : bool :=
  match pa, pb with true, false => true | false, true => false | _, _ => ra <? rb end.
Definition krow_lt (descs : list bool) (pa : bool) (a : list val * Z) (pb : bool) (b : list val * Z) : bool :=
  key_lt descs (fst a) (fst b) || (negb (key_lt descs (fst b) (fst a)) && tie_lt pa (snd a) pb (snd b)).

(* PREVIOUS / NEXT / RANK of the record with sort key `me` in the sorted group `ks` (records.FindOps: bisection by
   sort key, so the record itself need not be in the group -- e.g. the empty record; present: is it a row at all) *)
Definition prevnext (w : Z) (t : name) (descs : list bool) (present : bool) (me : list val * Z)
                    (ks : list (list val * Z)) : val :=
  let below := filter (fun k => krow_lt descs true k present me) ks in
  let above := filter (fun k => krow_lt descs present me true k) ks in
  if w =? 0 then VRec t (snd (last below ([], 0)))
  else if w =? 1 then VRec t (snd (hd ([], 0) above))
  else VInt (Z.of_nat (S (length below))).

Definition elems (v : val) : R (list val) :=
  match v with
  | VRecs t rs => ROk (map (VRec t) rs)
  | VList vs => ROk vs
  | _ => RErr ETYPE
  end.

Fixpoint somes {A} (l : list (option A)) : list A :=
  match l with [] => [] | Some a :: t => a :: somes t | None :: t => somes t end.

Section Eval.
  Variable prim1 : Z -> val -> R val.              (* builtin functions: len, SUM, list, str ... *)
  Variable prim2 : Z -> val -> val -> R val.       (* operators: +, ==, <, or ... *)
  Variable d : doc.
  Variable cellf : name -> Z -> name -> R val.      (* value of cell (table, row, column) *)

  Definition rows_of (t : name) : R (list Z) :=
    match find_table d t with Some tb => ROk (trows tb) | None => RErr ENAME end.

  Definition keyed_rows (t : name) (ob : list (bool * name)) (rows : list Z) : R (list (list val * Z)) :=
    rbind (rmap (fun r => rbind (rmap (fun p => cellf t r (snd p)) ob) (fun kv => ROk (kv, r))) rows)
          (fun keyed => ROk (sort_by (fun a b => key_lt (map fst ob) (fst a) (fst b)) keyed)).

  Definition sort_rows (t : name) (ob : list (bool * name)) (rows : list Z) : R (list Z) :=
    rbind (keyed_rows t ob rows) (fun ks => ROk (map snd ks)).

  Definition row_matches (t : name) (r : Z) (kvs : list (name * val)) : R bool :=
    rbind (rmap (fun kv => rbind (cellf t r (fst kv)) (fun v => ROk (key_eqb v (snd kv)))) kvs)
          (fun bs => ROk (forallb (fun b => b) bs)).

  Definition attr (v : val) (c : name) : R val :=
    match v with
    | VRec t r => cellf t r c
    | VRecs t rs =>
        rbind (rmap (fun r => cellf t r c) rs)
              (fun vs => ROk (match col_target d t c with Some u => VRecs u (flat_ids vs) | None => VList vs end))
    | _ => RErr EATTR
    end.

  Fixpoint eval (self : name) (row : Z) (env : list (name * val)) (e : expr) {struct e} : R val :=
    match e with
    | EInt n => ROk (VInt n)
    | EStr s => ROk (VStr s)
    | ENone => ROk VNone
    | ERec => ROk (VRec self row)
    | EVar x => match lookup_env x env with Some v => ROk v | None => RErr ENAME end
    | EDollar c => cellf self row c
    | ECol e1 c => rbind (eval self row env e1) (fun v => attr v c)
    | EId e1 =>
        rbind (eval self row env e1)
              (fun v => match v with
                        | VRec _ r => ROk (VInt r)
                        | VRecs _ rs => ROk (VList (map VInt rs))
                        | _ => RErr EATTR
                        end)
    | ELookup one t ks ob =>
        rbind (eval_keys self row env ks) (fun kvs =>
        rbind (rows_of t) (fun rows =>
        rbind (rfilter (fun r => row_matches t r kvs) rows) (fun m =>
        rbind (sort_rows t ob m) (fun s =>
        ROk (if one then VRec t (hd 0 s) else VRecs t s)))))
    | EAll t => rbind (rows_of t) (fun rows => ROk (VRecs t rows))
    | EComp body x src =>
        rbind (eval self row env src) (fun v =>
        rbind (elems v) (fun vs =>
        rbind (rmap (fun el => eval self row ((x, el) :: env) body) vs) (fun out => ROk (VList out))))
    | ECompIf body x src cond =>
        rbind (eval self row env src) (fun v =>
        rbind (elems v) (fun vs =>
        rbind (rmap (fun el => rbind (eval self row ((x, el) :: env) cond) (fun c =>
                               if truthy c then rbind (eval self row ((x, el) :: env) body) (fun b => ROk (Some b))
                               else ROk None)) vs)
              (fun out => ROk (VList (somes out)))))
    | EPrevNext w e1 gb ob =>
        rbind (eval self row env e1) (fun v =>
        match v with
        | VRec t r =>
            rbind (rows_of t) (fun rows =>
            rbind (rmap (fun c => cellf t r c) gb) (fun mine =>
            rbind (rfilter (fun r' => rbind (rmap (fun c => cellf t r' c) gb)
                                            (fun theirs => ROk (keys_eqb mine theirs))) rows) (fun grp =>
            rbind (keyed_rows t ob grp) (fun ks =>
            rbind (rmap (fun p => cellf t r (snd p)) ob) (fun kv =>
            (* a summary table has no manualSort column: there the row id alone breaks ties *)
            ROk (prevnext w t (map fst ob)
                          (match summary_source d t with Some _ => true | None => existsb (Z.eqb r) rows end)
                          (kv, r) ks))))))
        | _ => RErr ETYPE
        end)
    | EPrim1 f e1 => rbind (eval self row env e1) (prim1 f)
    | EPrim2 f a b =>
        if f =? 3 then       (* `a or b` is lazy *)
          rbind (eval self row env a) (fun va => if truthy va then ROk va else eval self row env b)
        else rbind (eval self row env a) (fun va => rbind (eval self row env b) (prim2 f va))
    | EIf c a b => rbind (eval self row env c) (fun vc => if truthy vc then eval self row env a else eval self row env b)
    | EGroup =>
        match summary_source d self, find_table d self with
        | Some s, Some tb => ROk (VRecs s (match lookup_z row (tgroups tb) with Some rs => rs | None => [] end))
        | _, _ => ROk VNone
        end
    end
  with eval_keys (self : name) (row : Z) (env : list (name * val)) (ks : keys) {struct ks} : R (list (name * val)) :=
    match ks with
    | KNil => ROk []
    | KCons k e ks' =>
        rbind (eval self row env e) (fun v => rbind (eval_keys self row env ks') (fun t => ROk ((k, v) :: t)))
    end.
End Eval.

(* the value of a cell: stored data, or the column's formula evaluated with one unit of fuel less *)
Fixpoint cell (prim1 : Z -> val -> R val) (prim2 : Z -> val -> val -> R val) (d : doc) (fuel : nat)
              (t : name) (r : Z) (c : name) : R val :=
  match fuel with
  | O => RErr EFUEL
  | S n =>
      match find_table d t with
      | None => RErr ENAME
      | Some tb =>
          match find_col tb c with
          | None => RErr EATTR
          | Some co =>
              match cformula co with
              | None => wrap (ctype co) (data_at (cdata co) r)
              | Some f =>
                  (* formulas are computed for the rows of the table; any other row id shows the column default *)
                  if existsb (Z.eqb r) (trows tb)
                  then rbind (eval prim1 prim2 d (cell prim1 prim2 d n) t r [] f) (wrap (ctype co))
                  else wrap (ctype co) (data_at (cdata co) r)
              end
          end
      end
  end.

(* the value of formula f evaluated for row `row` of table `self` *)
Definition eval_formula prim1 prim2 (fuel : nat) (d : doc) (self : name) (row : Z) (f : expr) : R val :=
  eval prim1 prim2 d (cell prim1 prim2 d fuel) self row [] f.

(* a concrete set of builtins (the theorems hold for ANY builtins that do not look at table names) *)
(* SUM: numbers add up, everything else counts 0 (functions.math._chain_numeric_a; booleans are the ints 0/1 here) *)
Fixpoint sum_ints (vs : list val) : Z :=
  match vs with
  | [] => 0
  | VInt n :: t => n + sum_ints t
  | _ :: t => sum_ints t
  end.

(* Python ==: structural; a record equals a record of the same table and row only *)
Fixpoint val_eqb (a b : val) {struct a} : bool :=
  match a, b with
  | VNone, VNone => true
  | VInt x, VInt y => x =? y
  | VStr s, VStr t => name_eqb s t
  | VRec t r, VRec t' r' => name_eqb t t' && (r =? r')
  | VRecs t rs, VRecs t' rs' => name_eqb t t' && name_eqb rs rs'
  | VList l, VList m =>
      (fix go (l m : list val) {struct l} : bool :=
         match l, m with
         | [], [] => true
         | x :: l', y :: m' => val_eqb x y && go l' m'
         | _, _ => false
         end) l m
  | _, _ => false
  end.

Definition std_prim1 (f : Z) (v : val) : R val :=
  if f =? 0 then      (* len *)
    match v with
    | VStr s => ROk (VInt (Z.of_nat (length s)))
    | VList vs => ROk (VInt (Z.of_nat (length vs)))
    | VRecs _ rs => ROk (VInt (Z.of_nat (length rs)))
    | _ => RErr ETYPE
    end
  else if f =? 1 then (* SUM: one level of iteration, never fails *)
    match v with
    | VList vs => ROk (VInt (sum_ints vs))
    | VInt n => ROk (VInt n)
    | _ => ROk (VInt 0)
    end
  else if f =? 2 then (* list *)
    match v with
    | VList vs => ROk (VList vs)
    | VRecs t rs => ROk (VList (map (VRec t) rs))
    | VStr s => ROk (VList (map (fun c => VStr [c]) s))
    | _ => RErr ETYPE
    end
  else if f =? 4 then (* bool *)
    ROk (VInt (if truthy v then 1 else 0))
  else RErr ETYPE.

Definition std_prim2 (f : Z) (a b : val) : R val :=
  if f =? 0 then      (* + *)
    match a, b with
    | VInt x, VInt y => ROk (VInt (x + y))
    | VStr s, VStr t => ROk (VStr (s ++ t))
    | VList l, VList m => ROk (VList (l ++ m))
    | _, _ => RErr ETYPE
    end
  else if f =? 1 then ROk (VInt (if val_eqb a b then 1 else 0))       (* == *)
  else if f =? 2 then                                                  (* < : same kinds only *)
    match a, b with
    | VInt x, VInt y => ROk (VInt (if x <? y then 1 else 0))
    | VStr s, VStr t => ROk (VInt (if lex_lt s t then 1 else 0))
    | VRec t x, VRec t' y =>
        (* Record.__lt__ orders by (table id, row id); across tables that order depends on the table NAMES and is
           not modelled *)
        if name_eqb t t' then ROk (VInt (if x <? y then 1 else 0)) else RErr ETYPE
    | VRec _ _, _ => RErr EATTR        (* other._table *)
    | _, _ => RErr ETYPE
    end
  else if f =? 3 then ROk (if truthy a then a else b)                 (* or *)
  else RErr ETYPE.

Definition evalS := eval_formula std_prim1 std_prim2.

(* ---- what UserActions._updateTableRecords does to reference columns when a table is renamed ------------------- *)
(* Columns of type Ref:Old / RefList:Old are retyped to Int and then to Ref:New.  The detour converts the cells:
   row ids survive, but ALTERNATIVE TEXT that reads as a number becomes that number, i.e. a row id. *)
Fixpoint digits_val (s : list Z) (acc : Z) : option Z :=
  match s with
  | [] => Some acc
  | c :: t => if (48 <=? c) && (c <=? 57) then digits_val t (acc * 10 + (c - 48)) else None
  end.
Definition parse_int (s : list Z) : option Z := match s with [] => None | _ => digits_val s 0 end.

Definition retype_val (ty : ctyp) (v : val) : val :=
  match ty, v with
  | CRef _, VStr s => match parse_int s with Some n => VInt n | None => v end
  | CRefList _, VStr s => match parse_int s with
                          | Some n => if n =? 0 then VNone else VList [VInt n]     (* row 0 is no reference *)
                          | None => v
                          end
  | _, _ => v
  end.

Definition targets (ty : ctyp) (a : name) : bool :=
  match ty with CPlain => false | CRef t => name_eqb t a | CRefList t => name_eqb t a end.

Definition retype_column (a : name) (co : column) : column :=
  if targets (ctype co) a
  then mkcol (cname co) (ctype co) (cformula co) (map (fun p => (fst p, retype_val (ctype co) (snd p))) (cdata co))
  else co.

Definition retype_doc (a : name) (d : doc) : doc :=
  map (fun tb => mktab (tname tb) (map (retype_column a) (tcols tb)) (trows tb) (tgroups tb)) d.

(* RenameTable a -> b as the engine performs it *)
Definition engine_rename_table (a b : name) (d : doc) : doc := rename_doc (ren1 a b) id_col (retype_doc a d).

(* ================================================================================================= *)
(* Part B: formula TEXT.  textbuilder.Replacer as UserActions._prepare_formula_renames uses it.          *)
Definition text := list Z.
Definition EVALUE : Z := 6.     (* ValueError("Invalid patch ...") *)

Definition tlen (s : text) : Z := Z.of_nat (length s).
(* Python s[a:b] and s[a:] for a, b >= 0 *)
Definition slice (s : text) (a b : Z) : text := firstn (Z.to_nat (b - a)) (skipn (Z.to_nat a) s).
Definition slice_from (s : text) (a : Z) : text := skipn (Z.to_nat a) s.

Record patch := mkpatch { pstart : Z; pend : Z; pold : text; pnew : text }.

(* textbuilder.make_patch *)
Definition make_patch (full : text) (a b : Z) (new : text) : patch := mkpatch a b (slice full a b) new.

(* the order of Python tuples (start, end, old_text, new_text); strings compare by code point *)
Definition patch_lt (p q : patch) : bool :=
  (pstart p <? pstart q) || ((pstart p =? pstart q) &&
  ((pend p <? pend q) || ((pend p =? pend q) &&
  (lex_lt (pold p) (pold q) || (name_eqb (pold p) (pold q) && lex_lt (pnew p) (pnew q)))))).

(* Replacer.__init__: patches in sorted order; each is validated against the input text *)
Fixpoint replace_go (s : text) (in_pos : Z) (ps : list patch) : R text :=
  match ps with
  | [] => ROk (slice_from s in_pos)
  | p :: t =>
      if name_eqb (slice s (pstart p) (pend p)) (pold p)
      then rbind (replace_go s (pend p) t) (fun rest => ROk (slice s in_pos (pstart p) ++ pnew p ++ rest))
      else RErr EVALUE
  end.

Definition replacer_text (s : text) (patches : list patch) : R text := replace_go s 0 (sort_by patch_lt patches).

(* what codebuilder.parse_grist_names reports about one formula: start position, table id, column id or None *)
Definition occ := (Z * name * option name)%type.
Definition occ_text (o : occ) : name := match snd o with Some c => c | None => snd (fst o) end.

Section TextRename.
  Variable rn_tab : name -> name.
  Variable rn_col : name -> name -> name.

  Definition new_text (o : occ) : name :=
    match snd o with Some c => rn_col (snd (fst o)) c | None => rn_tab (snd (fst o)) end.
  (* `new_name = renames.get((table_id, col_id)); if new_name:` -- the entity is being renamed *)
  Definition renamed (o : occ) : bool := negb (name_eqb (new_text o) (occ_text o)).

  Definition occ_patch (formula : text) (o : occ) : patch :=
    make_patch formula (fst (fst o)) (fst (fst o) + tlen (occ_text o)) (new_text o).

  (* _prepare_formula_renames for one formula, given what grist_names() reported for it *)
  Definition rename_text (formula : text) (reported : list occ) : R text :=
    replacer_text formula (map (occ_patch formula) (filter renamed reported)).

  (* the order in which Replacer will process the reported names *)
  Definition occ_lt (formula : text) (a b : occ) : bool := patch_lt (occ_patch formula a) (occ_patch formula b).
End TextRename.

(* a formula text cut into segments: literal text and name tokens with the entity they refer to *)
Inductive seg := Lit (s : text) | Nm (t : name) (c : option name).

Definition seg_text (g : seg) : text :=
  match g with Lit s => s | Nm t (Some c) => c | Nm t None => t end.

Fixpoint flatten (l : list seg) : text :=
  match l with [] => [] | g :: t => seg_text g ++ flatten t end.

(* the name tokens with their positions, in text order *)
Fixpoint occs (l : list seg) (off : Z) : list occ :=
  match l with
  | [] => []
  | Lit s :: t => occs t (off + tlen s)
  | Nm tb c :: t => (off, tb, c) :: occs t (off + tlen (seg_text (Nm tb c)))
  end.

Definition rn_seg (rn_tab : name -> name) (rn_col : name -> name -> name) (g : seg) : seg :=
  match g with
  | Lit s => Lit s
  | Nm t (Some c) => Nm (rn_tab t) (Some (rn_col t c))
  | Nm t None => Nm (rn_tab t) None
  end.
