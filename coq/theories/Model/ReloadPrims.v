(* Python builtins and methods on the value universe V, as used by the code that harness/rl2v.py translates for C07
   (main._decode_db_value, the column classes' set / _clean_up_value, objtypes.safe_shift / decode_args / strict_equal /
   equal_encoding).  The translated functions (coq/gen/Reload_gen.v) are built from these; Proofs/Reload_bridge.v
   proves them equal to the hand-written model Model/Reload.v.  Definitions only. *)
From Coq Require Import ZArith List Bool String.
Import ListNotations.
Require Import Grist.Lib.PyFloat Grist.Model.Values Grist.Model.Reload.
Open Scope Z_scope.

(* type(v).  Instances of subclasses of one builtin are taken to be of one subclass (as in Reload.same_type); two
   opaque objects are never of the same type. *)
Inductive pytype :=
| TyNone | TyBool | TyInt (sub : bool) | TyFloat (sub : bool) | TyStr (sub : bool) | TyBytes (sub : bool)
| TyList | TyRecordList | TyTuple | TyDict | TySet | TyDate | TyDateTime | TyRecord (t : str) | TyRecordSet (t : str)
| TyRecordStub | TyRecordSetStub | TyRefLookup | TyAltText | TyErr | TyPending | TyCensored | TyUnmarsh | TyOpaque.

Definition p_type (v : value) : pytype :=
  match v with
  | PNone => TyNone | PBool _ => TyBool | PInt s _ => TyInt s | PFloat s _ => TyFloat s | PStr s _ => TyStr s
  | PBytes s _ => TyBytes s | PList LPlain _ => TyList | PList (LRecordList _) _ => TyRecordList | PTuple _ => TyTuple
  | PDict _ => TyDict | PSet _ => TySet | PDate _ => TyDate | PDateTime _ _ => TyDateTime | PRecord t _ => TyRecord t
  | PRecordSet t _ _ _ => TyRecordSet t | PRecordStub _ _ => TyRecordStub | PRecordSetStub _ _ => TyRecordSetStub
  | PRefLookup _ _ => TyRefLookup | PAltText _ => TyAltText | PErr _ _ _ _ => TyErr | PPending => TyPending
  | PCensored => TyCensored | PUnmarsh _ => TyUnmarsh | POpaque _ => TyOpaque
  end.

Definition pytype_eqb (a b : pytype) : bool :=
  match a, b with
  | TyNone, TyNone | TyBool, TyBool | TyList, TyList | TyRecordList, TyRecordList | TyTuple, TyTuple | TyDict, TyDict
  | TySet, TySet | TyDate, TyDate | TyDateTime, TyDateTime | TyRecordStub, TyRecordStub | TyRecordSetStub, TyRecordSetStub
  | TyRefLookup, TyRefLookup | TyAltText, TyAltText | TyErr, TyErr | TyPending, TyPending | TyCensored, TyCensored
  | TyUnmarsh, TyUnmarsh => true
  | TyInt s, TyInt s' | TyFloat s, TyFloat s' | TyStr s, TyStr s' | TyBytes s, TyBytes s' => Bool.eqb s s'
  | TyRecord t, TyRecord t' | TyRecordSet t, TyRecordSet t' => str_eqb t t'
  | _, _ => false
  end.

(* the builtin classes named in the translated code *)
Definition ty_int := TyInt false.
Definition ty_float := TyFloat false.
Definition ty_bytes := TyBytes false.

(* which set() a column class resolves to (the table itself is generated from the running classes) *)
Inductive set_kind := KIdentity | KBool | KNumeric | KChoiceList | KRef | KRefList.

Inductive pyclass := CStr | CList | CInt | CFloat | CBool.

(* isinstance(v, C) *)
Definition p_isinstance (v : value) (c : pyclass) : bool :=
  match c, v with
  | CStr, PStr _ _ | CList, PList _ _ | CInt, PInt _ _ | CInt, PBool _ | CFloat, PFloat _ _ | CBool, PBool _ => true
  | _, _ => false
  end.

Definition p_is_none (v : value) : bool := match v with PNone => true | _ => false end.

(* blocks: a statement list either returns a value or falls through *)
Definition p_fn {A} (dflt : A) (r : result (option A)) : result A :=
  match r with Ok (Some x) => Ok x | Ok None => Ok dflt | Raise e => Raise e end.

(* try: BODY / except Exception: pass, followed by REST *)
Definition p_try_block {A} (body rest : result (option A)) : result (option A) :=
  match body with Ok (Some x) => Ok (Some x) | _ => rest end.

(* try: x = E / except Exception: pass *)
Definition p_try_value (e : result value) (old : value) : value :=
  match e with Ok x => x | Raise _ => old end.

(* try: return E / except Exception: return False   (bool functions) *)
Definition p_try_bool (e : result bool) (handler : bool) : result bool :=
  match e with Ok b => Ok b | Raise _ => Ok handler end.

Definition p_and (a b : result bool) : result bool := bind a (fun x => if x then b else Ok false).
Definition p_or (a b : result bool) : result bool := bind a (fun x => if x then Ok true else b).
Definition p_not (a : result bool) : result bool := bind a (fun x => Ok (negb x)).

Section Prims.
Variable orc : oracles.

Definition p_truthy (v : value) : result bool :=
  match py_truthy orc v with Some b => Ok b | None => Raise E_Type end.

(* a == b (objects without __eq__: identity, never the same object here; see Reload.py_eq) *)
Definition p_eq (a b : value) : result bool := Ok (py_eq orc a b).

(* v > k for an int constant k *)
Definition p_gt_int (v : value) (k : Z) : result bool :=
  match v with
  | PInt _ z => Ok (k <? z)
  | PBool b => Ok (k <? (if b then 1 else 0))
  | PFloat _ f => match f with
                  | FNan => Ok false
                  | FInf neg => Ok (negb neg)
                  | FZero _ => Ok (k <? 0)
                  | FNum m _ => match f_trunc f with
                                | TrOk n => Ok (if f_eq_Z f n then k <? n else if 0 <? m then k <=? n else k <? n)
                                | _ => Ok false
                                end
                  end
  | _ => Raise E_Type
  end.

(* float(v), int(v) *)
Definition p_float (v : value) : result value := bind (py_float orc v) (fun f => Ok (PFloat false f)).
Definition p_int (v : value) : result value :=
  match v with
  | PFloat _ f => bind (py_int_of_float f) (fun n => Ok (PInt false n))
  | PInt _ z => Ok (PInt false z)
  | PBool b => Ok (PInt false (if b then 1 else 0))
  | _ => Raise E_Type
  end.

(* v.is_integer() *)
Definition p_is_integer (v : value) : result bool :=
  match v with
  | PFloat _ f => match f_trunc f with TrOk n => Ok (f_eq_Z f n) | _ => Ok false end
  | _ => Raise E_Attribute
  end.

(* objtypes.is_int_short(v) *)
Definition p_is_int_short (v : value) : result bool :=
  match v with
  | PInt _ z => Ok (is_int_short z)
  | PBool _ => Ok true
  | _ => Raise E_Type
  end.

Definition p_startswith (v : value) (prefix : str) : result bool :=
  match v with PStr _ s => Ok (starts_with prefix s) | _ => Raise E_Attribute end.

(* json.loads(v) *)
Definition p_json_loads (v : value) : result value :=
  match v with
  | PStr _ s => match o_json_loads orc s with Some j => Ok j | None => Raise E_Value end
  | _ => Raise E_Type
  end.

(* tuple(v), list(v) *)
Definition p_tuple (v : value) : result value := bind (py_iter orc v) (fun l => Ok (PTuple l)).
Definition p_list (v : value) : result value := bind (py_iter orc v) (fun l => Ok (PList LPlain l)).

(* all(f(x) for x in v) *)
Fixpoint all_result (f : value -> result bool) (l : list value) : result bool :=
  match l with
  | [] => Ok true
  | x :: t => bind (f x) (fun b => if b then all_result f t else Ok false)
  end.
Definition p_all (f : value -> result bool) (v : value) : result bool :=
  bind (py_iter orc v) (all_result f).

(* objtypes.RecordList.from_repr(v) *)
Definition p_recordlist_from_repr (v : value) : result value :=
  match v with PStr _ s => reclist_from_repr orc s | _ => Raise E_Attribute end.

(* isnan(v) *)
Definition p_isnan (v : value) : result bool :=
  match v with
  | PFloat _ f => Ok (f_is_nan f)
  | PInt _ _ | PBool _ => Ok false
  | _ => Raise E_Type
  end.

(* value = arg.pop(0) if arg else None : (value, arg afterwards) *)
Definition p_pop0_or_none (arg : value) : result (value * value) :=
  match arg with
  | PList k (x :: t) => Ok (x, PList k t)
  | PList k [] => Ok (PNone, arg)
  | _ => bind (p_truthy arg) (fun b => if b then Raise E_Attribute else Ok (PNone, arg))
  end.

(* RaisedException.NO_INPUT, a unique object() *)
Definition NO_INPUT : value := POpaque (-1).
Definition p_is_no_input (v : value) : bool := match v with POpaque (-1) => true | _ => false end.

(* d.get(key, default) *)
Definition p_dict_get (d : value) (key : str) (default : value) : result value :=
  match d with
  | PDict l => Ok (match dict_get key l with Some x => x | None => default end)
  | _ => Raise E_Attribute
  end.

(* type(name, (Exception,), {}) and instances of such a class: a class is named by its name, an instance is the pair
   (class, constructor arguments) *)
Definition p_new_exc_class (name : value) : result value := Ok name.
Definition p_instantiate (cls : value) (args : list value) : result value := Ok (PTuple [cls; PList LPlain args]).

End Prims.
