(* K-lookup: executable model of the lookup index of the Grist data engine (property C13).

   Models, function by function:
     twowaymap.py   TwoWayMap with the bin kinds single / strict / set / list / LookupSet
                    (add_item, remove_item, remove_key, insert with its rollback, remove, remove_left,
                    remove_right, clear), LookupSet.sorted_versions
     lookup.py      SimpleLookupMapping / ContainsLookupMapping (get_new_keys_iter, update_record,
                    remove_row_id, lookup_by_key), LookupMapColumn._do_lookup_with_sort,
                    _reset_sorted_versions, _extract
     sort_key.py    make_sort_key / SortKey.__lt__ with the type-position fallback
     table.py       make_sort_spec, lookup_records (index part), lookup_one_record / RecordSet.get_one

   Definitions only; the proofs are in Proofs/Lookup_proofs.v, the statements in Props/C13.v.
   Python values: see [val].  A float is the rational it denotes (finite floats are dyadic rationals);
   NaN and infinities are not representable: the property excludes NaN and the harness keeps such
   cases in a separate stream that is not compared with this model. *)
From Coq Require Import ZArith List Bool QArith.
Import ListNotations.
Open Scope Z_scope.

Definition str := list Z.          (* a Python str: its code points *)

Fixpoint str_eqb (s t : str) : bool :=
  match s, t with
  | [], [] => true
  | a :: s', b :: t' => Z.eqb a b && str_eqb s' t'
  | _, _ => false
  end.

(* str.__lt__: lexicographic on code points *)
Fixpoint str_ltb (s t : str) : bool :=
  match s, t with
  | [], [] => false
  | [], _ :: _ => true
  | _ :: _, [] => false
  | a :: s', b :: t' => if Z.ltb a b then true else if Z.ltb b a then false else str_ltb s' t'
  end.

(* ------------------------------------------------------------------------------------------- *)
(* Cell values as formulas see them ("rich" values)                                            *)

Inductive val :=
| VNone
| VBool (b : bool)
| VInt (z : Z)
| VFloat (q : Q)                   (* finite, non-NaN float *)
| VStr (s : str)
| VAlt (s : str)                   (* objtypes.AltText: hashable, ==, no ordering *)
| VObj (cls : str) (ord : Z)       (* an object of class [cls] ordered inside its class (datetime.date ...) *)
| VRef (tbl : str) (id : Z)        (* records.Record of table [tbl] *)
| VTuple (l : list val)
| VList (l : list val).            (* list, or a RecordSet (list of VRef): unhashable *)

Definition numval (v : val) : option Q :=
  match v with
  | VBool b => Some (inject_Z (if b then 1 else 0))
  | VInt z => Some (inject_Z z)
  | VFloat q => Some q
  | _ => None
  end.

(* Python == *)
Fixpoint val_eqb (a b : val) {struct a} : bool :=
  match numval a, numval b with
  | Some x, Some y => Qeq_bool x y
  | _, _ =>
    match a, b with
    | VNone, VNone => true
    | VStr s, VStr t => str_eqb s t
    | VAlt s, VAlt t => str_eqb s t
    | VObj c o, VObj c' o' => str_eqb c c' && Z.eqb o o'
    | VRef t i, VRef t' i' => str_eqb t t' && Z.eqb i i'
    | VTuple l, VTuple m =>
        (fix go (l m : list val) {struct l} : bool :=
           match l, m with
           | [], [] => true
           | x :: l', y :: m' => val_eqb x y && go l' m'
           | _, _ => false
           end) l m
    | VList l, VList m =>
        (fix go (l m : list val) {struct l} : bool :=
           match l, m with
           | [], [] => true
           | x :: l', y :: m' => val_eqb x y && go l' m'
           | _, _ => false
           end) l m
    | _, _ => false
    end
  end.

Fixpoint vals_eqb (l m : list val) : bool :=
  match l, m with
  | [], [] => true
  | x :: l', y :: m' => val_eqb x y && vals_eqb l' m'
  | _, _ => false
  end.

(* hash(v) does not raise *)
Fixpoint hashable (v : val) : bool :=
  match v with
  | VList _ => false
  | VTuple l => (fix go (l : list val) : bool :=
                   match l with [] => true | x :: l' => hashable x && go l' end) l
  | _ => true
  end.

(* bool(v) *)
Definition truthy (v : val) : bool :=
  match v with
  | VNone => false
  | VBool b => b
  | VInt z => negb (Z.eqb z 0)
  | VFloat q => negb (Qeq_bool q 0)
  | VStr s => match s with [] => false | _ => true end
  | VAlt _ => true
  | VObj _ _ => true
  | VRef _ i => negb (Z.eqb i 0)
  | VTuple l => match l with [] => false | _ => true end
  | VList l => match l with [] => false | _ => true end
  end.

(* ------------------------------------------------------------------------------------------- *)
(* a < b in Python                                                                             *)

Inductive cmpres := CTrue | CFalse | CTypeError | CRaise.   (* CRaise: an exception other than TypeError *)

Definition cmp_of_bool (b : bool) : cmpres := if b then CTrue else CFalse.

Definition is_ref (v : val) : bool := match v with VRef _ _ => true | _ => false end.

Fixpoint py_lt (a b : val) {struct a} : cmpres :=
  match numval a, numval b with
  | Some x, Some y => cmp_of_bool (negb (Qle_bool y x))
  | _, _ =>
    match a, b with
    | VStr s, VStr t => cmp_of_bool (str_ltb s t)
    | VObj c o, VObj c' o' => if str_eqb c c' then cmp_of_bool (Z.ltb o o') else CTypeError
    | VRef t i, VRef t' i' =>
        (* Record.__lt__: (table_id, row_id) < (table_id', row_id') *)
        cmp_of_bool (if str_ltb t t' then true else if str_ltb t' t then false else Z.ltb i i')
    | VTuple l, VTuple m =>
        (fix go (l m : list val) {struct l} : cmpres :=
           match l, m with
           | [], [] => CFalse
           | [], _ :: _ => CTrue
           | _ :: _, [] => CFalse
           | x :: l', y :: m' => if val_eqb x y then go l' m' else py_lt x y
           end) l m
    | VList l, VList m =>
        (fix go (l m : list val) {struct l} : cmpres :=
           match l, m with
           | [], [] => CFalse
           | [], _ :: _ => CTrue
           | _ :: _, [] => CFalse
           | x :: l', y :: m' => if val_eqb x y then go l' m' else py_lt x y
           end) l m
    | _, _ =>
        (* Record.__lt__/__gt__ read other._table: AttributeError / InvalidTypedValue, not TypeError *)
        if is_ref a || is_ref b then CRaise else CTypeError
    end
  end.

(* sort_key.py fallback:  ((0 if a is None else 1), (0 if isinstance(a, Number) else 1), type(a).__name__) *)
Definition s_NoneType : str := [78; 111; 110; 101; 84; 121; 112; 101].
Definition s_bool : str := [98; 111; 111; 108].
Definition s_int : str := [105; 110; 116].
Definition s_float : str := [102; 108; 111; 97; 116].
Definition s_str : str := [115; 116; 114].
Definition s_AltText : str := [65; 108; 116; 84; 101; 120; 116].
Definition s_Record : str := [82; 101; 99; 111; 114; 100].
Definition s_tuple : str := [116; 117; 112; 108; 101].
Definition s_list : str := [108; 105; 115; 116].

Definition type_name (v : val) : str :=
  match v with
  | VNone => s_NoneType | VBool _ => s_bool | VInt _ => s_int | VFloat _ => s_float
  | VStr _ => s_str | VAlt _ => s_AltText | VObj c _ => c | VRef _ _ => s_Record
  | VTuple _ => s_tuple | VList _ => s_list
  end.

Definition fallback_pos (v : val) : Z * Z * str :=
  ((match v with VNone => 0 | _ => 1 end),
   (match numval v with Some _ => 0 | None => 1 end),
   type_name v).

Definition pos_ltb (p q : Z * Z * str) : bool :=
  let '(a1, a2, a3) := p in
  let '(b1, b2, b3) := q in
  if Z.ltb a1 b1 then true else if Z.ltb b1 a1 then false else
  if Z.ltb a2 b2 then true else if Z.ltb b2 a2 then false else
  str_ltb a3 b3.

(* One column of SortKey.__lt__: Some true / Some false = "return ...", None = go on to the next column *)
Inductive colres := Decided (b : bool) | NextCol | Raised.

Definition sortkey_col (a b : val) (asc : bool) : colres :=
  match py_lt a b with
  | CTrue => Decided asc                         (* return sign == 1 *)
  | CRaise => Raised
  | CTypeError =>
      if pos_ltb (fallback_pos a) (fallback_pos b) then Decided asc
      else if pos_ltb (fallback_pos b) (fallback_pos a) then Decided (negb asc)
      else NextCol
  | CFalse =>
      match py_lt b a with
      | CTrue => Decided (negb asc)              (* return sign == -1 *)
      | CRaise => Raised
      | CTypeError =>
          if pos_ltb (fallback_pos a) (fallback_pos b) then Decided asc
          else if pos_ltb (fallback_pos b) (fallback_pos a) then Decided (negb asc)
          else NextCol
      | CFalse => NextCol
      end
  end.

(* SortKey(r1) < SortKey(r2): values per column with the ascending flag, then the row ids.
   zip() stops at the shorter list. *)
Fixpoint sortkey_lt (va vb : list val) (asc : list bool) (ra rb : Z) : option bool :=
  match va, vb, asc with
  | a :: va', b :: vb', s :: asc' =>
      match sortkey_col a b s with
      | Decided r => Some r
      | Raised => None
      | NextCol => sortkey_lt va' vb' asc' ra rb
      end
  | _, _, _ => Some (Z.ltb ra rb)
  end.

(* ------------------------------------------------------------------------------------------- *)
(* make_sort_key: a sort spec is a tuple of column ids, '-' prefix = descending                *)

Definition sortspec := list str.

Fixpoint spec_eqb (a b : sortspec) : bool :=
  match a, b with
  | [], [] => true
  | x :: a', y :: b' => str_eqb x y && spec_eqb a' b'
  | _, _ => false
  end.

Definition spec_col (c : str) : str * bool :=          (* (column id, ascending) *)
  match c with
  | 45 :: rest => (rest, false)
  | _ => (c, true)
  end.

(* Table contents: row id -> (column id -> value), rows in any order *)
Definition row := list (str * val).
Definition table := list (Z * row).

Fixpoint row_get (r : row) (c : str) : option val :=
  match r with
  | [] => None
  | (c', v) :: t => if str_eqb c' c then Some v else row_get t c
  end.

Fixpoint tbl_get (t : table) (r : Z) : option row :=
  match t with
  | [] => None
  | (r', d) :: t' => if Z.eqb r' r then Some d else tbl_get t' r
  end.

(* SortKey.values = tuple(table.get_column(c).get_cell_value(row_id) for c in column ids): the cells are read
   through the table by column id when the key is built; None if a column or the row is missing (the
   real code raises then) *)
Fixpoint sort_values (t : table) (spec : sortspec) (r : Z) : option (list val) :=
  match spec with
  | [] => Some []
  | c :: spec' =>
      match tbl_get t r with
      | None => None
      | Some d =>
          match row_get d (fst (spec_col c)), sort_values t spec' r with
          | Some v, Some vs => Some (v :: vs)
          | _, _ => None
          end
      end
  end.

Definition row_lt (t : table) (spec : sortspec) (ra rb : Z) : option bool :=
  match sort_values t spec ra, sort_values t spec rb with
  | Some va, Some vb => sortkey_lt va vb (map (fun c => snd (spec_col c)) spec) ra rb
  | _, _ => None
  end.

(* sorted(iterable, key=SortKey): stable; None when a comparison raises *)
Fixpoint insert_sorted (lt : Z -> Z -> option bool) (x : Z) (l : list Z) : option (list Z) :=
  match l with
  | [] => Some [x]
  | y :: t =>
      match lt y x with
      | None => None
      | Some true => match insert_sorted lt x t with Some t' => Some (y :: t') | None => None end
      | Some false => Some (x :: y :: t)
      end
  end.

Fixpoint sort_with (lt : Z -> Z -> option bool) (l : list Z) : option (list Z) :=
  match l with
  | [] => Some []
  | x :: t => match sort_with lt t with Some t' => insert_sorted lt x t' | None => None end
  end.

(* sorted() first builds SortKey(r) for every r, which reads the cells (and raises if it cannot) *)
Definition sort_rows (t : table) (spec : sortspec) (l : list Z) : option (list Z) :=
  if forallb (fun r => match sort_values t spec r with Some _ => true | None => false end) l
  then sort_with (row_lt t spec) l else None.

(* ------------------------------------------------------------------------------------------- *)
(* twowaymap.py                                                                                *)

Inductive kind := KSingle | KStrict | KSet | KList | KLookupSet.
Inductive exn := TypeErr | ValueErr | OtherErr.   (* OtherErr: any other exception class *)

Definition is_single (k : kind) : bool := match k with KSingle | KStrict => true | _ => false end.
(* containers that hash their elements *)
Definition hashes_values (k : kind) : bool := match k with KSet | KLookupSet => true | _ => false end.

(* A bin: its elements in insertion order (a single-value bin holds one) and, for LookupSet,
   sorted_versions (always empty for the other kinds). *)
Record bin (A : Type) := mkBin { items : list A; cache : list (sortspec * list A) }.
Arguments mkBin {A}. Arguments items {A}. Arguments cache {A}.

Section Dict.
  Context {K A : Type}.
  Variable keq : K -> K -> bool.

  Definition dict := list (K * A).

  Fixpoint dget (m : dict) (k : K) : option A :=
    match m with
    | [] => None
    | (k', v) :: t => if keq k' k then Some v else dget t k
    end.

  Fixpoint ddel (m : dict) (k : K) : dict :=
    match m with
    | [] => []
    | (k', v) :: t => if keq k' k then ddel t k else (k', v) :: ddel t k
    end.

  (* mapping[k] = v : replaces in place (keeping the old key object) or appends *)
  Fixpoint dset (m : dict) (k : K) (v : A) : dict :=
    match m with
    | [] => [(k, v)]
    | (k', v') :: t => if keq k' k then (k', v) :: ddel t k else (k', v') :: dset t k v
    end.
  (* an in-place change of the object found under k (the first entry with an equal key); nothing if absent *)
  Fixpoint dupd (m : dict) (k : K) (v : A) : dict :=
    match m with
    | [] => []
    | (k', v') :: t => if keq k' k then (k', v) :: t else (k', v') :: dupd t k v
    end.
End Dict.
Arguments dict : clear implicits.

Fixpoint memb {A} (eqb : A -> A -> bool) (x : A) (l : list A) : bool :=
  match l with
  | [] => false
  | y :: t => if eqb y x then true else memb eqb x t
  end.

Fixpoint remove_first {A} (eqb : A -> A -> bool) (x : A) (l : list A) : list A :=
  match l with
  | [] => []
  | y :: t => if eqb y x then t else y :: remove_first eqb x t
  end.

Section Bins.
  Context {K A : Type}.
  Variables (keq : K -> K -> bool) (aeq : A -> A -> bool) (khash : K -> bool) (ahash : A -> bool).
  (* "...for key %s" % key raises TypeError instead of the intended ValueError when key is a tuple whose
     length is not 1 *)
  Variable kfmt_fails : K -> bool.

  Inductive ares :=
  | AOk (m : dict K (bin A)) (removed added : option A)      (* _NIL = None *)
  | ARaise (e : exn).                                         (* raised before any mutation *)

  Definition one (v : A) : bin A := mkBin [v] [].

  (* <bin type>.add_item(mapping, key, value) *)
  Definition add_item (kd : kind) (m : dict K (bin A)) (key : K) (value : A) : ares :=
    if negb (khash key) then ARaise TypeErr                     (* mapping.get(key) *)
    else
      match kd with
      | KSingle =>
          match dget keq m key with
          | Some {| items := s :: _ |} =>
              if aeq s value then AOk (dset keq m key (one value)) None None
              else AOk (dset keq m key (one value)) (Some s) (Some value)
          | _ => AOk (dset keq m key (one value)) None (Some value)
          end
      | KStrict =>
          match dget keq m key with
          | Some {| items := s :: _ |} =>
              if aeq s value then AOk m None None
              else ARaise (if kfmt_fails key then TypeErr else ValueErr)
          | _ => AOk (dset keq m key (one value)) None (Some value)
          end
      | _ =>
          if hashes_values kd && negb (ahash value) then ARaise TypeErr   (* {value} / value in set *)
          else
            match dget keq m key with
            | None => AOk (dset keq m key (one value)) None (Some value)
            | Some b =>
                if memb aeq value (items b) then AOk m None None
                else AOk (dupd keq m key (mkBin (items b ++ [value]) [])) None (Some value)   (* in place *)
            end
      end.

  (* remove_item: None = TypeError raised (before any mutation) *)
  Definition remove_item (kd : kind) (m : dict K (bin A)) (key : K) (value : A)
    : option (dict K (bin A)) :=
    if negb (khash key) then None
    else
      match dget keq m key with
      | None => Some m
      | Some b =>
          if is_single kd then
            match items b with
            | s :: _ => if aeq s value then Some (ddel keq m key) else Some m
            | [] => Some m
            end
          else if hashes_values kd && negb (ahash value) then None
          else
            (* self.remove(stored, value) changes the stored container in place (only if the value is
               there); then `if not stored: del mapping[key]` *)
            let present := memb aeq value (items b) in
            match (if present then remove_first aeq value (items b) else items b) with
            | [] => Some (ddel keq m key)
            | it => Some (if present then dupd keq m key (mkBin it []) else m)
            end
      end.

  (* remove_key: mapping.pop(key, ()) ; None = TypeError.  CPython's dict.pop returns the default
     without hashing the key when the dict is empty. *)
  Definition remove_key (kd : kind) (m : dict K (bin A)) (key : K) : option (dict K (bin A) * list A) :=
    if match m with [] => true | _ => false end then Some (m, [])
    else if negb (khash key) then None
    else match dget keq m key with
         | None => Some (m, [])
         | Some b => Some (ddel keq m key,
                           if is_single kd then match items b with s :: _ => [s] | [] => [] end   (* (stored,) *)
                           else items b)
         end.
End Bins.
Arguments AOk {K A}. Arguments ARaise {K A}.

Inductive outcome := Done | Raise (e : exn).

Section TwoWay.
  Context {L R : Type}.
  Variables (leq : L -> L -> bool) (req : R -> R -> bool) (lhash : L -> bool) (rhash : R -> bool).
  Variables (lfmt : L -> bool) (rfmt : R -> bool).
  Variables (lk rk : kind).      (* TwoWayMap(left=lk, right=rk) *)

  Record twm := mkTwm { fwd : dict L (bin R); bwd : dict R (bin L) }.

  Definition tw_empty : twm := mkTwm [] [].

  Definition items_of {K A} (keq : K -> K -> bool) (m : dict K (bin A)) (k : K) : list A :=
    match dget keq m k with Some b => items b | None => [] end.

  Definition lookup_left (t : twm) (l : L) : list R := items_of leq (fwd t) l.
  Definition lookup_right (t : twm) (r : R) : list L := items_of req (bwd t) r.

  Definition rm_fwd (m : dict L (bin R)) (l : L) (r : R) : dict L (bin R) * bool :=
    match remove_item leq req lhash rhash rk m l r with Some m' => (m', true) | None => (m, false) end.
  Definition rm_bwd (m : dict R (bin L)) (r : R) (l : L) : dict R (bin L) * bool :=
    match remove_item req leq rhash lhash lk m r l with Some m' => (m', true) | None => (m, false) end.

  (* the except-branch of insert: bring _fwd back in sync with _bwd, then re-raise.  An exception raised
     inside the handler replaces the original one, as in Python. *)
  Definition tw_rollback (t : twm) (fwd1 : dict L (bin R)) (left : L) (right_removed right_added : option R)
    (e : exn) : twm * outcome :=
    match (match right_added with
           | Some a => remove_item leq req lhash rhash rk fwd1 left a
           | None => Some fwd1 end) with
    | None => (mkTwm fwd1 (bwd t), Raise TypeErr)
    | Some fwd2 =>
        match right_removed with
        | Some a => match add_item leq req lhash rhash lfmt rk fwd2 left a with
                    | AOk m _ _ => (mkTwm m (bwd t), Raise e)
                    | ARaise e' => (mkTwm fwd2 (bwd t), Raise e')
                    end
        | None => (mkTwm fwd2 (bwd t), Raise e)
        end
    end.

  (* TwoWayMap.insert *)
  Definition tw_insert (t : twm) (left : L) (right : R) : twm * outcome :=
    match add_item leq req lhash rhash lfmt rk (fwd t) left right with
    | ARaise e => (t, Raise e)
    | AOk fwd1 right_removed right_added =>
        match add_item req leq rhash lhash rfmt lk (bwd t) right left with
        | ARaise e => tw_rollback t fwd1 left right_removed right_added e
        | AOk bwd1 left_removed _ =>
            let '(bwd2, ok1) := match right_removed with
                                | Some a => rm_bwd bwd1 a left
                                | None => (bwd1, true) end in
            if negb ok1 then (mkTwm fwd1 bwd2, Raise TypeErr) else
            let '(fwd2, ok2) := match left_removed with
                                | Some a => rm_fwd fwd1 a right
                                | None => (fwd1, true) end in
            (mkTwm fwd2 bwd2, if ok2 then Done else Raise TypeErr)
        end
    end.

  (* TwoWayMap.remove *)
  Definition tw_remove (t : twm) (left : L) (right : R) : twm * outcome :=
    let '(fwd1, ok1) := rm_fwd (fwd t) left right in
    if negb ok1 then (t, Raise TypeErr) else
    let '(bwd1, ok2) := rm_bwd (bwd t) right left in
    (mkTwm fwd1 bwd1, if ok2 then Done else Raise TypeErr).

  Fixpoint rm_each_bwd (m : dict R (bin L)) (rs : list R) (l : L) : dict R (bin L) * bool :=
    match rs with
    | [] => (m, true)
    | x :: rs' => let '(m', ok) := rm_bwd m x l in
                  if ok then rm_each_bwd m' rs' l else (m', false)
    end.
  Fixpoint rm_each_fwd (m : dict L (bin R)) (ls : list L) (r : R) : dict L (bin R) * bool :=
    match ls with
    | [] => (m, true)
    | x :: ls' => let '(m', ok) := rm_fwd m x r in
                  if ok then rm_each_fwd m' ls' r else (m', false)
    end.

  Definition tw_remove_left (t : twm) (left : L) : twm * outcome :=
    match remove_key leq lhash rk (fwd t) left with
    | None => (t, Raise TypeErr)
    | Some (fwd1, removed) =>
        let '(bwd1, ok) := rm_each_bwd (bwd t) removed left in
        (mkTwm fwd1 bwd1, if ok then Done else Raise TypeErr)
    end.

  Definition tw_remove_right (t : twm) (right : R) : twm * outcome :=
    match remove_key req rhash lk (bwd t) right with
    | None => (t, Raise TypeErr)
    | Some (bwd1, removed) =>
        let '(fwd1, ok) := rm_each_fwd (fwd t) removed right in
        (mkTwm fwd1 bwd1, if ok then Done else Raise TypeErr)
    end.

  Inductive twop :=
  | TInsert (l : L) (r : R) | TRemove (l : L) (r : R) | TRemoveLeft (l : L) | TRemoveRight (r : R) | TClear.

  Definition tw_step (t : twm) (o : twop) : twm * outcome :=
    match o with
    | TInsert l r => tw_insert t l r
    | TRemove l r => tw_remove t l r
    | TRemoveLeft l => tw_remove_left t l
    | TRemoveRight r => tw_remove_right t r
    | TClear => (tw_empty, Done)
    end.

  (* an op sequence; an op that raises leaves the state it leaves, the sequence goes on (the callers
     catch, as SimpleLookupMapping.update_record does) *)
  Fixpoint tw_run (t : twm) (ops : list twop) : twm * list outcome :=
    match ops with
    | [] => (t, [])
    | o :: ops' => let '(t1, r) := tw_step t o in
                   let '(t2, rs) := tw_run t1 ops' in (t2, r :: rs)
    end.
End TwoWay.
Arguments mkTwm {L R}. Arguments fwd {L R}. Arguments bwd {L R}. Arguments twm : clear implicits.
Arguments twop : clear implicits.
Arguments TInsert {L R}. Arguments TRemove {L R}. Arguments TRemoveLeft {L R}.
Arguments TRemoveRight {L R}. Arguments TClear {L R}.

(* ------------------------------------------------------------------------------------------- *)
(* lookup.py: the row <-> key index of one LookupMapColumn                                     *)

Definition key := list val.           (* a tuple of (extracted) values *)
Definition key_hashable (k : key) : bool := forallb hashable k.
Definition always {A} (_ : A) : bool := true.
Definition never {A} (_ : A) : bool := false.
Definition key_fmt_fails (k : key) : bool := negb (Nat.eqb (length k) 1).
Definition val_fmt_fails (v : val) : bool :=
  match v with VTuple [_] => false | VTuple _ => true | _ => false end.

(* lookup._extract *)
Definition extract (v : val) : val := match v with VRef _ i => VInt i | _ => v end.

(* one lookup column: plain, or CONTAINS(..., match_empty) (None = no_match_empty) *)
Inductive colspec := CPlain | CContains (match_empty : option val).
Definition is_contains (c : colspec) : bool := match c with CContains _ => true | _ => false end.

Definition lmap := twm Z key.
Definition lm_empty : lmap := mkTwm [] [].

(* LookupMapColumn.__init__: ContainsLookupMapping iff some column is a _Contains *)
Definition uses_contains (cols : list colspec) : bool := existsb is_contains cols.
Definition right_kind (cols : list colspec) : kind := if uses_contains cols then KSet else KSingle.

Definition lm_insert (cols : list colspec) :=
  tw_insert Z.eqb vals_eqb always key_hashable never key_fmt_fails KLookupSet (right_kind cols).
Definition lm_remove (cols : list colspec) :=
  tw_remove Z.eqb vals_eqb always key_hashable KLookupSet (right_kind cols).

(* keys stored for a row: get_mapped_keys *)
Definition mapped_keys (m : lmap) (r : Z) : list key := items_of Z.eqb (fwd m) r.
(* rows stored for a key: lookup_by_key (the LookupSet), [] when absent *)
Definition key_rows (m : lmap) (k : key) : list Z := items_of vals_eqb (bwd m) k.

Fixpoint dedup {A} (eqb : A -> A -> bool) (l : list A) : list A :=       (* set(l), first kept *)
  match l with
  | [] => []
  | x :: t => x :: filter (fun y => negb (eqb x y)) (dedup eqb t)
  end.

(* iterating a cell value: tuples and lists iterate; everything else modelled here raises TypeError
   in set(group) (None, numbers, dates, records, alt text).  Strings are handled before. *)
Definition iter_val (v : val) : option (list val) :=
  match v with
  | VTuple l => Some l
  | VList l => Some l
  | _ => None
  end.

(* ContainsLookupMapping.get_new_keys_iter: the group of one column *)
Definition contains_group (c : colspec) (cell : val) : list val :=
  let group : option (list val) :=
    match c with
    | CPlain => Some [cell]
    | CContains me =>
        match cell with
        | VStr _ => Some []                       (* strings are not iterated *)
        | _ =>
            match me with
            | Some e => if truthy cell then iter_val cell else Some [e]
            | None => iter_val cell
            end
        end
    end in
  match group with
  | None => []                                     (* set(group) raised TypeError: not iterable *)
  | Some g => if forallb hashable g then map extract (dedup val_eqb g)
              else []                              (* unhashable element: TypeError *)
  end.

(* itertools.product *)
Fixpoint product (groups : list (list val)) : list key :=
  match groups with
  | [] => [[]]
  | g :: gs => flat_map (fun v => map (fun k => v :: k) (product gs)) g
  end.

Fixpoint zip_groups (cols : list colspec) (cells : list val) : list (list val) :=
  match cols, cells with
  | c :: cols', v :: cells' => contains_group c v :: zip_groups cols' cells'
  | _, _ => []
  end.

(* get_new_keys_iter(rec): [cells] are the rec's values of the lookup columns, in column order *)
Definition new_keys_iter (cols : list colspec) (cells : list val) : list key :=
  if uses_contains cols then product (zip_groups cols cells) else [map extract cells].

(* set(get_new_keys_iter(rec)) for a CONTAINS mapping; the single key of a simple mapping *)
Definition new_keys (cols : list colspec) (cells : list val) : list key :=
  if uses_contains cols then dedup vals_eqb (new_keys_iter cols cells) else new_keys_iter cols cells.

(* the keys under which a row with these cells can be found: what the index should hold *)
Definition keys_of (cols : list colspec) (cells : list val) : list key :=
  filter key_hashable (new_keys cols cells).

Fixpoint remove_each (cols : list colspec) (m : lmap) (r : Z) (ks : list key) : lmap :=
  match ks with
  | [] => m
  | k :: ks' => remove_each cols (fst (lm_remove cols m r k)) r ks'
  end.
Fixpoint insert_each (cols : list colspec) (m : lmap) (r : Z) (ks : list key) : lmap :=
  match ks with
  | [] => m
  | k :: ks' => insert_each cols (fst (lm_insert cols m r k)) r ks'
  end.

Definition diff_keys (a b : list key) : list key := filter (fun k => negb (memb vals_eqb k b)) a.

(* update_record(rec) -> (new index, affected keys) *)
Definition update_record (cols : list colspec) (m : lmap) (r : Z) (cells : list val)
  : lmap * list key :=
  if uses_contains cols then
    let nk := new_keys cols cells in
    let ok := mapped_keys m r in
    let m1 := remove_each cols m r (diff_keys ok nk) in
    let m2 := insert_each cols m1 r (diff_keys nk ok) in
    (m2, diff_keys nk ok ++ diff_keys ok nk)
  else
    let new_key := map extract cells in
    match mapped_keys m r with
    | old :: _ =>
        if vals_eqb new_key old then (m, [])
        else
          match lm_insert cols m r new_key with
          | (m1, Done) => (m1, [old; new_key])
          | (m1, Raise _) => (fst (lm_remove cols m1 r old), [old])   (* unhashable: drop the old key *)
          end
    | [] =>
        match lm_insert cols m r new_key with
        | (m1, Done) => (m1, [new_key])
        | (m1, Raise _) => (m1, [])                                    (* remove(row, None): nothing *)
        end
    end.

(* remove_row_id(row_id) *)
Definition remove_row_id (cols : list colspec) (m : lmap) (r : Z) : lmap * list key :=
  let ok := mapped_keys m r in (remove_each cols m r ok, ok).

(* ------------------------------------------------------------------------------------------- *)
(* sorted versions                                                                             *)

Fixpoint cache_get (c : list (sortspec * list Z)) (s : sortspec) : option (list Z) :=
  match c with
  | [] => None
  | (s', l) :: t => if spec_eqb s' s then Some l else cache_get t s
  end.
Definition cache_pop (c : list (sortspec * list Z)) (s : sortspec) : list (sortspec * list Z) :=
  filter (fun e => negb (spec_eqb (fst e) s)) c.

Inductive lres := LRows (l : list Z) | LError.

(* LookupMapColumn._do_lookup_with_sort(key, sort_spec, sort_key): result and the index with the
   sorted version remembered.  [t] supplies the cell values SortKey reads now. *)
Definition do_lookup (m : lmap) (t : table) (k : key) (s : sortspec) : lmap * lres :=
  if negb (key_hashable k) then (m, LError)
  else
    match dget vals_eqb (bwd m) k with
    | None => (m, LRows [])                           (* default LookupSet(): sorted([]) *)
    | Some b =>
        match cache_get (cache b) s with
        | Some l => (m, LRows l)
        | None =>
            match sort_rows t s (items b) with
            | None => (m, LError)
            | Some l => (mkTwm (fwd m) (dset vals_eqb (bwd m) k (mkBin (items b) ((s, l) :: cache b))),
                         LRows l)
            end
        end
    end.

(* _reset_sorted_versions(rec, sort_spec) *)
Fixpoint pop_each (bw : dict key (bin Z)) (ks : list key) (s : sortspec) : dict key (bin Z) :=
  match ks with
  | [] => bw
  | k :: ks' =>
      let bw' := match dget vals_eqb bw k with
                 | Some b => dset vals_eqb bw k (mkBin (items b) (cache_pop (cache b) s))
                 | None => bw end in
      pop_each bw' ks' s
  end.

(* None: set(get_new_keys_iter(rec)) raised TypeError (unhashable key of a simple mapping) *)
Definition reset_sorted (cols : list colspec) (m : lmap) (cells : list val) (s : sortspec) : option lmap :=
  let nk := new_keys cols cells in
  if forallb key_hashable nk then Some (mkTwm (fwd m) (pop_each (bwd m) nk s)) else None.

(* ------------------------------------------------------------------------------------------- *)
(* op sequences on one index, as the engine issues them                                        *)

Inductive op :=
| OUpdate (r : Z) (cells : list val)                (* LookupMapColumn._recalc_rec_method *)
| ORemove (r : Z)                                   (* LookupMapColumn.unset *)
| OReset (cells : list val) (s : sortspec)          (* SortedLookupMapColumn._recalc_rec_method *)
| OLookup (k : key) (s : sortspec) (t : table).     (* (Sorted)LookupMapColumn.do_lookup *)

Definition op_step (cols : list colspec) (m : lmap) (o : op) : lmap * option lres :=
  match o with
  | OUpdate r cells => (fst (update_record cols m r cells), None)
  | ORemove r => (fst (remove_row_id cols m r), None)
  | OReset cells s => (match reset_sorted cols m cells s with Some m' => m' | None => m end, None)
  | OLookup k s t => let '(m', res) := do_lookup m t k s in (m', Some res)
  end.

Fixpoint run_ops (cols : list colspec) (m : lmap) (ops : list op) : lmap * list lres :=
  match ops with
  | [] => (m, [])
  | o :: ops' =>
      let '(m1, r) := op_step cols m o in
      let '(m2, rs) := run_ops cols m1 ops' in
      (m2, match r with Some x => x :: rs | None => rs end)
  end.

(* ------------------------------------------------------------------------------------------- *)
(* table.make_sort_spec (hand model; compared with the real function on every run)             *)

Inductive sarg := SNone | SStr (s : str) | STuple (l : list str) | SOther (truth : bool).

Definition s_id : str := [105; 100].
Definition s_manualSort : str := [109; 97; 110; 117; 97; 108; 83; 111; 114; 116].

Definition sarg_truthy (a : sarg) : bool :=
  match a with
  | SNone => false
  | SStr s => match s with [] => false | _ => true end
  | STuple l => match l with [] => false | _ => true end
  | SOther b => b
  end.

Fixpoint take_until (x : str) (l : list str) : list str :=     (* l[:l.index(x)] *)
  match l with
  | [] => []
  | y :: t => if str_eqb y x then [] else y :: take_until x t
  end.

(* None = TypeError *)
Definition make_sort_spec (order_by sort_by : sarg) (has_manual_sort : bool) : option sortspec :=
  if sarg_truthy sort_by then
    match sort_by with
    | SStr s => Some [s]
    | _ => None
    end
  else
    let ob : option (list str) :=
      match order_by with
      | STuple l => Some l
      | SStr s => Some [s]
      | SNone => Some []
      | SOther _ => None
      end in
    match ob with
    | None => None
    | Some l =>
        if memb str_eqb s_id l then Some (take_until s_id l)
        else if has_manual_sort && negb (memb str_eqb s_manualSort l) then Some (l ++ [s_manualSort])
        else Some l
    end.

(* ------------------------------------------------------------------------------------------- *)
(* Table.lookup_records / lookup_one_record on an index that is up to date                     *)

Definition lookup_records (m : lmap) (t : table) (k : key) (order_by sort_by : sarg)
  (has_manual_sort : bool) : lmap * lres :=
  match make_sort_spec order_by sort_by has_manual_sort with
  | None => (m, LError)
  | Some s => do_lookup m t k s
  end.

(* RecordSet.get_one: first row id, or 0 = the empty record *)
Definition get_one (l : list Z) : Z := match l with r :: _ => r | [] => 0 end.

Definition lookup_one (m : lmap) (t : table) (k : key) (order_by sort_by : sarg)
  (has_manual_sort : bool) : lmap * option Z :=
  match lookup_records m t k order_by sort_by has_manual_sort with
  | (m', LRows l) => (m', Some (get_one l))
  | (m', LError) => (m', None)
  end.

(* ------------------------------------------------------------------------------------------- *)
(* The specification side: naive filter + sort over the table                                  *)

Definition row_cells (d : row) (colids : list str) : option (list val) :=
  fold_right (fun c acc => match row_get d c, acc with
                           | Some v, Some vs => Some (v :: vs) | _, _ => None end) (Some []) colids.

(* does the row match the key: key in keys_of(row) *)
Definition row_matches (cols : list colspec) (colids : list str) (k : key) (d : row) : bool :=
  match row_cells d colids with
  | Some cells => memb vals_eqb k (keys_of cols cells)
  | None => false
  end.

(* row ids of the table in ascending order are not needed: any listing of the matching rows sorts to
   the same list under a strict total order *)
Definition matching_rows (cols : list colspec) (colids : list str) (k : key) (t : table) : list Z :=
  map fst (filter (fun rd => row_matches cols colids k (snd rd)) t).

Definition spec_lookup (cols : list colspec) (colids : list str) (t : table) (k : key) (s : sortspec)
  : option (list Z) :=
  sort_rows t s (matching_rows cols colids k t).

(* ------------------------------------------------------------------------------------------- *)
(* Histories: table writes interleaved with the index maintenance the engine performs          *)

Inductive step :=
| SWrite (r : Z) (d : row)               (* add a row or change its cells *)
| SDelete (r : Z)                        (* remove a row from the table *)
| SUpdate (r : Z)                        (* update_record(rec of r) *)
| SUnset (r : Z)                         (* remove_row_id(r) *)
| SReset (r : Z) (s : sortspec)          (* _reset_sorted_versions(rec of r, s) *)
| SLookup (k : key) (s : sortspec).      (* _do_lookup_with_sort(k, s) *)

Record world := mkWorld { w_tbl : table; w_idx : lmap }.

Definition tbl_del (t : table) (r : Z) : table := filter (fun rd => negb (Z.eqb (fst rd) r)) t.
Definition tbl_set (t : table) (r : Z) (d : row) : table := tbl_del t r ++ [(r, d)].

Definition step_world (cols : list colspec) (colids : list str) (w : world) (s : step)
  : world * option lres :=
  match s with
  | SWrite r d => (mkWorld (tbl_set (w_tbl w) r d) (w_idx w), None)
  | SDelete r => (mkWorld (tbl_del (w_tbl w) r) (w_idx w), None)
  | SUpdate r =>
      match tbl_get (w_tbl w) r with
      | Some d => match row_cells d colids with
                  | Some cells => (mkWorld (w_tbl w) (fst (update_record cols (w_idx w) r cells)), None)
                  | None => (w, None)
                  end
      | None => (w, None)
      end
  | SUnset r => (mkWorld (w_tbl w) (fst (remove_row_id cols (w_idx w) r)), None)
  | SReset r s =>
      match tbl_get (w_tbl w) r with
      | Some d => match row_cells d colids with
                  | Some cells =>
                      (mkWorld (w_tbl w) (match reset_sorted cols (w_idx w) cells s with
                                          | Some m => m | None => w_idx w end), None)
                  | None => (w, None)
                  end
      | None => (w, None)
      end
  | SLookup k s => let '(m, res) := do_lookup (w_idx w) (w_tbl w) k s in
                   (mkWorld (w_tbl w) m, Some res)
  end.

Fixpoint run_world (cols : list colspec) (colids : list str) (w : world) (tr : list step) : world :=
  match tr with
  | [] => w
  | s :: tr' => run_world cols colids (fst (step_world cols colids w s)) tr'
  end.

Definition world0 : world := mkWorld [] lm_empty.
