(* Model of predicate_formula.py (C40, and the base of C17): the tree converter TreeConverter over a
   position-annotated Python AST, the returned parse tree, its serialisation as nested Python lists,
   and an evaluation semantics for both sides.

   CPython's parser and tokenizer are oracles: the harness (harness/props/c40.py) maps the real `ast`
   tree of a formula to the type [expr] below (every ast class that has no visit_* method on
   TreeConverter becomes [EUnsupported]) and the COMMENT tokens to a list of strings; the set of visit_*
   methods is compared with the constructors of [expr] on every run.

   Models only: no proofs here (Proofs/Predicate_proofs.v). *)
From Coq Require Import ZArith List Bool String Ascii.
Import ListNotations.
Open Scope Z_scope.

(* ------------------------------------------------------------------------------------------- *)
(* Strings are lists of code points. *)
Definition str := list Z.

Fixpoint str_eqb (a b : str) : bool :=
  match a, b with
  | [], [] => true
  | x :: a', y :: b' => Z.eqb x y && str_eqb a' b'
  | _, _ => false
  end.

Definition lit (s : string) : str := map (fun a => Z.of_N (N_of_ascii a)) (list_ascii_of_string s).

(* ------------------------------------------------------------------------------------------- *)
(* The Python AST, as far as TreeConverter can see it. *)

(* node.lineno, node.col_offset *)
Definition pos := (Z * Z)%type.

(* ast.Constant.value as the parser can produce it.  Floats are their IEEE-754 binary64 bit pattern;
   complex literals are purely imaginary, kept as the bit pattern of the imaginary part. *)
Inductive const :=
| CNone | CBool (b : bool) | CInt (z : Z) | CFloat (bits : Z) | CStr (s : str)
| CBytes (s : str) | CComplex (im_bits : Z) | CEllipsis.

Inductive boolop := BAnd | BOr.
Inductive arith := AAdd | ASub | AMult | ADiv | AMod.
(* ast.operator: the five handled ones, anything else by class name *)
Inductive binop := BArith (a : arith) | BOther (cls : str).
Inductive unop := UNot | UOther (cls : str).
(* ast.cmpop is exactly these ten classes *)
Inductive cmpop := OpEq | OpNotEq | OpLt | OpLtE | OpGt | OpGtE | OpIs | OpIsNot | OpIn | OpNotIn.

Inductive expr :=
| EBoolOp (p : pos) (op : boolop) (vs : list expr)
| EBinOp (p : pos) (op : binop) (l r : expr)
| EUnaryOp (p : pos) (op : unop) (x : expr)
| ECompare (p : pos) (l : expr) (ops : list cmpop) (cs : list expr)
| EName (p : pos) (id : str)
| EConstant (p : pos) (c : const)
| EAttribute (p : pos) (v : expr) (attr : str) (apos : Z)   (* apos: node.last_token.startpos *)
| EList (p : pos) (es : list expr)
| ETuple (p : pos) (es : list expr)
| ECall (p : pos) (f : expr) (args : list expr) (kws : list (option str * expr))
| EUnsupported (p : pos) (cls : str).     (* any ast class without a visit_* method *)

(* ------------------------------------------------------------------------------------------- *)
(* The parse tree ("[NODE_TYPE, arguments...]"). *)
Inductive tree :=
| TBoolOp (op : boolop) (vs : list tree)          (* And|Or ...values *)
| TBin (op : arith) (l r : tree)                  (* Add|Sub|Mult|Div|Mod left, right *)
| TNot (x : tree)                                 (* Not operand *)
| TCmp (op : cmpop) (l r : tree)                  (* Eq|...|NotIn left, right *)
| TListN (es : list tree)                         (* List ...elements *)
| TConst (c : const)                              (* Const value *)
| TName (id : str)                                (* Name name *)
| TAttr (v : tree) (attr : str)                   (* Attr node, attr_name *)
| TCall (f : tree) (args : list tree) (kws : list (option str * tree))
                                                  (* Call func, ...args[, [keywords, [name, value]...]] *)
| TComment (t : tree) (text : str).               (* Comment node, comment *)

(* What the function really returns: nested Python lists with constants at the leaves. *)
Inductive pyval :=
| PLeaf (c : const)
| PList (l : list pyval).

Definition pstr (s : string) : pyval := PLeaf (CStr (lit s)).

Definition boolop_name (op : boolop) : string :=
  match op with BAnd => "And" | BOr => "Or" end.
Definition arith_name (op : arith) : string :=
  match op with AAdd => "Add" | ASub => "Sub" | AMult => "Mult" | ADiv => "Div" | AMod => "Mod" end.
Definition cmpop_name (op : cmpop) : string :=
  match op with
  | OpEq => "Eq" | OpNotEq => "NotEq" | OpLt => "Lt" | OpLtE => "LtE" | OpGt => "Gt" | OpGtE => "GtE"
  | OpIs => "Is" | OpIsNot => "IsNot" | OpIn => "In" | OpNotIn => "NotIn"
  end.

Fixpoint to_py (t : tree) : pyval :=
  match t with
  | TBoolOp op vs => PList (pstr (boolop_name op) :: map to_py vs)
  | TBin op l r => PList [pstr (arith_name op); to_py l; to_py r]
  | TNot x => PList [pstr "Not"; to_py x]
  | TCmp op l r => PList [pstr (cmpop_name op); to_py l; to_py r]
  | TListN es => PList (pstr "List" :: map to_py es)
  | TConst c => PList [pstr "Const"; PLeaf c]
  | TName id => PList [pstr "Name"; PLeaf (CStr id)]
  | TAttr v a => PList [pstr "Attr"; to_py v; PLeaf (CStr a)]
  | TCall f args kws =>
      PList (pstr "Call" :: to_py f :: map to_py args ++
             match kws with
             | [] => []
             | _ => [PList (pstr "keywords" ::
                            map (fun kw => match kw with
                                           | (k, v) => PList [match k with Some n => PLeaf (CStr n) | None => PLeaf CNone end;
                                                              to_py v]
                                           end) kws)]
             end)
  | TComment x c => PList [pstr "Comment"; to_py x; PLeaf (CStr c)]
  end.

(* ------------------------------------------------------------------------------------------- *)
(* Results of the converter. *)
Inductive cerr :=
| ErrUnsupported (p : pos)     (* SyntaxError("Unsupported syntax at %s:%s" % (lineno, col_offset + 1)) *)
| ErrChained                   (* SyntaxError("Can't use chained comparisons") *)
| ErrParser.                   (* SyntaxError raised by CPython's parser (oracle) *)

Inductive cres (A : Type) :=
| Ok (a : A)
| Err (e : cerr).
Arguments Ok {A} a.
Arguments Err {A} e.

Definition bindc {A B} (x : cres A) (f : A -> cres B) : cres B :=
  match x with Ok a => f a | Err e => Err e end.

(* [f(x) for x in l]: left to right, the first exception wins *)
Definition mapMc {A B} (f : A -> cres B) : list A -> cres (list B) :=
  fix go (l : list A) : cres (list B) :=
    match l with
    | [] => Ok []
    | x :: t => bindc (f x) (fun y => bindc (go t) (fun ys => Ok (y :: ys)))
    end.

Definition is_ok {A} (x : cres A) : bool := match x with Ok _ => true | Err _ => false end.

(* named_constants = {'True': True, 'False': False, 'None': None} *)
Definition named_constant (id : str) : option const :=
  if str_eqb id (lit "True") then Some (CBool true)
  else if str_eqb id (lit "False") then Some (CBool false)
  else if str_eqb id (lit "None") then Some CNone
  else None.

(* names whose Python meaning is not a variable lookup: the three above (the parser yields Constant nodes for
   them, never Name nodes) and the compile-time constant __debug__ *)
Definition reserved_name (id : str) : bool :=
  match named_constant id with Some _ => true | None => str_eqb id (lit "__debug__") end.

(* IEEE binary64: exponent field all ones = infinity or NaN *)
Definition float_finite (bits : Z) : bool :=
  negb (Z.eqb (Z.land (Z.shiftr bits 52) 2047) 2047).

(* the constants the docstring allows (number, string, bool; None is used by the tests) and JSON can hold *)
Definition const_plain (c : const) : bool :=
  match c with
  | CNone | CBool _ | CInt _ | CStr _ => true
  | CFloat b => float_finite b
  | CBytes _ | CComplex _ | CEllipsis => false
  end.

Definition kw_named {A} (kw : option str * A) : bool :=
  match fst kw with Some _ => true | None => false end.

(* TreeConverter().visit(node).  visit_Constant hands constants that are not None/bool/int/finite float/str, and
   visit_Call hands calls with a `**kwargs` argument, to generic_visit (fix commits baa04cb, 23a92f9). *)
Fixpoint convert (e : expr) : cres tree :=
  match e with
  | EBoolOp _ op vs =>
      bindc (mapMc (convert) vs) (fun ts => Ok (TBoolOp op ts))
  | EBinOp p op l r =>
      match op with
      | BOther _ => Err (ErrUnsupported p)
      | BArith a =>
          bindc (convert l) (fun tl => bindc (convert r) (fun tr => Ok (TBin a tl tr)))
      end
  | EUnaryOp p op x =>
      match op with
      | UOther _ => Err (ErrUnsupported p)
      | UNot => bindc (convert x) (fun t => Ok (TNot t))
      end
  | ECompare _ l ops cs =>
      match ops, cs with
      | [op], [c] =>
          bindc (convert l) (fun tl => bindc (convert c) (fun tc => Ok (TCmp op tl tc)))
      | _, _ => Err ErrChained
      end
  | EName _ id =>
      match named_constant id with
      | Some c => Ok (TConst c)
      | None => Ok (TName id)
      end
  | EConstant p c =>
      if negb (const_plain c) then Err (ErrUnsupported p) else Ok (TConst c)
  | EAttribute _ v a _ =>
      bindc (convert v) (fun tv => Ok (TAttr tv a))
  | EList _ es | ETuple _ es =>
      bindc (mapMc (convert) es) (fun ts => Ok (TListN ts))
  | ECall p f args kws =>
      if negb (forallb kw_named kws) then Err (ErrUnsupported p) else
      (* args first, then keywords, then the function: the order of the visits in visit_Call *)
      bindc (mapMc (convert) args) (fun targs =>
      bindc (mapMc (fun kw => match kw with
                              | (k, v) => bindc (convert v) (fun tv => Ok (k, tv))
                              end) kws) (fun tkws =>
      bindc (convert f) (fun tf => Ok (TCall tf targs tkws))))
  | EUnsupported p _ => Err (ErrUnsupported p)
  end.

(* ------------------------------------------------------------------------------------------- *)
(* Comments.  str.strip(): the characters str.isspace() accepts. *)
Definition py_isspace (c : Z) : bool :=
  ((9 <=? c) && (c <=? 13)) || ((28 <=? c) && (c <=? 32)) || (c =? 133) || (c =? 160) || (c =? 5760)
  || ((8192 <=? c) && (c <=? 8202)) || (c =? 8232) || (c =? 8233) || (c =? 8239) || (c =? 8287)
  || (c =? 12288).

Fixpoint lstrip (s : str) : str :=
  match s with
  | c :: t => if py_isspace c then lstrip t else s
  | [] => []
  end.
Definition py_strip (s : str) : str := rev (lstrip (rev (lstrip s))).

Definition starts_with_hash (s : str) : bool :=
  match s with c :: _ => c =? 35 | [] => false end.

(* for part in tokens: if part is a COMMENT and part.startswith('#'): wrap; break *)
Definition first_comment (comments : list str) : option str := find starts_with_hash comments.

(* parse_predicate_formula, given the parser's and the tokenizer's answers for the ($-replaced) text:
   [ast = None] when ast.parse raised SyntaxError, [comments] = the COMMENT tokens in order. *)
Definition parse_predicate (ast : option expr) (comments : list str) : cres tree :=
  match ast with
  | None => Err ErrParser
  | Some e =>
      bindc (convert e) (fun t =>
        match first_comment comments with
        | Some c => Ok (TComment t (py_strip (tl c)))
        | None => Ok t
        end)
  end.

(* ------------------------------------------------------------------------------------------- *)
(* JSON. *)
Fixpoint json_value (v : pyval) : bool :=
  match v with
  | PLeaf c => const_plain c
  | PList l => forallb json_value l
  end.

(* what json.dumps does with the tree *)
Inductive dumps_class := DumpsJSON | DumpsTypeError | DumpsNotJSON.

Definition const_dumpable (c : const) : bool :=
  match c with CBytes _ | CComplex _ | CEllipsis => false | _ => true end.

Fixpoint all_dumpable (v : pyval) : bool :=
  match v with
  | PLeaf c => const_dumpable c
  | PList l => forallb all_dumpable l
  end.

Definition dumps_outcome (v : pyval) : dumps_class :=
  if negb (all_dumpable v) then DumpsTypeError       (* bytes, complex, Ellipsis: TypeError *)
  else if json_value v then DumpsJSON
  else DumpsNotJSON.                                 (* text contains Infinity *)

(* parse_predicate_formula_json: json.dumps(parse_predicate_formula(formula)) if formula else "" *)
Inductive json_result :=
| JEmpty
| JSyntaxError (e : cerr)
| JDumps (c : dumps_class) (v : pyval).

Definition parse_predicate_json (formula_truthy : bool) (ast : option expr) (comments : list str)
  : json_result :=
  if negb formula_truthy then JEmpty else
  match parse_predicate ast comments with
  | Err e => JSyntaxError e
  | Ok t => JDumps (dumps_outcome (to_py t)) (to_py t)
  end.

(* ------------------------------------------------------------------------------------------- *)
(* The supported subset, syntactically. *)

(* every node has a visit method and passes that method's own checks *)
Fixpoint shape_ok (e : expr) : bool :=
  match e with
  | EBoolOp _ _ vs => forallb shape_ok vs
  | EBinOp _ (BArith _) l r => shape_ok l && shape_ok r
  | EBinOp _ (BOther _) _ _ => false
  | EUnaryOp _ UNot x => shape_ok x
  | EUnaryOp _ (UOther _) _ => false
  | ECompare _ l [_] [c] => shape_ok l && shape_ok c
  | ECompare _ _ _ _ => false
  | EName _ _ => true
  | EConstant _ _ => true
  | EAttribute _ v _ _ => shape_ok v
  | EList _ es | ETuple _ es => forallb shape_ok es
  | ECall _ f args kws =>
      shape_ok f && forallb shape_ok args && forallb (fun kw => match kw with (_, v) => shape_ok v end) kws
  | EUnsupported _ _ => false
  end.

(* constants are plain and every keyword argument has a name *)
Fixpoint plain_ok (e : expr) : bool :=
  match e with
  | EBoolOp _ _ vs => forallb plain_ok vs
  | EBinOp _ _ l r => plain_ok l && plain_ok r
  | EUnaryOp _ _ x => plain_ok x
  | ECompare _ l _ cs => plain_ok l && forallb plain_ok cs
  | EName _ _ => true
  | EConstant _ c => const_plain c
  | EAttribute _ v _ _ => plain_ok v
  | EList _ es | ETuple _ es => forallb plain_ok es
  | ECall _ f args kws =>
      plain_ok f && forallb plain_ok args &&
      forallb (fun kw => match kw with (k, v) => (match k with Some _ => true | None => false end) && plain_ok v end) kws
  | EUnsupported _ _ => true
  end.

(* "boolean, arithmetic and comparison operators, membership, attributes, constants, lists, calls" *)
Definition supported (e : expr) : bool := shape_ok e && plain_ok e.

(* CPython's compiler rejects a call that repeats a keyword name ("keyword argument repeated"), although
   ast.parse accepts it: such a call has no Python meaning *)
Fixpoint str_mem (x : str) (l : list str) : bool :=
  match l with [] => false | y :: t => str_eqb x y || str_mem x t end.
Fixpoint str_nodup (l : list str) : bool :=
  match l with [] => true | x :: t => negb (str_mem x t) && str_nodup t end.
Definition kw_names {A} (kws : list (option str * A)) : list str :=
  flat_map (fun kw => match fst kw with Some n => [n] | None => [] end) kws.

Definition is_membership (op : cmpop) : bool :=
  match op with OpIn | OpNotIn => true | _ => false end.

(* The subset on which the tree means what Python means: supported, And/Or have >= 2 operands, no name is
   spelled True/False/None (the parser never yields such a Name node) or __debug__, and a tuple display occurs only as
   the right operand of in / not in (the converter turns tuples into List nodes), no call repeats a keyword. *)
Fixpoint in_subset (e : expr) : bool :=
  match e with
  | EBoolOp _ _ vs => (2 <=? Z.of_nat (List.length vs)) && forallb in_subset vs
  | EBinOp _ (BArith _) l r => in_subset l && in_subset r
  | EBinOp _ (BOther _) _ _ => false
  | EUnaryOp _ UNot x => in_subset x
  | EUnaryOp _ (UOther _) _ => false
  | ECompare _ l [op] [c] =>
      in_subset l &&
      match c with
      | ETuple _ es => is_membership op && forallb in_subset es
      | _ => in_subset c
      end
  | ECompare _ _ _ _ => false
  | EName _ id => negb (reserved_name id)
  | EConstant _ c => const_plain c
  | EAttribute _ v _ _ => in_subset v
  | EList _ es => forallb in_subset es
  | ETuple _ _ => false
  | ECall _ f args kws =>
      in_subset f && forallb in_subset args && str_nodup (kw_names kws) &&
      forallb (fun kw => match kw with (k, v) => (match k with Some _ => true | None => false end) && in_subset v end) kws
  | EUnsupported _ _ => false
  end.

(* ------------------------------------------------------------------------------------------- *)
(* Sub-expressions (specification vocabulary). *)
Inductive child : expr -> expr -> Prop :=
| ch_bool p op vs x : List.In x vs -> child x (EBoolOp p op vs)
| ch_binl p op l r : child l (EBinOp p op l r)
| ch_binr p op l r : child r (EBinOp p op l r)
| ch_un p op x : child x (EUnaryOp p op x)
| ch_cmpl p l ops cs : child l (ECompare p l ops cs)
| ch_cmpc p l ops cs x : List.In x cs -> child x (ECompare p l ops cs)
| ch_attr p v a ap : child v (EAttribute p v a ap)
| ch_list p es x : List.In x es -> child x (EList p es)
| ch_tuple p es x : List.In x es -> child x (ETuple p es)
| ch_callf p f args kws : child f (ECall p f args kws)
| ch_callarg p f args kws x : List.In x args -> child x (ECall p f args kws)
| ch_callkw p f args kws k x : List.In (k, x) kws -> child x (ECall p f args kws).

Inductive subexpr (x : expr) : expr -> Prop :=
| sub_refl : subexpr x x
| sub_step y e : subexpr x y -> child y e -> subexpr x e.

(* a node the converter has no method for, an operator it does not handle, a chained comparison *)
Definition bad_node (x : expr) : Prop :=
  (exists p c, x = EUnsupported p c) \/
  (exists p c l r, x = EBinOp p (BOther c) l r) \/
  (exists p c y, x = EUnaryOp p (UOther c) y) \/
  (exists p l ops cs, x = ECompare p l ops cs /\ (List.length ops <> 1%nat \/ List.length cs <> 1%nat)).

(* a constant that is not a number, string, bool or None; a call with a **kwargs argument *)
Definition odd_node (x : expr) : Prop :=
  (exists p c, x = EConstant p c /\ const_plain c = false) \/
  (exists p f args kws, x = ECall p f args kws /\ forallb kw_named kws = false).

(* ------------------------------------------------------------------------------------------- *)
(* Evaluation.  The operations on Python values are a parameter ([PySem]): both sides are given meaning
   with the same primitive operations, so the theorem is about structure: which operator, which operands,
   in which order, what is short-circuited, what a name / constant / attribute / call denotes. *)

Inductive out (X A : Type) :=
| Val (a : A)        (* a value *)
| Raise (x : X)      (* a Python exception *)
| Undef.             (* no meaning given: outside the modelled Python subset / not a documented tree *)
Arguments Val {X A} a.
Arguments Raise {X A} x.
Arguments Undef {X A}.

Definition bindo {X A B} (x : out X A) (f : A -> out X B) : out X B :=
  match x with Val a => f a | Raise e => Raise e | Undef => Undef end.

Definition mapMo {X A B} (f : A -> out X B) : list A -> out X (list B) :=
  fix go (l : list A) : out X (list B) :=
    match l with
    | [] => Val []
    | x :: t => bindo (f x) (fun y => bindo (go t) (fun ys => Val (y :: ys)))
    end.

Record PySem := {
  value : Type;
  exc : Type;
  sem_const : const -> out exc value;                       (* the value of a literal *)
  sem_truthy : value -> out exc bool;                       (* bool(v) *)
  sem_not : value -> out exc value;                         (* not v *)
  sem_bin : arith -> value -> value -> out exc value;       (* l + r, l - r, l * r, l / r, l % r *)
  sem_cmp : cmpop -> value -> value -> out exc value;       (* l == r ... l not in r *)
  sem_getattr : value -> str -> out exc value;              (* v.attr *)
  sem_list : list value -> value;                           (* [v, ...] *)
  sem_tuple : list value -> value;                          (* (v, ...) *)
  sem_call : value -> list value -> list (str * value) -> out exc value    (* call with positional and named arguments *)
}.

Section Eval.
  Context (M : PySem).
  Notation V := (value M).
  Notation R := (out (exc M) V).
  (* the environment: what a global name evaluates to (NameError = Raise) *)
  Definition env := str -> R.

  (* `a and b and c` / `a or b or c`: the first operand that decides is the result, later ones are not
     evaluated; the last operand is returned as it is *)
  Definition boolop_sem {A} (op : boolop) (ev : A -> R) : list A -> R :=
    fix go (l : list A) : R :=
      match l with
      | [] => Undef
      | [x] => ev x
      | x :: t =>
          bindo (ev x) (fun v =>
          bindo (sem_truthy M v) (fun b =>
            if (match op with BAnd => b | BOr => negb b end) then go t else Val v))
      end.

  Definition kwarg_sem {A} (ev : A -> R) (kw : option str * A) : out (exc M) (str * V) :=
    match kw with
    | (Some n, a) => bindo (ev a) (fun v => Val (n, v))
    | (None, _) => Undef
    end.

  (* Python's meaning of the expression (CPython evaluation order: operands left to right; for a call the
     function, then positional, then keyword arguments). *)
  Fixpoint eval_py (g : env) (e : expr) : R :=
    match e with
    | EBoolOp _ op vs => boolop_sem op (eval_py g) vs
    | EBinOp _ (BArith a) l r =>
        bindo (eval_py g l) (fun vl => bindo (eval_py g r) (fun vr => sem_bin M a vl vr))
    | EBinOp _ (BOther _) _ _ => Undef
    | EUnaryOp _ UNot x => bindo (eval_py g x) (sem_not M)
    | EUnaryOp _ (UOther _) _ => Undef
    | ECompare _ l [op] [c] =>
        bindo (eval_py g l) (fun vl => bindo (eval_py g c) (fun vc => sem_cmp M op vl vc))
    | ECompare _ _ _ _ => Undef
    | EName _ id => if reserved_name id then Undef else g id
    | EConstant _ c => sem_const M c
    | EAttribute _ v a _ => bindo (eval_py g v) (fun x => sem_getattr M x a)
    | EList _ es => bindo (mapMo (eval_py g) es) (fun vs => Val (sem_list M vs))
    | ETuple _ es => bindo (mapMo (eval_py g) es) (fun vs => Val (sem_tuple M vs))
    | ECall _ f args kws =>
        if negb (str_nodup (kw_names kws)) then Undef else
        bindo (eval_py g f) (fun vf =>
        bindo (mapMo (eval_py g) args) (fun vargs =>
        bindo (mapMo (kwarg_sem (eval_py g)) kws) (fun vkws => sem_call M vf vargs vkws)))
    | EUnsupported _ _ => Undef
    end.

  (* The documented meaning of a parse tree: each node type is the Python operator of that name applied
     to its evaluated arguments; And/Or short-circuit over ...values; List builds a list; Const is its
     value (number, string, bool, None); Name is looked up; Attr is attribute access; Call applies the
     function to the arguments and the named [keywords]; Comment is the value of its node. *)
  Fixpoint eval_tree (g : env) (t : tree) : R :=
    match t with
    | TBoolOp op vs => boolop_sem op (eval_tree g) vs
    | TBin a l r => bindo (eval_tree g l) (fun vl => bindo (eval_tree g r) (fun vr => sem_bin M a vl vr))
    | TNot x => bindo (eval_tree g x) (sem_not M)
    | TCmp op l r => bindo (eval_tree g l) (fun vl => bindo (eval_tree g r) (fun vr => sem_cmp M op vl vr))
    | TListN es => bindo (mapMo (eval_tree g) es) (fun vs => Val (sem_list M vs))
    | TConst c => if const_plain c then sem_const M c else Undef
    | TName id => g id
    | TAttr v a => bindo (eval_tree g v) (fun x => sem_getattr M x a)
    | TCall f args kws =>
        bindo (eval_tree g f) (fun vf =>
        bindo (mapMo (eval_tree g) args) (fun vargs =>
        bindo (mapMo (kwarg_sem (eval_tree g)) kws) (fun vkws => sem_call M vf vargs vkws)))
    | TComment x _ => eval_tree g x
    end.

  (* membership does not look at whether the container is a tuple or a list *)
  Definition membership_ignores_tuple : Prop :=
    forall op v vs, is_membership op = true ->
      sem_cmp M op v (sem_tuple M vs) = sem_cmp M op v (sem_list M vs).
End Eval.

(* ------------------------------------------------------------------------------------------- *)
(* A concrete instance of [PySem]: None, bool, int, str, list, tuple, objects with attributes and opaque
   callables, with CPython's rules for them (bool is an int; == never raises; ordering of unlike types,
   arithmetic on None, attribute of a non-object raise).  What is not modelled is [Undef], never a
   made-up value.  Used for the non-vacuity examples and compared with CPython's eval by the check. *)
Inductive cval :=
| VNone | VBool (b : bool) | VInt (z : Z) | VStr (s : str)
| VList (l : list cval) | VTuple (l : list cval)
| VObj (attrs : list (str * cval))
| VFunc (name : str).

Inductive cexc := TypeError | ZeroDivisionError | AttributeError | NameError.

Definition cout := out cexc cval.

Definition as_int (v : cval) : option Z :=
  match v with VBool b => Some (if b then 1 else 0) | VInt z => Some z | _ => None end.

(* l == m for lists, given == on the elements: same length and no unequal pair *)
Definition list_eq_with (f : cval -> cval -> option bool) : list cval -> list cval -> option bool :=
  fix go (l m : list cval) {struct l} : option bool :=
    match l, m with
    | [], [] => Some true
    | x :: l', y :: m' =>
        match f x y with
        | Some true => go l' m'
        | Some false => Some false
        | None => None
        end
    | _, _ => Some false
    end.

Fixpoint cval_eq (a b : cval) {struct a} : option bool :=   (* a == b; None: not modelled *)
  match a, b with
  | VNone, VNone => Some true
  | VStr s, VStr t => Some (str_eqb s t)
  | VList l, VList m => list_eq_with cval_eq l m
  | VTuple l, VTuple m => list_eq_with cval_eq l m
  | VObj _, _ | _, VObj _ | VFunc _, _ | _, VFunc _ => None
  | _, _ =>
      match as_int a, as_int b with
      | Some x, Some y => Some (x =? y)
      | _, _ => Some false
      end
  end.

Fixpoint str_prefix (p s : str) : bool :=
  match p, s with
  | [], _ => true
  | x :: p', y :: s' => (x =? y) && str_prefix p' s'
  | _ :: _, [] => false
  end.
Fixpoint str_contains (p s : str) : bool :=
  str_prefix p s || match s with [] => false | _ :: s' => str_contains p s' end.

Fixpoint str_ltb (a b : str) : bool :=
  match a, b with
  | _, [] => false
  | [], _ :: _ => true
  | x :: a', y :: b' => (x <? y) || ((x =? y) && str_ltb a' b')
  end.

Definition c_truthy (v : cval) : out cexc bool :=
  match v with
  | VNone => Val false
  | VBool b => Val b
  | VInt z => Val (negb (z =? 0))
  | VStr s => Val (match s with [] => false | _ => true end)
  | VList l | VTuple l => Val (match l with [] => false | _ => true end)
  | VObj _ | VFunc _ => Val true
  end.

Fixpoint repeat_list {A} (n : nat) (l : list A) : list A :=
  match n with O => [] | S k => l ++ repeat_list k l end.

(* sequence * n; long results are not modelled (unary length) *)
Definition c_repeat {A} (mk : list A -> cval) (n : Z) (s : list A) : cout :=
  if (1000 <? n) || (4000 <? n * Z.of_nat (List.length s)) then Undef else Val (mk (repeat_list (Z.to_nat n) s)).

Definition c_bin (op : arith) (a b : cval) : cout :=
  match as_int a, as_int b with
  | Some x, Some y =>
      match op with
      | AAdd => Val (VInt (x + y))
      | ASub => Val (VInt (x - y))
      | AMult => Val (VInt (x * y))
      | AMod => if y =? 0 then Raise ZeroDivisionError else Val (VInt (x mod y))
      | ADiv => if y =? 0 then Raise ZeroDivisionError else Undef     (* a float: not modelled *)
      end
  | _, _ =>
      match op, a, b with
      | AAdd, VStr s, VStr t => Val (VStr (s ++ t))
      | AAdd, VList s, VList t => Val (VList (s ++ t))
      | AAdd, VTuple s, VTuple t => Val (VTuple (s ++ t))
      | AMult, VStr s, _ =>
          match as_int b with Some n => c_repeat VStr n s | None => Raise TypeError end
      | AMult, VList s, _ =>
          match as_int b with Some n => c_repeat VList n s | None => Raise TypeError end
      | AMult, _, VStr s =>
          match as_int a with Some n => c_repeat VStr n s | None => Raise TypeError end
      | AMult, _, VList s =>
          match as_int a with Some n => c_repeat VList n s | None => Raise TypeError end
      | AMod, VStr _, _ => Undef                                       (* %-formatting: not modelled *)
      | _, VObj _, _ | _, _, VObj _ | _, VFunc _, _ | _, _, VFunc _ => Undef
      | AMult, VTuple _, _ | AMult, _, VTuple _ => Undef
      | _, _, _ => Raise TypeError
      end
  end.

Definition c_contains (v c : cval) : out cexc bool :=     (* v in c *)
  let fix mem (l : list cval) : out cexc bool :=
    match l with
    | [] => Val false
    | x :: t => match cval_eq v x with
                | Some true => Val true
                | Some false => mem t
                | None => Undef
                end
    end in
  match c with
  | VList l | VTuple l => mem l
  | VStr s => match v with VStr p => Val (str_contains p s) | _ => Raise TypeError end
  | VObj _ | VFunc _ => Undef
  | _ => Raise TypeError
  end.

Definition c_is (a b : cval) : option bool :=             (* identity, only where the language fixes it *)
  match a, b with
  | VNone, VNone => Some true
  | VBool x, VBool y => Some (Bool.eqb x y)
  | VNone, _ | VBool _, _ | _, VNone | _, VBool _ => Some false     (* None/True/False are singletons *)
  | _, _ => None
  end.

Definition c_cmp (op : cmpop) (a b : cval) : cout :=
  let ofb (o : option bool) : cout := match o with Some x => Val (VBool x) | None => Undef end in
  let order (f : Z -> Z -> bool) (g : str -> str -> bool) : cout :=
    match as_int a, as_int b with
    | Some x, Some y => Val (VBool (f x y))
    | _, _ => match a, b with
              | VStr s, VStr t => Val (VBool (g s t))
              | VList _, VList _ | VTuple _, VTuple _ => Undef
              | VObj _, _ | _, VObj _ | VFunc _, _ | _, VFunc _ => Undef
              | _, _ => Raise TypeError
              end
    end in
  match op with
  | OpEq => ofb (cval_eq a b)
  | OpNotEq => ofb (option_map negb (cval_eq a b))
  | OpLt => order Z.ltb str_ltb
  | OpLtE => order Z.leb (fun s t => negb (str_ltb t s))
  | OpGt => order Z.gtb (fun s t => str_ltb t s)
  | OpGtE => order Z.geb (fun s t => negb (str_ltb s t))
  | OpIs => ofb (c_is a b)
  | OpIsNot => ofb (option_map negb (c_is a b))
  | OpIn => bindo (c_contains a b) (fun x => Val (VBool x))
  | OpNotIn => bindo (c_contains a b) (fun x => Val (VBool (negb x)))
  end.

Fixpoint assoc_str {A} (k : str) (l : list (str * A)) : option A :=
  match l with
  | [] => None
  | (k', v) :: t => if str_eqb k k' then Some v else assoc_str k t
  end.

Definition c_getattr (v : cval) (a : str) : cout :=
  match v with
  | VObj attrs => match assoc_str a attrs with Some x => Val x | None => Raise AttributeError end
  | VFunc _ => Undef
  | VNone | VBool _ | VInt _ | VStr _ | VList _ | VTuple _ => Undef    (* builtin methods: not modelled *)
  end.

Definition c_const (c : const) : cout :=
  match c with
  | CNone => Val VNone | CBool b => Val (VBool b) | CInt z => Val (VInt z) | CStr s => Val (VStr s)
  | CFloat _ | CBytes _ | CComplex _ | CEllipsis => Undef          (* not modelled *)
  end.

(* an opaque callable `name` records its call: [name, [args...], [[k, v]...]] *)
Definition c_call (f : cval) (args : list cval) (kws : list (str * cval)) : cout :=
  match f with
  | VFunc name => Val (VList [VStr name; VList args; VList (map (fun kv => VList [VStr (fst kv); snd kv]) kws)])
  | VObj _ => Undef
  | _ => Raise TypeError
  end.

Definition CSem : PySem := {|
  value := cval; exc := cexc;
  sem_const := c_const;
  sem_truthy := c_truthy;
  sem_not := fun v => bindo (c_truthy v) (fun b => Val (VBool (negb b)));
  sem_bin := c_bin;
  sem_cmp := c_cmp;
  sem_getattr := c_getattr;
  sem_list := VList;
  sem_tuple := VTuple;
  sem_call := c_call
|}.

Definition cenv_of (l : list (str * cval)) : env CSem :=
  fun id => match assoc_str id l with Some v => Val v | None => Raise NameError end.

(* ------------------------------------------------------------------------------------------- *)
(* boolean equalities for the correspondence cases *)
Definition const_eqb (a b : const) : bool :=
  match a, b with
  | CNone, CNone => true
  | CBool x, CBool y => Bool.eqb x y
  | CInt x, CInt y => x =? y
  | CFloat x, CFloat y => x =? y
  | CStr x, CStr y => str_eqb x y
  | CBytes x, CBytes y => str_eqb x y
  | CComplex x, CComplex y => x =? y
  | CEllipsis, CEllipsis => true
  | _, _ => false
  end.

Fixpoint pyval_eqb (a b : pyval) {struct a} : bool :=
  match a, b with
  | PLeaf x, PLeaf y => const_eqb x y
  | PList l, PList m =>
      (fix go (l : list pyval) (m : list pyval) {struct l} : bool :=
         match l, m with
         | [], [] => true
         | x :: l', y :: m' => pyval_eqb x y && go l' m'
         | _, _ => false
         end) l m
  | _, _ => false
  end.

Definition cerr_eqb (a b : cerr) : bool :=
  match a, b with
  | ErrUnsupported (l1, c1), ErrUnsupported (l2, c2) => (l1 =? l2) && (c1 =? c2)
  | ErrChained, ErrChained => true
  | ErrParser, ErrParser => true
  | _, _ => false
  end.

Definition dumps_class_eqb (a b : dumps_class) : bool :=
  match a, b with
  | DumpsJSON, DumpsJSON | DumpsTypeError, DumpsTypeError | DumpsNotJSON, DumpsNotJSON => true
  | _, _ => false
  end.

(* what the harness observes of one call of parse_predicate_formula: the tree or the SyntaxError *)
Definition parse_result_eqb (m : cres tree) (impl : cres pyval) : bool :=
  match m, impl with
  | Ok t, Ok v => pyval_eqb (to_py t) v
  | Err a, Err b => cerr_eqb a b
  | _, _ => false
  end.

Definition list_eqb_with {A} (f : A -> A -> bool) : list A -> list A -> bool :=
  fix go (l m : list A) {struct l} : bool :=
    match l, m with
    | [], [] => true
    | x :: l', y :: m' => f x y && go l' m'
    | _, _ => false
    end.

Fixpoint cval_eqb (a b : cval) {struct a} : bool :=
  match a, b with
  | VNone, VNone => true
  | VBool x, VBool y => Bool.eqb x y
  | VInt x, VInt y => x =? y
  | VStr x, VStr y => str_eqb x y
  | VList l, VList m => list_eqb_with cval_eqb l m
  | VTuple l, VTuple m => list_eqb_with cval_eqb l m
  | VFunc x, VFunc y => str_eqb x y
  | VObj l, VObj m =>
      (fix goo (l m : list (str * cval)) {struct l} : bool :=
         match l, m with
         | [], [] => true
         | (k, x) :: l', (k', y) :: m' => str_eqb k k' && cval_eqb x y && goo l' m'
         | _, _ => false
         end) l m
  | _, _ => false
  end.

Definition cexc_eqb (a b : cexc) : bool :=
  match a, b with
  | TypeError, TypeError | ZeroDivisionError, ZeroDivisionError
  | AttributeError, AttributeError | NameError, NameError => true
  | _, _ => false
  end.

(* `Undef` on the model side means "not modelled": such a case is skipped (and counted as such) *)
Definition cout_agrees (m : cout) (py : cout) : bool :=
  match m, py with
  | Val a, Val b => cval_eqb a b
  | Raise a, Raise b => cexc_eqb a b
  | Undef, _ => true
  | _, _ => false
  end.
Definition cout_defined (m : cout) : bool := match m with Undef => false | _ => true end.

(* ------------------------------------------------------------------------------------------- *)
(* One correspondence case of the C40 check: the parser's and tokenizer's answers for a formula, what the
   running parse_predicate_formula / parse_predicate_formula_json did, and the harness's own classification of
   the expression (so that the oracle's notion of "supported" is the model's). *)
Inductive json_obs := OEmpty | OSyntaxError (e : cerr) | ODumps (c : dumps_class).

Definition observe_json (r : json_result) : json_obs :=
  match r with JEmpty => OEmpty | JSyntaxError e => OSyntaxError e | JDumps c _ => ODumps c end.

Definition json_obs_eqb (a b : json_obs) : bool :=
  match a, b with
  | OEmpty, OEmpty => true
  | OSyntaxError x, OSyntaxError y => cerr_eqb x y
  | ODumps x, ODumps y => dumps_class_eqb x y
  | _, _ => false
  end.

Record c40_case := {
  cc_dollar_ok : bool; cc_tokens : list (bool * str);      (* for the generated parse_predicate_formula *)
  cc_ast : option expr; cc_comments : list str; cc_truthy : bool;
  cc_parse : cres pyval; cc_json : json_obs;
  cc_supported : bool; cc_in_subset : bool
}.

Definition c40_case_ok (c : c40_case) : bool :=
  parse_result_eqb (parse_predicate (cc_ast c) (cc_comments c)) (cc_parse c)
  && json_obs_eqb (observe_json (parse_predicate_json (cc_truthy c) (cc_ast c) (cc_comments c))) (cc_json c)
  && match cc_ast c with
     | Some e => Bool.eqb (supported e) (cc_supported c) && Bool.eqb (in_subset e) (cc_in_subset c)
     | None => true
     end.

(* evaluation cases: expression, environment, what CPython's eval did *)
Definition c40_eval_ok (c : expr * list (str * cval) * cout) : bool :=
  match c with (e, g, py) => cout_agrees (eval_py CSem (cenv_of g) e) py end.
Definition c40_eval_defined (c : expr * list (str * cval) * cout) : bool :=
  match c with (e, g, _) => cout_defined (eval_py CSem (cenv_of g) e) end.
