(* K3 -- trigger formulas (property C15).  Executable model only; proofs are in Proofs/Trigger_proofs.v.

   One user table.  Columns are numbered: column [trc] = 0 is THE trigger column (a data column that carries a
   formula); [fcols cfg] lists the ordinary formula columns as (column, source): formula column f reads exactly
   the data column [source] of the same row (the harness uses  ($src or 0) // 2 , see [feval]); every other
   number is a plain data column.  [deps cfg] is recalcDeps (may contain trc itself = "data-cleaning" column).

   Three independent parts:
     1. DATA      ([data_doc], [data_user], [data_end]): what the cells contain.  Shared by 2 and 3; it says
                  nothing about WHEN the trigger formula is evaluated.
     2. MECHANISM ([mech_*]): the engine's bookkeeping, written from the four code sites
                  - engine.py Engine._maybe_update_trigger_dependencies + relation.py SingleRowsIdentityRelation
                    (edges Tr <- dep exist only for recalcWhen = DEFAULT; rebuilt at the END of apply_user_actions;
                    ALL_ROWS is not passed on)                                     -> [reach], [stale], [fstale]
                  - docactions.py BulkUpdateRecord (prevent_recalc) / BulkAddRecord (engine.add_records
                    invalidates every column of the new rows, no prevent_recalc)   -> [mech_doc]
                  - useractions.py doBulkAddOrReplace (data_cols_to_recompute; NEVER skipped)
                  - useractions.py doBulkUpdateRecord (trim_update_action; MANUAL_UPDATES; un-prevent on
                    self-dependency)                                               -> [mech_user]
                  - engine.py apply_user_actions (prevent map cleared at the start of EVERY user action,
                    recalculation once at the end of the bundle) and Engine._recompute_step
                    (dirty rows minus exempt rows, existing rows only)             -> [mech_actions], [fired]
     3. SPEC      ([spec_*]): the property sentence, as lower/upper bounds  must <= fired <= may.
     4. FLAGS     ([flag_actions], [regular]): the five transitions of the mechanism on which the current source
                  deviates from the sentence (one root cause each); hypotheses of the _partial theorems.

   Scope of the model (what the harness generates): all cell values are ints; formula columns read one plain data
   column of the same row; the trigger column's own schema and configuration do not change during the history;
   every formula column has its learned dependency edges at the start of a bundle, i.e. the table was not empty
   at the end of the last bundle that cleared them (an ALL_ROWS-dirty formula column re-learns its edges only by
   being evaluated on some row; the model does not track "has no edges because there was no row"). *)
From Coq Require Import ZArith List Bool.
Import ListNotations.
Open Scope Z_scope.

Inductive recalc_when := DEFAULT | NEVER | MANUAL_UPDATES.

(* Which of the repairs proposed in /verif/notes/proposed_fixes/C15-*.diff the modelled source contains
   (all false = the source as it is; the harness finds out by replaying the witnesses of the known findings). *)
Record fixes := { fx_add : bool; fx_lost : bool; fx_stale : bool; fx_trim : bool }.
Definition no_fixes : fixes := {| fx_add := false; fx_lost := false; fx_stale := false; fx_trim := false |}.

Record cfg := { when : recalc_when; deps : list Z; fcols : list (Z * Z); fx : fixes }.

Definition trc : Z := 0.
Definition feval (b : Z) : Z := b / 2.

Definition memz (x : Z) (l : list Z) : bool := existsb (Z.eqb x) l.
Definition is_fcol (g : cfg) (c : Z) : bool := existsb (fun p => fst p =? c) (fcols g).
Definition readers (g : cfg) (c : Z) : list Z := map fst (filter (fun p => snd p =? c) (fcols g)).
Definition is_default (g : cfg) : bool := match when g with DEFAULT => true | _ => false end.
Definition is_never (g : cfg) : bool := match when g with NEVER => true | _ => false end.
Definition is_manual (g : cfg) : bool := match when g with MANUAL_UPDATES => true | _ => false end.
(* docmodel.py recalcOnChangesToSelf *)
Definition selfdep (g : cfg) : bool := is_default g && memz trc (deps g).

(* ---------------------------------------------------------------- actions *)
(* One record of a bulk action: row id and the values of the action's columns (association list). *)
Definition wrec := (Z * list (Z * Z))%type.
Fixpoint assoc (c : Z) (l : list (Z * Z)) : Z :=
  match l with [] => 0 | (k, v) :: t => if k =? c then v else assoc c t end.
Definition wval (w : wrec) (c : Z) : Z := assoc c (snd w).
Definition ids (recs : list wrec) : list Z := map fst recs.
Fixpoint find_rec (r : Z) (recs : list wrec) : option wrec :=
  match recs with [] => None | w :: t => if fst w =? r then Some w else find_rec r t end.

(* Doc actions on the table (docactions.py); also what ApplyUndoActions / ApplyDocActions replay. *)
Inductive daction :=
| DAdd (cols : list Z) (recs : list wrec)      (* BulkAddRecord *)
| DUpd (cols : list Z) (recs : list wrec)      (* BulkUpdateRecord *)
| DRem (rs : list Z)                           (* BulkRemoveRecord *)
| DRename (c : Z)                              (* RenameColumn c -> a fresh name *)
| DModify (c : Z).                             (* ModifyColumn c (type change Int <-> Numeric) *)

(* User actions.  RemoveRecord / RenameColumn / ModifyColumn act on this model exactly like their doc
   actions, so they are UDocs [..]. *)
Inductive uaction :=
| UAdd (cols : list Z) (recs : list wrec)      (* user-level BulkAddRecord, row ids already filled in *)
| UUpd (cols : list Z) (recs : list wrec)      (* user-level BulkUpdateRecord *)
| UDocs (ds : list daction).

Definition bundle := list uaction.             (* one apply_user_actions call *)

(* ---------------------------------------------------------------- 1. data *)
Record tbl := { rows : list Z; cell : Z -> Z -> Z }.
Definition empty_tbl : tbl := {| rows := []; cell := fun _ _ => 0 |}.

Definition data_doc (t : tbl) (d : daction) : tbl :=
  match d with
  | DAdd cols recs =>
      {| rows := rows t ++ ids recs;
         cell := fun r c => match find_rec r recs with
                            | Some w => if memz c cols then wval w c else 0
                            | None => cell t r c end |}
  | DUpd cols recs =>
      {| rows := rows t;
         cell := fun r c => match find_rec r recs with
                            | Some w => if memz c cols then wval w c else cell t r c
                            | None => cell t r c end |}
  | DRem rs => {| rows := filter (fun r => negb (memz r rs)) (rows t); cell := cell t |}
  | DRename _ | DModify _ => t
  end.

Definition data_user (t : tbl) (a : uaction) : tbl :=
  match a with
  | UAdd cols recs => data_doc t (DAdd cols recs)
  | UUpd cols recs => data_doc t (DUpd cols recs)
  | UDocs ds => fold_left data_doc ds t
  end.

(* End of the bundle: the trigger formula of the harness is the evaluation counter  (value or 0) + 1 . *)
Definition data_end (t : tbl) (fired : list Z) : tbl :=
  {| rows := rows t;
     cell := fun r c => if (c =? trc) && memz r fired then cell t r c + 1 else cell t r c |}.

(* ---------------------------------------------------------------- 2. mechanism *)
(* dirty   : rows of the trigger column in Engine.recompute_map
   prevent : Engine._prevent_recompute_map for the trigger column
   stale c : the edge  Tr <- c  of the dependency graph names a column id that no longer exists (c was renamed
             in this bundle; _maybe_update_trigger_dependencies runs only at the end of the bundle)
   fstale f: formula column f is dirty for ALL_ROWS; DepGraph.invalidate_deps then cleared f's own edges and
             skips f ("if recompute_map.get(dirty_node) == ALL_ROWS: continue") until f is recomputed at the end
             of the bundle. *)
Record mech := { dirty : Z -> bool; prevent : Z -> bool; stale : Z -> bool; fstale : Z -> bool }.
Definition mech0 : mech :=
  {| dirty := fun _ => false; prevent := fun _ => false; stale := fun _ => false; fstale := fun _ => false |}.

Definition set_or (s : Z -> bool) (l : list Z) (b : bool) : Z -> bool := fun r => s r || (b && memz r l).

(* _maybe_update_trigger_dependencies: edges only for DEFAULT, one per recalcDeps entry. *)
Definition edge_live (g : cfg) (m : mech) (c : Z) : bool :=
  is_default g && memz c (deps g) && negb (stale m c).
(* invalidate_deps started at node c with specific rows: does it reach the trigger node?
   directly (c is a dependency; a formula column that is ALL_ROWS-dirty is skipped), or through a formula
   column reading c (IdentityRelation edge learned at evaluation, then SingleRowsIdentityRelation edge). *)
Definition via_self (g : cfg) (m : mech) (c : Z) : bool :=
  edge_live g m c && negb (is_fcol g c && fstale m c).
Definition via_readers (g : cfg) (m : mech) (c : Z) : bool :=
  existsb (fun f => negb (fstale m f) && edge_live g m f) (readers g c).
Definition reach (g : cfg) (m : mech) (c : Z) : bool := via_self g m c || via_readers g m c.
(* the columns of the table through which the trigger node can be reached at all *)
Definition table_cols (g : cfg) : list Z := deps g ++ map snd (fcols g).

Definition schema_fstale (g : cfg) (m : mech) (c : Z) : Z -> bool :=
  fun x => fstale m x || ((x =? c) && is_fcol g c) || memz x (readers g c).

Definition mech_doc (g : cfg) (m : mech) (d : daction) : mech :=
  match d with
  | DAdd _ recs =>     (* Engine.add_records: invalidate_records(table, new rows), every column; no prevent_recalc
                          (C15-add-with-value.diff: prevent_recalc for the trigger columns of the new rows) *)
      {| dirty := set_or (dirty m) (ids recs) (existsb (reach g m) (table_cols g));
         prevent := set_or (prevent m) (ids recs) (fx_add (fx g)); stale := stale m; fstale := fstale m |}
  | DRem rs =>         (* BulkRemoveRecord: invalidate_records(table, removed rows) *)
      {| dirty := set_or (dirty m) rs (existsb (reach g m) (table_cols g));
         prevent := prevent m; stale := stale m; fstale := fstale m |}
  | DUpd cols recs =>  (* BulkUpdateRecord: prevent_recalc for written data columns, invalidate written columns *)
      {| dirty := set_or (dirty m) (ids recs) (existsb (reach g m) cols);
         prevent := set_or (prevent m) (ids recs) (memz trc cols);
         stale := stale m; fstale := fstale m |}
  | DRename c =>       (* old column deleted (ALL_ROWS to its dependents), new column object under a new name *)
      {| dirty := dirty m; prevent := prevent m;
         stale := fun x => stale m x || (x =? c); fstale := schema_fstale g m c |}
  | DModify c =>       (* column object replaced under the same name: edges INTO it survive *)
      {| dirty := dirty m; prevent := prevent m; stale := stale m; fstale := schema_fstale g m c |}
  end.

(* Engine.trim_update_action *)
Definition changed (t : tbl) (w : wrec) (c : Z) : bool := negb (wval w c =? cell t (fst w) c).
Definition trim_cols (t : tbl) (cols : list Z) (recs : list wrec) : list Z :=
  filter (fun c => existsb (fun w => changed t w c) recs) cols.
Definition trim_recs (t : tbl) (cols' : list Z) (recs : list wrec) : list wrec :=
  filter (fun w => existsb (changed t w) cols') recs.
Definition nonnil {A} (l : list A) : bool := match l with [] => false | _ => true end.

(* patched doBulkAddOrReplace: un-prevent when no value was supplied (and not NEVER), or for a data-cleaning column *)
Definition add_recalc (g : cfg) (cols : list Z) : bool :=
  (negb (memz trc cols) && negb (is_never g)) || (memz trc cols && selfdep g).

Definition mech_user (g : cfg) (t : tbl) (m : mech) (a : uaction) : mech :=
  match a with
  | UAdd cols recs =>  (* doBulkAddOrReplace: doc action, then invalidate_records(data_cols_to_recompute) *)
      let m1 := mech_doc g m (DAdd cols recs) in
      {| dirty := set_or (dirty m1) (ids recs) (negb (memz trc cols) && negb (is_never g));
         (* C15-add-with-value.diff lifts the exemption again for the columns to be computed *)
         prevent := fun r => prevent m1 r && negb (fx_add (fx g) && add_recalc g cols && memz r (ids recs));
         stale := stale m1; fstale := fstale m1 |}
  | UUpd cols recs =>  (* doBulkUpdateRecord *)
      let cols' := trim_cols t cols recs in
      let recs' := trim_recs t cols' recs in
      let m1 := mech_doc g m (DUpd cols' recs') in
      {| dirty := set_or (dirty m1) (ids recs') (nonnil cols' && is_manual g);
         (* C15-explicit-value-trimmed.diff: every supplied trigger value exempts its cell (not self-dependent) *)
         prevent := fun r => (prevent m1 r ||
                              (fx_trim (fx g) && (memz trc cols && negb (selfdep g)) && memz r (ids recs))) &&
                             negb (nonnil cols' && memz trc cols' && selfdep g && memz r (ids recs'));
         stale := stale m1; fstale := fstale m1 |}
  | UDocs ds => fold_left (mech_doc g) ds m
  end.

(* start of a user action.  C15-exemption-lost.diff: the exempted cells are first taken out of the dirty set;
   C15-stale-edge.diff: the trigger edges have been rebuilt after the previous user action. *)
Definition clear_prevent (g : cfg) (m : mech) : mech :=
  {| dirty := fun r => dirty m r && negb (fx_lost (fx g) && prevent m r); prevent := fun _ => false;
     stale := fun c => stale m c && negb (fx_stale (fx g)); fstale := fstale m |}.

(* apply_user_actions: for each user action clear the prevent map, apply; no recalculation in between. *)
Fixpoint mech_actions (g : cfg) (t : tbl) (m : mech) (b : bundle) : tbl * mech :=
  match b with
  | [] => (t, m)
  | a :: b' => mech_actions g (data_user t a) (mech_user g t (clear_prevent g m) a) b'
  end.

(* _bring_all_up_to_date / _recompute_step: dirty rows minus exempt rows, existing rows only. *)
Definition fired_of (t : tbl) (m : mech) : list Z :=
  filter (fun r => dirty m r && negb (prevent m r)) (rows t).

Definition fired (g : cfg) (t : tbl) (b : bundle) : list Z :=
  let (t', m) := mech_actions g t mech0 b in fired_of t' m.

Definition step (g : cfg) (t : tbl) (b : bundle) : tbl :=
  let (t', m) := mech_actions g t mech0 b in data_end t' (fired_of t' m).

Definition history := list bundle.
Definition mechanism (g : cfg) (h : history) : tbl := fold_left (step g) h empty_tbl.

(* ---------------------------------------------------------------- 3. specification *)
(* Written from the property sentence, one user action after the other; it never looks at dirty / prevent /
   edges.  Two bounds per row, because the sentence leaves a gap:
     pm r ("must"): the trigger formula has to be evaluated for row r at the end of the bundle;
     py r ("may") : it is allowed to be.
   They differ only where a dependency cell was written with the value it already had, recomputed to the
   value it already had, or a formula column was written directly by a replayed doc action.
   ex r: a value for the trigger cell of r was given explicitly by the current user action.

   Reading of the sentence for bundles of several user actions: the user actions take effect in order; a later
   trigger re-arms a row after an earlier explicit value, a later explicit value cancels an earlier trigger.
   Replayed doc actions (ApplyUndoActions / ApplyDocActions): every value they carry is explicit - also the
   trigger cell of a re-added record (BulkAddRecord leaves out default values), also for a self-dependent
   column (an undo has to restore); they are not "user-requested record updates" for MANUAL_UPDATES. *)
Record pend := { pm : Z -> bool; py : Z -> bool; ex : Z -> bool }.
Definition pend0 : pend := {| pm := fun _ => false; py := fun _ => false; ex := fun _ => false |}.

(* the cell (row of w, column c) gets a different value *)
Definition cell_changed (t : tbl) (cols : list Z) (w : wrec) (c : Z) : bool :=
  memz c cols && negb (wval w c =? cell t (fst w) c).
(* "one of its recalcDeps cells changes value": a data column (or the trigger column itself) that is written
   with a different value, or a formula column whose source is written so that the formula's value differs *)
Definition dep_changed (g : cfg) (t : tbl) (cols : list Z) (w : wrec) (c : Z) : bool :=
  if is_fcol g c
  then existsb (fun p => (fst p =? c) && memz (snd p) cols &&
                         negb (feval (wval w (snd p)) =? feval (cell t (fst w) (snd p)))) (fcols g)
  else cell_changed t cols w c.
(* "written or recomputed in that row" *)
Definition dep_written (g : cfg) (cols : list Z) (c : Z) : bool :=
  memz c cols || existsb (fun p => (fst p =? c) && memz (snd p) cols) (fcols g).

(* "a new record gets the formula's value unless recalcWhen is NEVER or the action supplied a value"; a
   supplied value "is kept (unless the column depends on itself)": a data-cleaning column also cleans the
   value a new record comes with (test_trigger_formulas.test_self_trigger expects exactly this). *)
Definition add_computes (g : cfg) (cols : list Z) : bool :=
  negb (is_never g) && (negb (memz trc cols) || selfdep g).

Definition any_rec (r : Z) (recs : list wrec) (f : wrec -> bool) : bool :=
  existsb (fun w => (fst w =? r) && f w) recs.

Definition spec_doc (g : cfg) (t : tbl) (p : pend) (d : daction) : pend :=
  match d with
  | DAdd _ recs => {| pm := pm p; py := py p; ex := fun r => ex p r || memz r (ids recs) |}
  | DUpd cols recs =>
      {| pm := fun r => pm p r ||
                 (is_default g && any_rec r recs (fun w => existsb (dep_changed g t cols w) (deps g)));
         py := fun r => py p r ||
                 (is_default g && memz r (ids recs) && existsb (dep_written g cols) (deps g));
         ex := fun r => ex p r || (memz trc cols && memz r (ids recs)) |}
  | DRem _ | DRename _ | DModify _ => p      (* schema changes never trigger *)
  end.

Fixpoint spec_docs (g : cfg) (t : tbl) (p : pend) (ds : list daction) : pend :=
  match ds with [] => p | d :: ds' => spec_docs g (data_doc t d) (spec_doc g t p d) ds' end.

Definition spec_user (g : cfg) (t : tbl) (p : pend) (a : uaction) : pend :=
  match a with
  | UAdd cols recs =>   (* new record: the formula's value unless NEVER or the action supplied a value *)
      let x := add_computes g cols in
      {| pm := fun r => if memz r (ids recs) then x else pm p r;
         py := fun r => if memz r (ids recs) then x else py p r; ex := fun _ => false |}
  | UUpd cols recs =>
      let explicit := memz trc cols && negb (selfdep g) in   (* kept, unless the column depends on itself *)
      let must w := match when g with
                    | DEFAULT => existsb (dep_changed g t cols w) (deps g)
                    | MANUAL_UPDATES => existsb (cell_changed t cols w) cols
                    | NEVER => false end in
      let may w := match when g with
                   | DEFAULT => existsb (dep_written g cols) (deps g)
                   | MANUAL_UPDATES => existsb (cell_changed t cols w) cols
                   | NEVER => false end in
      {| pm := fun r => if memz r (ids recs) then (if explicit then false else pm p r || any_rec r recs must)
                        else pm p r;
         py := fun r => if memz r (ids recs) then (if explicit then false else py p r || any_rec r recs may)
                        else py p r;
         ex := fun _ => false |}
  | UDocs ds =>
      let p' := spec_docs g t {| pm := pm p; py := py p; ex := fun _ => false |} ds in
      {| pm := fun r => pm p' r && negb (ex p' r); py := fun r => py p' r && negb (ex p' r);
         ex := fun _ => false |}
  end.

Fixpoint spec_actions (g : cfg) (t : tbl) (p : pend) (b : bundle) : pend :=
  match b with [] => p | a :: b' => spec_actions g (data_user t a) (spec_user g t p a) b' end.

Definition must (g : cfg) (t : tbl) (b : bundle) (r : Z) : bool := pm (spec_actions g t pend0 b) r.
Definition may (g : cfg) (t : tbl) (b : bundle) (r : Z) : bool := py (spec_actions g t pend0 b) r.
(* The declarative answer, and where the sentence gives none. *)
Definition spec := must.
Definition unconstrained (g : cfg) (t : tbl) (b : bundle) (r : Z) : bool := may g t b r && negb (must g t b r).

(* ---------------------------------------------------------------- 4. the transitions where the source deviates *)
(* Each flag names ONE kind of transition of the mechanism (one root cause each); [regular] = none occurs.
   fl_add  : after a user action that ADDED row r with a value for the trigger cell of a column that does not
             depend on itself (or under NEVER, or by a replayed BulkAddRecord), r is dirty and not exempt
                                                                         (BulkAddRecord never calls prevent_recalc)
   fl_lost : a user action starts while some row is dirty AND exempt: the exemption is dropped before the
             recalculation, which only happens at the end of the bundle  (_prevent_recompute_map.clear())
   fl_stale: a record update writes a dependency column that was RENAMED earlier in the same bundle: the edge
             towards the trigger column still names the old column id   (edges rebuilt at the end of the bundle)
   fl_fstale: a record update writes the source of a formula dependency whose own dependency edges were cleared
             by a schema change (ALL_ROWS invalidation) earlier in the same bundle, or which was itself renamed
                                                        (edges re-learned only when the column is recomputed)
   fl_trim : after a user-level update that SUPPLIED a trigger value for row r (column not self-dependent),
             r is dirty and not exempt                   (trim_update_action dropped the unchanged explicit value) *)
Record flags := { fl_add : bool; fl_lost : bool; fl_stale : bool; fl_fstale : bool; fl_trim : bool }.
Definition no_flags : flags :=
  {| fl_add := false; fl_lost := false; fl_stale := false; fl_fstale := false; fl_trim := false |}.
Definition or_flags (a b : flags) : flags :=
  {| fl_add := fl_add a || fl_add b; fl_lost := fl_lost a || fl_lost b;
     fl_stale := fl_stale a || fl_stale b; fl_fstale := fl_fstale a || fl_fstale b;
     fl_trim := fl_trim a || fl_trim b |}.
Definition any_flag (f : flags) : bool := fl_add f || fl_lost f || fl_stale f || fl_fstale f || fl_trim f.

Definition eff_dirty (m : mech) (r : Z) : bool := dirty m r && negb (prevent m r).

(* ka: look at trigger edges that name a renamed column; kb: look at formula columns whose own edges were
   cleared (or whose trigger edge names their old id) *)
Definition stale_hit_k (ka kb : bool) (g : cfg) (m : mech) (cols : list Z) (recs : list wrec) : bool :=
  is_default g && nonnil recs &&
  existsb (fun c => (ka && (memz c (deps g) && stale m c)) ||
                    (kb && existsb (fun f => memz f (deps g) && (stale m f || fstale m f)) (readers g c))) cols.
Definition stale_doc_k (ka kb : bool) (g : cfg) (m : mech) (d : daction) : bool :=
  match d with DUpd cols recs => stale_hit_k ka kb g m cols recs | _ => false end.
Fixpoint stale_docs_k (ka kb : bool) (g : cfg) (m : mech) (ds : list daction) : bool :=
  match ds with [] => false | d :: ds' => stale_doc_k ka kb g m d || stale_docs_k ka kb g (mech_doc g m d) ds' end.
Definition stale_user_k (ka kb : bool) (g : cfg) (t : tbl) (m : mech) (a : uaction) : bool :=
  match a with
  | UAdd cols recs =>   (* a self-dependent column was renamed earlier in the bundle: its self edge is missing *)
      ka && (selfdep g && memz trc cols && nonnil recs && negb (existsb (reach g m) (table_cols g)))
  | UUpd cols recs => let cols' := trim_cols t cols recs in stale_hit_k ka kb g m cols' (trim_recs t cols' recs)
  | UDocs ds => stale_docs_k ka kb g m ds
  end.
Definition stale_hit := stale_hit_k true true.
Definition stale_doc := stale_doc_k true true.
Definition stale_docs := stale_docs_k true true.
Definition stale_user := stale_user_k true true.

Definition dadd_ids (ds : list daction) : list Z :=
  flat_map (fun d => match d with DAdd _ recs => ids recs | _ => [] end) ds.
Definition xadd (g : cfg) (a : uaction) : list Z :=
  match a with
  | UAdd cols recs => if add_computes g cols then [] else ids recs
  | UUpd _ _ => []
  | UDocs ds => dadd_ids ds
  end.
Definition xupd (g : cfg) (a : uaction) : list Z :=
  match a with
  | UUpd cols recs => if memz trc cols && negb (selfdep g) then ids recs else []
  | _ => []
  end.
Definition unprotected (t : tbl) (m : mech) (xs : list Z) : bool :=
  existsb (fun r => memz r xs && eff_dirty m r) (rows t).

Fixpoint flag_actions (g : cfg) (t : tbl) (m : mech) (b : bundle) : flags :=
  match b with
  | [] => no_flags
  | a :: b' =>
      let mc := clear_prevent g m in
      let m' := mech_user g t mc a in
      let t' := data_user t a in
      or_flags {| fl_add := unprotected t' m' (xadd g a);
                  fl_lost := negb (fx_lost (fx g)) && existsb (fun r => dirty m r && prevent m r) (rows t);
                  fl_stale := stale_user_k true false g t mc a;
                  fl_fstale := stale_user_k false true g t mc a;
                  fl_trim := unprotected t' m' (xupd g a) |}
               (flag_actions g t' m' b')
  end.
Definition bundle_flags (g : cfg) (t : tbl) (b : bundle) : flags := flag_actions g t mech0 b.
Definition regular (g : cfg) (t : tbl) (b : bundle) : bool := negb (any_flag (bundle_flags g t b)).
