(* Types and primitive vocabulary for moment.py (C34).  The integer core of Zone (_index, _index_dt, offset,
   dt_offset, the offset_untils expression of __init__) is translated from /repo/sandbox/grist/moment.py on every
   run into GristGen.Moment_gen; the zone data is regenerated from tzdata.data into GristGen.Tzdata_gen*.

   UNITS.  The code mixes milliseconds (untils, utc_to_ts_ms), minutes (offsets; fractional for some LMT
   offsets, e.g. 16.1333... = 968 s) and datetime/timedelta values (microseconds).  The model uses ONE integer
   unit for all of them: the tick = 1/60000 ms = 1/60 microsecond, i.e. every ms-valued quantity of the code
   is multiplied by 60000, and so is every minutes-valued one (so an element of z_offsets is the offset in
   ms, a whole number for every bundled zone - checked by the generator).  The code's arithmetic on these
   values is +, -, comparison and `* 60000` (minutes -> ms), which commute with that scaling, so the
   translated text `offsets[i] * 60000` is literally right: (offset in ms) * 60000 = offset in ticks.
   Every datetime (microsecond resolution) is a multiple of 60 ticks; the theorems hold for all ticks.
   Outside the model: the float arithmetic itself (float seconds <-> timedelta microsecond rounding in
   timedelta(seconds=ts) / total_seconds(), and the rounding of total_seconds()*1000 in utc_to_ts_ms, which
   is below 1 microsecond for |t| < 2^32 s and exact at whole seconds); the correspondence check compares
   the model with the running code at +-1 microsecond of every transition. *)
From Coq Require Import ZArith List Bool.
Import ListNotations.
Require Import Grist.Lib.PyPrelude Grist.Lib.PyList.
Open Scope Z_scope.

(* moment.Zone: untils (ticks, the trailing inf dropped), offsets (ms, positive = west of UTC, one more
   than untils), offset_untils (ticks; computed by __init__) *)
Record zone := mk_zone_rec { z_untils : list Z; z_offsets : list Z; z_offset_untils : list Z }.

(* utc_to_ts_ms(dt) = (dt.replace(tzinfo=None) - EPOCH).total_seconds() * 1000: a naive datetime is
   represented by its distance from EPOCH, so this is the identity (in ticks). *)
Definition py_utc_to_ts_ms (dt : Z) : Z := dt.

(* timedelta(minutes=m): m is a minutes value (scaled: ms); the result a duration in ticks *)
Definition py_timedelta_minutes (m : Z) : Z := m * 60000.

Definition TICKS_PER_MS : Z := 60000.
Definition TICKS_PER_US : Z := 60.
Definition TICKS_PER_DAY : Z := 86400000 * 60000.
