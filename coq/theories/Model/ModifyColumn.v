(* C23 -- the data path of a column type change.

   Code modelled (sandbox/grist):
     docactions.DocActions.ModifyColumn   a NEW column object replaces the old one and every row gets
                                          new_column.set(row, old_column.raw_get(row))
     useractions.UserActions.doModifyColumn
                                          all_old_values = {r: old_column.raw_get(r)} taken BEFORE the doc action;
                                          after it, for every row: new_value = new_column.convert(orig_value);
                                          if not strict_equal(orig_value, new_value): new_column.set(row, new_value)
                                          and (row, orig, new_column.raw_get(row)) is appended to `changes`
                                          (they become the stored BulkUpdateRecord);
                                          finally new_column.recalc_from_reverse_values() is applied as a
                                          BulkUpdateRecord doc action on the REVERSE column of a two-way reference.
     column.BaseColumn.set / raw_get      a Python list indexed by row id, grown with the type default on demand.

   The cell values are an arbitrary type V.  The COLUMN-level conversion of the new column
   (new_column.convert: the type's convert composed with the ReferenceColumn / ReferenceListColumn overrides),
   the normalisation its `set` applies when storing (BoolColumn, NumericColumn, ChoiceListColumn,
   Reference(List)Column._clean_up_value) and objtypes.strict_equal are Section variables; the check compares
   them with the running code on generated values (harness/props/c23.py). *)
From Coq Require Import ZArith List Bool Lia.
Import ListNotations.

Definition str := list Z.

Fixpoint str_eqb (a b : str) : bool :=
  match a, b with
  | [], [] => true
  | x :: a', y :: b' => Z.eqb x y && str_eqb a' b'
  | _, _ => false
  end.

Inductive res (A : Type) : Type :=
| Ok (a : A)
| Err (why : nat).          (* 1: no such table; 2: no such column (the doc action's assertion) *)
Arguments Ok {A} a.
Arguments Err {A} why.

Section ModifyColumn.
  Variable V : Type.
  Variable col_convert : V -> V.            (* new_column.convert *)
  Variable col_set : V -> V.                (* what new_column.set stores for a given argument *)
  Variable strict_equal : V -> V -> bool.   (* objtypes.strict_equal *)
  Variable dflt : V.                        (* new_column.getdefault() *)

  (* ---- column.BaseColumn: _data, raw_get, set ---- *)
  Definition coldata := list V.

  Definition raw_get (d : V) (c : coldata) (r : nat) : V := nth r c d.

  (* self._data[row_id] = value, with growto(row_id + 1) (filled with the default) on IndexError *)
  Fixpoint store (d : V) (c : coldata) (r : nat) (v : V) : coldata :=
    match r, c with
    | O, [] => [v]
    | O, _ :: t => v :: t
    | S r', [] => d :: store d [] r' v
    | S r', x :: t => x :: store d t r' v
    end.

  Record column := { c_default : V; c_data : coldata }.
  Record table := { t_rows : list nat; t_cols : list (str * column) }.
  Definition doc := list (str * table).

  Fixpoint get_col (cols : list (str * column)) (c : str) : option column :=
    match cols with
    | [] => None
    | (k, x) :: t => if str_eqb k c then Some x else get_col t c
    end.

  Fixpoint put_col (cols : list (str * column)) (c : str) (x : column) : list (str * column) :=
    match cols with
    | [] => []
    | (k, y) :: t => if str_eqb k c then (k, x) :: t else (k, y) :: put_col t c x
    end.

  Fixpoint get_table (d : doc) (t : str) : option table :=
    match d with
    | [] => None
    | (k, x) :: r => if str_eqb k t then Some x else get_table r t
    end.

  Fixpoint put_table (d : doc) (t : str) (x : table) : doc :=
    match d with
    | [] => []
    | (k, y) :: r => if str_eqb k t then (k, x) :: r else (k, y) :: put_table r t x
    end.

  Definition cell (d : doc) (t c : str) (r : nat) : option V :=
    match get_table d t with
    | Some tb => match get_col (t_cols tb) c with
                 | Some col => Some (raw_get (c_default col) (c_data col) r)
                 | None => None
                 end
    | None => None
    end.

  (* ---- docactions.ModifyColumn: fill the new column object from the old one ---- *)
  Definition da_fill (rows : list nat) (old : column) (new : coldata) : coldata :=
    fold_left (fun acc r => store dflt acc r (col_set (raw_get (c_default old) (c_data old) r))) rows new.

  (* ---- useractions.doModifyColumn: the conversion loop (old values were read before the doc action) ---- *)
  Definition ua_convert (rows : list nat) (old : column) (new : coldata) : coldata :=
    fold_left (fun acc r =>
                 let ov := raw_get (c_default old) (c_data old) r in
                 let nv := col_convert ov in
                 if strict_equal ov nv then acc else store dflt acc r (col_set nv)) rows new.

  (* the `changes` list: (row, orig_value, new raw value); it becomes the stored BulkUpdateRecord *)
  Definition ua_changes (rows : list nat) (old : column) : list (nat * V * V) :=
    flat_map (fun r =>
                let ov := raw_get (c_default old) (c_data old) r in
                let nv := col_convert ov in
                if strict_equal ov nv then [] else [(r, ov, col_set nv)]) rows.

  (* the new column object after both steps; `size0` is the size the fresh object was grown to *)
  Definition new_column (size0 : nat) (rows : list nat) (old : column) : column :=
    {| c_default := dflt;
       c_data := ua_convert rows old (da_fill rows old (repeat dflt size0)) |}.

  (* the type change of column c of table t: only that column object is replaced *)
  Definition modify_column (size0 : nat) (d : doc) (t c : str) : res doc :=
    match get_table d t with
    | None => Err 1
    | Some tb =>
      match get_col (t_cols tb) c with
      | None => Err 2
      | Some old =>
        Ok (put_table d t {| t_rows := t_rows tb;
                             t_cols := put_col (t_cols tb) c (new_column size0 (t_rows tb) old) |})
      end
    end.

  (* ---- the reverse column of a two-way reference: a BulkUpdateRecord doc action on (rt, rc) ---- *)
  Variable rev_set : V -> V.          (* set of the reverse column *)

  Definition bulk_update (d : doc) (rt rc : str) (upd : list (nat * V)) : res doc :=
    match get_table d rt with
    | None => Err 1
    | Some tb =>
      match get_col (t_cols tb) rc with
      | None => Err 2
      | Some col =>
        Ok (put_table d rt
              {| t_rows := t_rows tb;
                 t_cols := put_col (t_cols tb) rc
                             {| c_default := c_default col;
                                c_data := fold_left (fun acc rv => store (c_default col) acc (fst rv) (rev_set (snd rv)))
                                                    upd (c_data col) |} |})
      end
    end.

  (* the whole data path of doModifyColumn with a type change: ModifyColumn + conversion + reverse update *)
  Definition modify_with_reverse (size0 : nat) (d : doc) (t c : str)
             (rev : option (str * str * list (nat * V))) : res doc :=
    match modify_column size0 d t c with
    | Err e => Err e
    | Ok d1 =>
      match rev with
      | None => Ok d1
      | Some (rt, rc, upd) => bulk_update d1 rt rc upd
      end
    end.

End ModifyColumn.

Arguments c_default {V} _.
Arguments c_data {V} _.
Arguments t_rows {V} _.
Arguments t_cols {V} _.
Arguments Build_column {V} _ _.
Arguments Build_table {V} _ _.

(* ---- a concrete value universe for the counterexample and the examples ------------------------------- *)
Inductive tv : Type :=
| TNone
| TInt (z : Z)
| TStr (s : str)
| TList (l : list Z).

Definition tv_eqb (a b : tv) : bool :=
  match a, b with
  | TNone, TNone => true
  | TInt x, TInt y => Z.eqb x y
  | TStr x, TStr y => str_eqb x y
  | TList x, TList y => (fix go (l m : list Z) := match l, m with
                                                  | [], [] => true
                                                  | p :: l', q :: m' => Z.eqb p q && go l' m'
                                                  | _, _ => false
                                                  end) x y
  | _, _ => false
  end.

(* A miniature of ReferenceListColumn on ints and strings.  convert wraps a non-zero int into a one-element list;
   the element conversion (Reference.do_convert) raises OverflowError for ints that are not "short" (>= 2^31), and
   the alt-text is then str([n]); a string "[n]" with a positive short n is parsed into [n].  The string "[n]" is
   represented by TStr [91; n; 93].  `set` (_clean_up_value) parses a string "[n]" back into a list:
     mini_reflist_set_old   as before commit 31c0c3e: for every positive n -- it re-parsed the alt-text of a failed
                            conversion;
     mini_reflist_set       as in the current source: only for short ints. *)
Definition short (n : Z) : bool := (n <? 2147483648)%Z.
Definition is_bracketed (s : str) : option Z :=
  match s with
  | [a; n; c] => if ((a =? 91) && (c =? 93))%Z then Some n else None
  | _ => None
  end.
Definition mini_reflist_convert (v : tv) : tv :=
  match v with
  | TInt n => if (n =? 0)%Z then TNone
              else if short n then TList [n] else TStr [91%Z; n; 93%Z]
  | TStr s => match is_bracketed s with
              | Some n => if ((0 <? n)%Z && short n)%bool then TList [n] else v
              | None => v
              end
  | x => x
  end.
Definition mini_reflist_set_old (v : tv) : tv :=
  match v with
  | TStr s => match is_bracketed s with
              | Some n => if (0 <? n)%Z then TList [n] else v
              | None => v
              end
  | x => x
  end.
Definition mini_reflist_set (v : tv) : tv :=
  match v with
  | TStr s => match is_bracketed s with
              | Some n => if ((0 <? n)%Z && short n)%bool then TList [n] else v
              | None => v
              end
  | x => x
  end.
