(* K5 -- summary tables (C12).  Executable model of how the data engine maintains a summary table:

     table.py   Table._add_update_summary_col   the helper formula `#summary#<table>` of the SOURCE table
                                                  (_updateSummary, simple mode and list mode)
                Table.lookupOrAddDerived          look a key up in the summary table, add the row if missing
                Table.getSummarySourceGroup       `group` of a summary row = (CONTAINS-)lookup on the helper column,
                                                  docmodel.setAutoRemove(rec, not result)
     docmodel.py DocModel.apply_auto_removes     remove the rows marked for removal
     engine.py  Engine.apply_user_actions        _bring_all_up_to_date(); while apply_auto_removes(): _bring_all_up_to_date()

   Hand-written; tied to the code on every run by harness/props/c12.py (the summary rows before the settle loop,
   the source cells and the lookup-map entries of the helper column are read from the running engine, the model
   must produce exactly the rows, keys, row ids and groups the engine ends with).

   Values.  A hashable Python value is an [atom]; equality of atoms is Python's == on the values the harness
   maps to them (integral numbers of any numeric type are one AInt, so True == 1 == 1.0).  Values are taken
   AFTER the conversion Table.lookup_records applies to a looked-up value (column.convert of the summary
   column, Record -> row id); that conversion is library code outside this model. *)
From Coq Require Import ZArith List Bool.
Import ListNotations.
Open Scope Z_scope.

Inductive atom : Type :=
| ANone
| AInt (z : Z)
| AStr (s : list Z)          (* code points *)
| ABytes (s : list Z)
| AOther (tok : Z).          (* any other hashable value (date, tuple, float that is not integral ...), interned *)

(* what the helper formula reads from one group-by cell of a source record *)
Inductive cell : Type :=
| CAtom (a : atom)           (* a hashable value that is not iterable, or a str/bytes *)
| CSeq (l : list atom)       (* a tuple / RecordSet / other iterable of hashable values (list-typed columns) *)
| CUnhashable                (* list, dict, or an iterable with an unhashable element *)
| CError.                    (* the cell holds an error: reading it raises *)

(* class of the SOURCE column: column.ChoiceListColumn, column.ReferenceListColumn, anything else *)
Inductive kind : Type := KScalar | KChoiceList | KRefList.

Definition key := list atom.          (* one atom per group-by column, columns in sorted colId order *)
Definition srow := (Z * list cell)%type.     (* source record: row id, group-by cells *)
Definition mrow := (Z * key)%type.           (* summary record: row id, group-by values *)
Definition orow := (Z * key * list Z)%type.  (* summary record with its group *)

(* ------------------------------------------------------------------ equality and order *)

Fixpoint zs_eqb (a b : list Z) : bool :=
  match a, b with
  | [], [] => true
  | x :: a', y :: b' => Z.eqb x y && zs_eqb a' b'
  | _, _ => false
  end.

Definition atom_eqb (a b : atom) : bool :=
  match a, b with
  | ANone, ANone => true
  | AInt x, AInt y => Z.eqb x y
  | AStr x, AStr y => zs_eqb x y
  | ABytes x, ABytes y => zs_eqb x y
  | AOther x, AOther y => Z.eqb x y
  | _, _ => false
  end.

Fixpoint key_eqb (a b : key) : bool :=
  match a, b with
  | [], [] => true
  | x :: a', y :: b' => atom_eqb x y && key_eqb a' b'
  | _, _ => false
  end.

(* lexicographic <= on code point lists: Python's order on str and on bytes *)
Fixpoint zs_leb (a b : list Z) : bool :=
  match a, b with
  | [], _ => true
  | _ :: _, [] => false
  | x :: a', y :: b' => if Z.ltb x y then true else if Z.eqb x y then zs_leb a' b' else false
  end.

Definition atom_rank (a : atom) : Z :=
  match a with ANone => 0 | AInt _ => 1 | AStr _ => 2 | ABytes _ => 3 | AOther _ => 4 end.

(* Python's order inside one type (ints, strs, bytes); between types (where sorted() would raise, the
   harness does not present such cells) by rank *)
Definition atom_leb (a b : atom) : bool :=
  match a, b with
  | AInt x, AInt y => Z.leb x y
  | AStr x, AStr y => zs_leb x y
  | ABytes x, ABytes y => zs_leb x y
  | AOther x, AOther y => Z.leb x y
  | _, _ => Z.leb (atom_rank a) (atom_rank b)
  end.

(* tuple comparison: first position where the items differ decides *)
Fixpoint key_leb (a b : key) : bool :=
  match a, b with
  | [], _ => true
  | _ :: _, [] => false
  | x :: a', y :: b' => if atom_eqb x y then key_leb a' b' else atom_leb x y
  end.

Fixpoint mem_atom (a : atom) (l : list atom) : bool :=
  match l with [] => false | b :: t => atom_eqb a b || mem_atom a t end.

Fixpoint mem_key (k : key) (l : list key) : bool :=
  match l with [] => false | b :: t => key_eqb k b || mem_key k t end.

Fixpoint mem_z (i : Z) (l : list Z) : bool :=
  match l with [] => false | j :: t => Z.eqb i j || mem_z i t end.

(* set(lookup_value): the distinct elements (in some order; the product is sorted afterwards) *)
Fixpoint dedup (l : list atom) : list atom :=
  match l with
  | [] => []
  | a :: t => if mem_atom a t then dedup t else a :: dedup t
  end.

(* itertools.product over lookup_values *)
Fixpoint product (vals : list (list atom)) : list key :=
  match vals with
  | [] => [[]]
  | v :: rest => flat_map (fun a => map (cons a) (product rest)) v
  end.

(* sorted(...) on distinct tuples: insertion sort *)
Fixpoint insert_key (k : key) (l : list key) : list key :=
  match l with
  | [] => [k]
  | x :: t => if key_leb k x then k :: l else x :: insert_key k t
  end.

Fixpoint sort_keys (l : list key) : list key :=
  match l with [] => [] | k :: t => insert_key k (sort_keys t) end.

(* ------------------------------------------------------------------ the summary table as the lookups see it *)

(* summary_table.lookup_one_record of the values: RecordSet.get_one() of the rows whose group-by values equal the
   key, i.e. the row listed first.  Rows are listed in ascending row id order (the harness presents them so,
   new rows get larger ids: Summary_proofs.pass_asc), so this is the matching row with the LOWEST id
   (Summary_proofs.first_match_lowest). *)
Fixpoint first_match (summ : list mrow) (k : key) : option Z :=
  match summ with
  | [] => None
  | r :: t => if key_eqb (snd r) k then Some (fst r) else first_match t k
  end.

(* Table.next_row_id(): row_ids.max() + 1, where max() of an empty table is 0 *)
Definition max_id (summ : list mrow) : Z := fold_right (fun r m => Z.max (fst r) m) 0 summ.
Definition next_id (summ : list mrow) : Z := max_id summ + 1.

(* BulkAddRecord(summary_table, [None, ...], values_to_add): consecutive new row ids *)
Fixpoint number_from (n : Z) (ks : list key) : list mrow :=
  match ks with [] => [] | k :: t => (n, k) :: number_from (n + 1) t end.

(* ------------------------------------------------------------------ _updateSummary, list mode *)

(* the loop `for group_col in groupby_cols` *)
Inductive lv_result : Type :=
| LvReturnEmpty                                         (* `return []` *)
| LvRaise                                               (* reading the cell raised *)
| LvOk (vals : list (list atom)) (unhashable : bool).   (* lookup_values; a scalar value is unhashable *)

Definition lv_cons (v : list atom) (u : bool) (rest : lv_result) : lv_result :=
  match rest with
  | LvOk vals u' => LvOk (v :: vals) (u || u')
  | other => other
  end.

Definition empty_value (kd : kind) : atom :=
  match kd with KChoiceList => AStr [] | _ => AInt 0 end.

Fixpoint lookup_values (kinds : list kind) (cells : list cell) : lv_result :=
  match kinds, cells with
  | [], _ => LvOk [] false
  | _ :: _, [] => LvRaise                               (* no such column: AttributeError *)
  | kd :: ks, c :: cs =>
      match c with
      | CError => LvRaise
      | _ =>
        match kd with
        | KScalar =>                                     (* lookup_value = [lookup_value] *)
            match c with
            | CAtom a => lv_cons [a] false (lookup_values ks cs)
            | _ => lv_cons [] true (lookup_values ks cs)
            end
        | _ =>
            match c with
            | CSeq l =>                                  (* set(lookup_value), {""} / {0} when empty *)
                let s := dedup l in
                lv_cons (match s with [] => [empty_value kd] | _ => s end) false (lookup_values ks cs)
            | _ => LvReturnEmpty                         (* str/bytes, or set() raised TypeError *)
            end
        end
      end
  end.

(* The keys one source record is looked up under; None: the formula raises (the error of a cell it reads, or
   TypeError from the lookup of an unhashable value - the product is never empty then). *)
Definition row_keys (kinds : list kind) (cells : list cell) : option (list key) :=
  match lookup_values kinds cells with
  | LvReturnEmpty => Some []
  | LvRaise => None
  | LvOk vals false => Some (sort_keys (product vals))
  | LvOk vals true => match vals with [] => None | _ => None end
  end.

Definition found_ids (summ : list mrow) (ks : list key) : list Z :=
  flat_map (fun k => match first_match summ k with Some i => [i] | None => [] end) ks.

Definition missing_keys (summ : list mrow) (ks : list key) : list key :=
  filter (fun k => match first_match summ k with Some _ => false | None => true end) ks.

(* One evaluation of the helper cell of a source record.  `stale` is the entry the lookup map of the helper
   column holds for the record (its last successfully computed value): when the formula raises, the lookup
   map cannot read the cell and keeps that entry.  Returns the summary rows and the entry afterwards.
   (Engine.is_triggered_by_table_action is false here: it is true only inside _bring_mlookups_up_to_date.) *)
Definition helper_list (kinds : list kind) (stale : list Z) (summ : list mrow) (cells : list cell)
  : list mrow * list Z :=
  match row_keys kinds cells with
  | None => (summ, stale)
  | Some ks =>
      let new_rows := number_from (next_id summ) (missing_keys summ ks) in
      (summ ++ new_rows, found_ids summ ks ++ map fst new_rows)
  end.

(* ------------------------------------------------------------------ _updateSummary, simple mode *)

(* {c: getattr(rec, c) for c in groupby_cols}: None if reading a cell raises; the flag says that a value is
   unhashable *)
Fixpoint simple_values (kinds : list kind) (cells : list cell) : option (key * bool) :=
  match kinds, cells with
  | [], _ => Some ([], false)
  | _ :: _, [] => None
  | _ :: ks, c :: cs =>
      match c with
      | CError => None
      | CAtom a => match simple_values ks cs with Some (k, u) => Some (a :: k, u) | None => None end
      | _ => match simple_values ks cs with Some (k, _) => Some (k, true) | None => None end
      end
  end.

(* summary_table.lookupOrAddDerived of the values *)
Definition helper_simple (kinds : list kind) (stale : list Z) (summ : list mrow) (cells : list cell)
  : list mrow * list Z :=
  match simple_values kinds cells with
  | None => (summ, stale)
  | Some (_, true) => (summ, stale)                       (* lookup_records: TypeError, unhashable *)
  | Some (k, false) =>
      match first_match summ k with
      | Some i => (summ, [i])
      | None => (summ ++ [(next_id summ, k)], [next_id summ])
      end
  end.

Definition is_list_kind (kd : kind) : bool := match kd with KScalar => false | _ => true end.

(* Table._summary_simple *)
Definition summary_simple (kinds : list kind) : bool := negb (existsb is_list_kind kinds).

Definition helper (kinds : list kind) (stale : list Z) (summ : list mrow) (cells : list cell) :=
  if summary_simple kinds then helper_simple kinds stale summ cells else helper_list kinds stale summ cells.

(* The helper formula while Engine.is_triggered_by_table_action(summary table) holds (lookupOrAddDerived:
   `if not record._row_id and not self._engine.is_triggered_by_table_action(self.table_id)`; list mode:
   `if new_row_ids and not ...`): keys are looked up, nothing is added.  In this tree the condition is never
   true while a helper cell is evaluated (_bring_mlookups_up_to_date only recomputes metadata lookups; the
   harness counts the calls), so `helper` is the formula the engine runs; helper_guarded is what the guard
   would do, and Summary_undo_proofs shows that undo does not depend on it. *)
Definition helper_guarded (kinds : list kind) (stale : list Z) (summ : list mrow) (cells : list cell)
  : list mrow * list Z :=
  match row_keys kinds cells with
  | None => (summ, stale)
  | Some ks => (summ, found_ids summ ks)
  end.

(* ------------------------------------------------------------------ one _bring_all_up_to_date *)

(* entry of the helper column's lookup map for a source record (nothing: the empty entry) *)
Fixpoint entry (prev : list (Z * list Z)) (rid : Z) : list Z :=
  match prev with
  | [] => []
  | p :: t => if Z.eqb (fst p) rid then snd p else entry t rid
  end.

(* The helper cells are evaluated in ascending row id order (Engine._recompute_step); every one is
   re-evaluated here (the engine re-evaluates the dirty ones; for a record whose cells did not change the
   evaluation finds the rows it found before: Summary_proofs.helper_list_valid, pass_d_full). *)
Fixpoint pass (kinds : list kind) (prev : list (Z * list Z)) (src : list srow) (summ : list mrow)
  : list mrow * list (Z * list Z) :=
  match src with
  | [] => (summ, [])
  | r :: t =>
      let '(s1, h) := helper kinds (entry prev (fst r)) summ (snd r) in
      let '(s2, hs) := pass kinds prev t s1 in
      (s2, (fst r, h) :: hs)
  end.

(* Table.getSummarySourceGroup(rec): lookup_records on the helper column (rec, or CONTAINS(rec)), sorted by
   row id; the entries are listed in source row order *)
Definition group_of (hs : list (Z * list Z)) (i : Z) : list Z :=
  map fst (filter (fun rh => mem_z i (snd rh)) hs).

Definition with_groups (summ : list mrow) (hs : list (Z * list Z)) : list orow :=
  map (fun r => (fst r, snd r, group_of hs (fst r))) summ.

Definition nonempty_group (r : orow) : bool := match snd r with [] => false | _ => true end.

(* docmodel.apply_auto_removes(): BulkRemoveRecord of the rows whose group was empty *)
Definition auto_remove (rows : list orow) : list mrow := map fst (filter nonempty_group rows).

(* Engine.apply_user_actions:
     self._bring_all_up_to_date()
     while self.docmodel.apply_auto_removes():
       self._bring_all_up_to_date()
   None: out of fuel (Props/C12.v, C12_settle_terminates: never with fuel >= 2). *)
Fixpoint settle_loop (fuel : nat) (kinds : list kind) (prev : list (Z * list Z)) (src : list srow)
  (summ : list mrow) : option (list orow) :=
  match fuel with
  | O => None
  | S f =>
      let '(s1, hs) := pass kinds prev src summ in
      let rows := with_groups s1 hs in
      if forallb nonempty_group rows then Some rows
      else settle_loop f kinds hs src (auto_remove rows)
  end.

Definition settle := settle_loop 8.

(* ------------------------------------------------------------------ the incremental engine

   The engine re-evaluates only the helper cells that are dirty (their record's group-by cells changed, or a
   key they looked up gained or lost a summary row: lookup.py, _LookupRelation).  pass_d evaluates the records
   whose id is in `dirty` and leaves the entries of the others alone; settle_trace runs the settle loop with one
   dirty set per _bring_all_up_to_date (recorded from the running engine by the harness; the rounds are those of
   the whole document, so a table may see rounds in which nothing of it is removed).  None: rows with an empty
   group are left after the last recorded round (the engine would have made another one).
   Summary_proofs.settle_trace_full: when the entries of the records that are not re-evaluated in the first
   round are what an evaluation would give (clean_valid), settle_trace computes exactly what settle_loop does. *)
Fixpoint pass_d (kinds : list kind) (dirty : list Z) (prev : list (Z * list Z)) (src : list srow)
  (summ : list mrow) : list mrow * list (Z * list Z) :=
  match src with
  | [] => (summ, [])
  | r :: t =>
      let '(s1, h) := if mem_z (fst r) dirty then helper kinds (entry prev (fst r)) summ (snd r)
                      else (summ, entry prev (fst r)) in
      let '(s2, hs) := pass_d kinds dirty prev t s1 in
      (s2, (fst r, h) :: hs)
  end.

Fixpoint settle_trace (kinds : list kind) (prev : list (Z * list Z)) (src : list srow) (summ : list mrow)
  (dirties : list (list Z)) : option (list orow) :=
  match dirties with
  | [] => None
  | d :: rest =>
      let '(s1, hs) := pass_d kinds d prev src summ in
      let rows := with_groups s1 hs in
      match rest with
      | [] => if forallb nonempty_group rows then Some rows else None
      | _ => settle_trace kinds hs src (auto_remove rows) rest
      end
  end.

(* the same, also returning the entries of the helper column at the end (the state the next bundle starts from) *)
Fixpoint settle_trace_st (kinds : list kind) (prev : list (Z * list Z)) (src : list srow) (summ : list mrow)
  (dirties : list (list Z)) : option (list mrow * list (Z * list Z)) :=
  match dirties with
  | [] => None
  | d :: rest =>
      let '(s1, hs) := pass_d kinds d prev src summ in
      let rows := with_groups s1 hs in
      match rest with
      | [] => if forallb nonempty_group rows then Some (s1, hs) else None
      | _ => settle_trace_st kinds hs src (auto_remove rows) rest
      end
  end.

(* ------------------------------------------------------------------ rounds with a changing environment

   With chained summary tables (a Reference column into summary table S1 is a group-by column of summary table
   S2) the auto-removal of a row of S1 rewrites, between two rounds, the references to it: source cells of S2's
   source table and key cells of S2 itself (reference clean-up of BulkRemoveRecord, outside this model).  A
   recorded round therefore carries the source cells as the helper formulas saw them in that round and the
   summary rows as the engine had them when the round began; the model's own table must have exactly those row
   ids (the keys are taken from the record).  Summary_proofs.settle_rounds_const: when nothing is rewritten and
   the cells are evaluated in ascending row id order this is settle_trace. *)
Definition round := (list Z * list srow * list mrow)%type.     (* evaluated ids in order, source rows, summary rows at the start *)

(* The helper cells a round evaluates, in the order the engine evaluated them (ascending row ids, except that a
   cell another formula needs first is evaluated first; a cell may be evaluated again).  The newest entry of a
   record is consed in front (entry finds it first). *)
Fixpoint cells_of (src : list srow) (rid : Z) : option (list cell) :=
  match src with
  | [] => None
  | r :: t => if Z.eqb (fst r) rid then Some (snd r) else cells_of t rid
  end.

Fixpoint eval_list (kinds : list kind) (src : list srow) (order : list Z) (summ : list mrow)
  (hs : list (Z * list Z)) : list mrow * list (Z * list Z) :=
  match order with
  | [] => (summ, hs)
  | rid :: t =>
      match cells_of src rid with
      | None => eval_list kinds src t summ hs
      | Some cells =>
          let '(s1, h) := helper kinds (entry hs rid) summ cells in
          eval_list kinds src t s1 ((rid, h) :: hs)
      end
  end.

Definition pass_o (kinds : list kind) (order : list Z) (prev : list (Z * list Z)) (src : list srow)
  (summ : list mrow) : list mrow * list (Z * list Z) :=
  let '(s1, hs) := eval_list kinds src order summ prev in
  (s1, map (fun r => (fst r, entry hs (fst r))) src).

Fixpoint settle_rounds (kinds : list kind) (prev : list (Z * list Z)) (summ : list mrow) (rounds : list round)
  : option (list orow) :=
  match rounds with
  | [] => None
  | (d, src, start) :: rest =>
      if zs_eqb (map fst summ) (map fst start) then
        let '(s1, hs) := pass_o kinds d prev src start in
        let rows := with_groups s1 hs in
        match rest with
        | [] => if forallb nonempty_group rows then Some rows else None
        | _ => settle_rounds kinds hs (auto_remove rows) rest
        end
      else None
  end.

(* ------------------------------------------------------------------ for the correspondence check *)

Definition orow_eqb (a b : orow) : bool :=
  Z.eqb (fst (fst a)) (fst (fst b)) && key_eqb (snd (fst a)) (snd (fst b)) && zs_eqb (snd a) (snd b).

Fixpoint orows_eqb (a b : list orow) : bool :=
  match a, b with
  | [], [] => true
  | x :: a', y :: b' => orow_eqb x y && orows_eqb a' b'
  | _, _ => false
  end.

Definition first_start (rounds : list round) : list mrow :=
  match rounds with [] => [] | r :: _ => snd r end.

Definition last_src (rounds : list round) : list srow := snd (fst (last rounds ([], [], []))).

(* case: ((kinds, prev, rounds), expected rows) *)
Definition check_case (c : (list kind * list (Z * list Z) * list round) * list orow) : bool :=
  let '(kinds, prev, rounds, expect) := c in
  match settle_rounds kinds prev (first_start rounds) rounds with
  | Some rows => orows_eqb rows expect
  | None => false
  end.

(* the same with every helper cell re-evaluated in every round (settle_loop), on the final source cells *)
Definition check_case_full (c : (list kind * list (Z * list Z) * list round) * list orow) : bool :=
  let '(kinds, prev, rounds, expect) := c in
  match settle kinds prev (last_src rounds) (first_start rounds) with
  | Some rows => orows_eqb rows expect
  | None => false
  end.

(* ------------------------------------------------------------------ monitor of the hypothesis clean_valid

   Summary_proofs.clean_valid (the entries of the records that the first round does not re-evaluate are what an
   evaluation would give) as a boolean, evaluated by the harness on every recorded bundle
   (Summary_inc_proofs.clean_validb_sound). *)
Definition hspecb (kinds : list kind) (summ : list mrow) (cells : list cell) (h : list Z) : bool :=
  match row_keys kinds cells with
  | None => true
  | Some ks =>
      forallb (fun k => match first_match summ k with Some i => mem_z i h | None => false end) ks &&
      forallb (fun i => existsb (fun k => match first_match summ k with Some j => Z.eqb i j | None => false end) ks) h
  end.

Definition clean_validb (kinds : list kind) (d : list Z) (prev : list (Z * list Z)) (src : list srow)
  (summ : list mrow) : bool :=
  forallb (fun r => mem_z (fst r) d || hspecb kinds summ (snd r) (entry prev (fst r))) src.

Definition check_clean_valid (c : (list kind * list (Z * list Z) * list round) * list orow) : bool :=
  let '(kinds, prev, rounds, _) := c in
  match rounds with
  | [] => true
  | (o, src, start) :: _ => clean_validb kinds o prev src start
  end.

(* clean_valid at the start of EVERY recorded round (the entries are those the model has after the rounds
   before) *)
Fixpoint rounds_cv (kinds : list kind) (prev : list (Z * list Z)) (rounds : list round) : bool :=
  match rounds with
  | [] => true
  | (o, src, start) :: rest =>
      clean_validb kinds o prev src start &&
      (let '(s1, hs) := pass_o kinds o prev src start in
       match rest with [] => true | _ => rounds_cv kinds hs rest end)
  end.

Definition check_clean_valid_all (c : (list kind * list (Z * list Z) * list round) * list orow) : bool :=
  let '(kinds, prev, rounds, _) := c in rounds_cv kinds prev rounds.

(* ------------------------------------------------------------------ vocabulary of the statements *)

(* the keys a source record has (none when its helper formula raises) *)
Definition keys_of (kinds : list kind) (cells : list cell) : list key :=
  match row_keys kinds cells with Some ks => ks | None => [] end.

(* no helper formula raises: every group-by cell can be read and every scalar one is hashable *)
Definition no_raise (kinds : list kind) (src : list srow) : Prop :=
  forall r, In r src -> row_keys kinds (snd r) <> None.

Definition okey (r : orow) : key := snd (fst r).
Definition oid (r : orow) : Z := fst (fst r).
Definition ogroup (r : orow) : list Z := snd r.

(* the source rows having key k, in source order *)
Definition rows_with_key (kinds : list kind) (src : list srow) (k : key) : list Z :=
  map fst (filter (fun r => mem_key k (keys_of kinds (snd r))) src).

(* what a cell contributes to a key, as the property states it: a scalar cell its value; a list-valued cell of
   a list-typed column each of its elements, an empty one ''/0; a non-list value in a list-typed column nothing *)
Definition elem_of (kd : kind) (c : cell) (a : atom) : Prop :=
  match kd, c with
  | KScalar, CAtom a' => a = a'
  | KScalar, _ => False
  | _, CSeq l => (l = [] /\ a = empty_value kd) \/ In a l
  | _, _ => False
  end.

Definition key_of_cells (kinds : list kind) (cells : list cell) (k : key) : Prop :=
  Forall2 (fun a kc => elem_of (fst kc) (snd kc) a) k (combine kinds cells).

(* every group-by cell can be read and every scalar one is hashable *)
Definition cells_ok (kinds : list kind) (cells : list cell) : Prop :=
  Forall2 (fun kd c => c <> CError /\ (kd = KScalar -> exists a, c = CAtom a)) kinds cells.
