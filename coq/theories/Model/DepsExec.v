(* Executable model of depend.Graph (add_edge, clear_dependencies, reset_dependencies,
   invalidate_deps) and of the state changes of the relation objects (relation.py, lookup.py). *)
From Coq Require Import ZArith List Bool Lia.
Import ListNotations.
Require Import Grist.Model.Deps Grist.Model.DepsSpec.
Open Scope Z_scope.

Definition e_out (e : edge) : node := fst (fst e).
Definition e_in (e : edge) : node := snd (fst e).
Definition e_rel (e : edge) : rel := snd e.

Definition edge_eqb (a b : edge) : bool :=
  Z.eqb (e_out a) (e_out b) && Z.eqb (e_in a) (e_in b) && rel_eqb (e_rel a) (e_rel b).

(* Graph.add_edge: _all_edges is a set *)
Definition add_edge (E : list edge) (e : edge) : list edge :=
  if existsb (edge_eqb e) E then E else E ++ [e].

Definition set_lkrows (R : relst) (m n : node) (l : list (row * Z)) : relst :=
  mkR (inv R)
      (fun m' n' => if Z.eqb m' m && Z.eqb n' n then l else lkrows R m' n')
      (lkkeys R).

(* Relation.reset_rows(referring_rows): only _LookupRelation keeps per-referring-row state;
   ComposedRelation passes the call to its source (referring-side) relation *)
Fixpoint reset_rows (R : relst) (r : rel) (x : rowset) : relst :=
  match r with
  | RLook m n =>
      match x with
      | AllRows => set_lkrows R m n []
      | Rows l => set_lkrows R m n (filter (fun p => negb (zmem (fst p) l)) (lkrows R m n))
      end
  | RComp a _ => reset_rows R a x
  | _ => R
  end.

(* Relation.reset_all = reset_rows(ALL_ROWS); _LookupRelation.reset_all also unregisters the
   relation from its tracker, which for the row mapping is the same as holding no rows *)
Definition reset_all (R : relst) (r : rel) : relst := reset_rows R r AllRows.

(* Graph.reset_dependencies(node, dirty_rows) *)
Definition reset_dependencies (E : list edge) (R : relst) (n : node) (x : rowset) : relst :=
  fold_left (fun R e => if Z.eqb (e_out e) n then reset_rows R (e_rel e) x else R) E R.

(* Graph.clear_dependencies(out_node) *)
Definition clear_dependencies (E : list edge) (R : relst) (n : node) : list edge * relst :=
  (filter (fun e => negb (Z.eqb (e_out e) n)) E,
   fold_left (fun R e => if Z.eqb (e_out e) n then reset_all R (e_rel e) else R) E R).

(* recompute_map: node -> rows to recompute ([None]: node absent) *)
Record gst := mkG {
  g_edges : list edge;
  g_rel : relst;
  g_map : node -> option rowset;
  g_nodes : list node            (* nodes that were given an entry, most recent first *)
}.

Definition is_all (o : option rowset) : bool :=
  match o with Some AllRows => true | _ => false end.

Definition map_set (M : node -> option rowset) (n : node) (x : rowset) : node -> option rowset :=
  fun n' => if Z.eqb n' n then Some x else M n'.

Definition in_map (M : node -> option rowset) (c : cell) : bool :=
  match M (fst c) with Some x => in_rowset (snd c) x | None => false end.

(* pushes of one iteration: for edge in _in_node_map[dirty_node]: append (out_node, affected) *)
Definition pushes (E : list edge) (R : relst) (n : node) (x : rowset) : list (node * rowset) :=
  map (fun e => (e_out e, affected R (e_rel e) x)) (filter (fun e => Z.eqb (e_in e) n) E).

(* Graph.invalidate_deps: the stack is a list whose HEAD is the item popped next *)
Fixpoint inval (fuel : nat) (g : gst) (stack : list (node * rowset)) (incl : bool) : option gst :=
  match fuel with
  | O => None
  | S f =>
    match stack with
    | [] => Some g
    | (n, x) :: rest =>
      let go g' := inval f g' (rev (pushes (g_edges g') (g_rel g') n x) ++ rest) true in
      if negb incl then go g
      else if is_all (g_map g n) then inval f g rest true
      else match x with
      | AllRows =>
          let '(E', R') := clear_dependencies (g_edges g) (g_rel g) n in
          go (mkG E' R' (map_set (g_map g) n AllRows) (n :: g_nodes g))
      | Rows l =>
          let old := match g_map g n with Some (Rows o) => o | _ => [] end in
          let g1 := mkG (g_edges g) (g_rel g) (map_set (g_map g) n (Rows (old ++ l))) (n :: g_nodes g) in
          if existsb (fun r => negb (zmem r old)) l then go g1 else inval f g1 rest true
      end
    end
  end.

(* Engine.invalidate_column(col, rows): include_self = the column is a formula column *)
Definition invalidate_deps (fuel : nat) (g : gst) (n : node) (x : rowset) (incl : bool) : option gst :=
  inval fuel g [(n, x)] incl.
