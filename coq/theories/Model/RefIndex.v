(* K4, part 1 -- Reference / ReferenceList column cells with the reverse index of their ReferenceRelation.

   Executable model (no proofs) of /repo/sandbox/grist/column.py
     BaseReferenceColumn.{set, unset (BaseColumn), clear (BaseColumn), copy_from_column, _update_references,
       get_updates_for_removed_target_rows, _raw_get_without}, ReferenceColumn / ReferenceListColumn
       {_value_iterable, _clean_up_value, _raw_get_without}, usertypes Reference/ReferenceList.is_right_type,
   relation.py ReferenceRelation.{inverse_map, add_reference, remove_reference, get_affected_rows, clear},
   docactions.py BulkRemoveRecord / BulkUpdateRecord (the part that touches reference columns) and
   useractions.py doBulkRemoveRecord (cleanup of referring cells).

   Cell values: None, ints, lists of ints, strings (what column.convert produces for every user-action input).
   Row ids are positions in the column's _data list (nat); targets are Python ints (Z).
   A Python set of row ids is a strictly increasing list; inverse_map is an association list in insertion
   order (a key stays once created, possibly with an empty set, as in the dict).
   Errors the code raises are explicit results. *)
From Coq Require Import ZArith List Bool Arith Lia.
Import ListNotations.

Inductive cell :=
| CNone
| CInt (z : Z)
| CList (l : list Z)
| CStr (s : list Z).

Inductive kind := KRef | KRefList.

Inductive err := EKeyError | ETypeError | ENoRow | EUnique.

Inductive res (A : Type) :=
| Ok (a : A)
| Err (e : err).
Arguments Ok {A} a.
Arguments Err {A} e.

Definition bind {A B} (x : res A) (f : A -> res B) : res B :=
  match x with Ok a => f a | Err e => Err e end.

Fixpoint list_eqb {A} (eqb : A -> A -> bool) (x y : list A) : bool :=
  match x, y with
  | [], [] => true
  | a :: x', b :: y' => eqb a b && list_eqb eqb x' y'
  | _, _ => false
  end.

(* Python == on the modelled values *)
Definition cell_eqb (a b : cell) : bool :=
  match a, b with
  | CNone, CNone => true
  | CInt x, CInt y => Z.eqb x y
  | CList x, CList y => list_eqb Z.eqb x y
  | CStr x, CStr y => list_eqb Z.eqb x y
  | _, _ => false
  end.

Definition kind_eqb (a b : kind) : bool :=
  match a, b with KRef, KRef => true | KRefList, KRefList => true | _, _ => false end.

(* objtypes.is_int_short *)
Definition is_int_short (z : Z) : bool := ((-2147483648) <=? z)%Z && (z <? 2147483648)%Z.

(* usertypes.Reference.is_right_type / ReferenceList.is_right_type *)
Definition right_type (k : kind) (c : cell) : bool :=
  match k, c with
  | KRef, CInt z => is_int_short z
  | KRefList, CNone => true
  | KRefList, CList l => forallb is_int_short l
  | _, _ => false
  end.

(* type_obj.default: 0 for Ref, None for RefList *)
Definition default (k : kind) : cell := match k with KRef => CInt 0 | KRefList => CNone end.

(* Python truthiness *)
Definition truthy (c : cell) : bool :=
  match c with
  | CNone => false
  | CInt z => negb (z =? 0)%Z
  | CList l => match l with [] => false | _ => true end
  | CStr s => match s with [] => false | _ => true end
  end.

(* _value_iterable: the targets a cell refers to *)
Definition value_iterable (k : kind) (c : cell) : list Z :=
  if truthy c && right_type k c then
    match c with CInt z => [z] | CList l => l | _ => [] end
  else [].

(* ---- sets of row ids: strictly increasing lists ------------------------------------------------ *)
Fixpoint set_add (r : nat) (s : list nat) : list nat :=
  match s with
  | [] => [r]
  | x :: t => if r <? x then r :: s else if r =? x then s else x :: set_add r t
  end.

Fixpoint set_discard (r : nat) (s : list nat) : list nat :=
  match s with
  | [] => []
  | x :: t => if r =? x then t else x :: set_discard r t
  end.

Definition set_union (a b : list nat) : list nat := fold_left (fun acc r => set_add r acc) b a.

Definition memZ (t : Z) (l : list Z) : bool := existsb (Z.eqb t) l.
Definition memN (r : nat) (l : list nat) : bool := existsb (Nat.eqb r) l.

(* ---- ReferenceRelation.inverse_map ------------------------------------------------------------- *)
Definition invmap := list (Z * list nat).

Fixpoint inv_find (t : Z) (m : invmap) : option (list nat) :=
  match m with
  | [] => None
  | (k, s) :: m' => if Z.eqb t k then Some s else inv_find t m'
  end.

(* inverse_map.get(t, ()) *)
Definition inv_get (t : Z) (m : invmap) : list nat :=
  match inv_find t m with Some s => s | None => [] end.

Fixpoint inv_put (t : Z) (s : list nat) (m : invmap) : invmap :=
  match m with
  | [] => [(t, s)]
  | (k, s0) :: m' => if Z.eqb t k then (k, s) :: m' else (k, s0) :: inv_put t s m'
  end.

(* add_reference: inverse_map.setdefault(target, set()).add(row) *)
Definition add_reference (r : nat) (t : Z) (m : invmap) : invmap := inv_put t (set_add r (inv_get t m)) m.

(* remove_reference: inverse_map[target].discard(row) -- KeyError when the key is missing *)
Definition remove_reference (r : nat) (t : Z) (m : invmap) : res invmap :=
  match inv_find t m with
  | Some s => Ok (inv_put t (set_discard r s) m)
  | None => Err EKeyError
  end.

(* get_affected_rows(targets): union of the sets; callers sort it *)
Definition get_affected_rows (targets : list Z) (m : invmap) : list nat :=
  fold_left (fun acc t => set_union acc (inv_get t m)) targets [].

(* ---- the column ---------------------------------------------------------------------------------- *)
Record refcol := { rc_kind : kind; rc_data : list cell; rc_inv : invmap }.

Definition col_new (k : kind) : refcol := {| rc_kind := k; rc_data := [default k]; rc_inv := [] |}.

(* BaseColumn.raw_get: _data[row] or the default past the end *)
Definition raw_get (c : refcol) (r : nat) : cell := nth r (rc_data c) (default (rc_kind c)).

(* BaseColumn.safe_get *)
Definition safe_get (c : refcol) (r : nat) : cell :=
  let v := raw_get c r in if right_type (rc_kind c) v then v else default (rc_kind c).

(* the targets row r refers to *)
Definition refs (c : refcol) (r : nat) : list Z := value_iterable (rc_kind c) (raw_get c r).

(* BaseColumn.growto *)
Definition growto (n : nat) (d : cell) (data : list cell) : list cell := data ++ repeat d (n - length data).

Fixpoint list_set {A} (i : nat) (v : A) (l : list A) : list A :=
  match l, i with
  | [], _ => []
  | _ :: t, O => v :: t
  | x :: t, S i' => x :: list_set i' v t
  end.

Fixpoint mapM {A B} (f : A -> res B) (l : list A) : res (list B) :=
  match l with
  | [] => Ok []
  | x :: t => bind (f x) (fun y => bind (mapM f t) (fun ys => Ok (y :: ys)))
  end.

Section Column.
  (* ReferenceListColumn._clean_up_value on a str: the JSON list of positive ints / "RecordList([..])" text it
     parses to, if any (json.loads and RecordList.from_repr are library code: an uninterpreted function,
     tabulated from the running code for the strings of each case). *)
  Variable hack : list Z -> option (list Z).

  Definition clean_up (k : kind) (v : cell) : cell :=
    match k, v with
    | KRefList, CStr s => match hack s with Some l => CList l | None => v end
    | _, _ => v
    end.

  (* _update_references(row, old, new) *)
  Definition update_references (k : kind) (r : nat) (old new : cell) (m : invmap) : res invmap :=
    bind (fold_left (fun acc t => bind acc (remove_reference r t)) (value_iterable k old) (Ok m))
         (fun m1 => Ok (fold_left (fun m2 t => add_reference r t m2) (value_iterable k new) m1)).

  (* BaseReferenceColumn.set *)
  Definition col_set (c : refcol) (r : nat) (v : cell) : res refcol :=
    let k := rc_kind c in
    let old := safe_get c r in
    let data' := list_set r (clean_up k v) (growto (S r) (default k) (rc_data c)) in
    let c1 := {| rc_kind := k; rc_data := data'; rc_inv := rc_inv c |} in
    let new := safe_get c1 r in
    bind (update_references k r old new (rc_inv c))
         (fun m => Ok {| rc_kind := k; rc_data := data'; rc_inv := m |}).

  (* BaseColumn.unset *)
  Definition col_unset (c : refcol) (r : nat) : res refcol := col_set c r (default (rc_kind c)).

  (* clear as it was BEFORE /repo commit 474dc3f (BaseColumn.clear, not overridden by BaseReferenceColumn): the
     relation kept its entries.  Kept for the regression examples of Props/C10.v only. *)
  Definition col_clear (c : refcol) : refcol :=
    {| rc_kind := rc_kind c; rc_data := [default (rc_kind c)]; rc_inv := rc_inv c |}.

  (* BaseReferenceColumn.clear (since 474dc3f): the cells and the relation are both reset *)
  Definition col_clear_fixed (c : refcol) : refcol :=
    {| rc_kind := rc_kind c; rc_data := [default (rc_kind c)]; rc_inv := [] |}.

  (* BaseReferenceColumn.copy_from_column: data replaced, relation cleared and rebuilt *)
  Definition rebuild_inv (k : kind) (data : list cell) : invmap :=
    fold_left (fun m rv => if right_type k (snd rv)
                           then fold_left (fun m2 t => add_reference (fst rv) t m2) (value_iterable k (snd rv)) m
                           else m)
              (combine (seq 0 (length data)) data) [].

  Definition col_copy_from (c : refcol) (data : list cell) : refcol :=
    {| rc_kind := rc_kind c; rc_data := data; rc_inv := rebuild_inv (rc_kind c) data |}.

  (* BaseColumn.growto (table.grow_to_max, add_records): more default cells, nothing else *)
  Definition col_grow (c : refcol) (n : nat) : refcol :=
    {| rc_kind := rc_kind c; rc_data := growto n (default (rc_kind c)) (rc_data c); rc_inv := rc_inv c |}.

  Inductive op := OSet (r : nat) (v : cell) | OUnset (r : nat) | OCopy (data : list cell) | OClear | OGrow (n : nat).

  Definition apply_op (fixed_clear : bool) (c : refcol) (o : op) : res refcol :=
    match o with
    | OSet r v => col_set c r v
    | OUnset r => col_unset c r
    | OCopy d => Ok (col_copy_from c d)
    | OClear => Ok (if fixed_clear then col_clear_fixed c else col_clear c)
    | OGrow n => Ok (col_grow c n)
    end.

  Definition run_from (fixed_clear : bool) (c : refcol) (ops : list op) : res refcol :=
    fold_left (fun acc o => bind acc (fun c' => apply_op fixed_clear c' o)) ops (Ok c).

  (* the code as it is: clear resets the relation *)
  Definition run (k : kind) (ops : list op) : res refcol := run_from true (col_new k) ops.
  (* the code before 474dc3f *)
  Definition run_old (k : kind) (ops : list op) : res refcol := run_from false (col_new k) ops.

  (* _raw_get_without *)
  Definition raw_get_without (c : refcol) (r : nat) (targets : list Z) : res cell :=
    match rc_kind c with
    | KRef => Ok (default KRef)
    | KRefList =>
        let raw := raw_get c r in
        if right_type KRefList raw then
          match raw with
          | CList l => Ok (match filter (fun t => negb (memZ t targets)) l with [] => CNone | l' => CList l' end)
          | CNone => Err ETypeError         (* [r for r in None ...] *)
          | _ => Ok raw
          end
        else Ok raw
    end.

  (* get_updates_for_removed_target_rows *)
  Definition get_updates (c : refcol) (targets : list Z) : res (list (nat * cell)) :=
    mapM (fun r => bind (raw_get_without c r targets) (fun v => Ok (r, v)))
         (get_affected_rows targets (rc_inv c)).

  (* docactions.BulkUpdateRecord on one column: every row must exist, then set in order *)
  Definition doc_bulk_update (table_rows : list nat) (c : refcol) (rs : list nat) (vs : list cell) : res refcol :=
    if forallb (fun r => memN r table_rows) rs
    then fold_left (fun acc rv => bind acc (fun c' => col_set c' (fst rv) (snd rv))) (combine rs vs) (Ok c)
    else Err ENoRow.

  (* ---- doBulkRemoveRecord on table T ---------------------------------------------------------------
     The columns that matter: the data Ref/RefList columns OF T (w_own: the doc action unsets the removed rows
     in every column of T) and the data Ref/RefList columns TARGETING T (w_back: table._back_references);
     a self-reference is both.  w_rows: the row ids of the column's own table when it is not T. *)
  Record wcol := { w_col : refcol; w_rows : list nat; w_own : bool; w_back : bool }.
  Record world := { wd_rows : list nat; wd_cols : list wcol }.

  Definition remove_one (trows' existing : list nat) (targets : list Z) (w : wcol) : res wcol :=
    (* docactions.BulkRemoveRecord: unset the removed rows in the table's own columns *)
    bind (if w_own w
          then fold_left (fun acc r => bind acc (fun c' => col_unset c' r)) existing (Ok (w_col w))
          else Ok (w_col w))
    (fun c1 =>
    let rows := if w_own w then trows' else w_rows w in
    (* cleanup of referring cells *)
    bind (if w_back w
          then bind (get_updates c1 targets)
                 (fun ups => match ups with
                             | [] => Ok c1
                             | _ => doc_bulk_update rows c1 (map fst ups) (map snd ups)
                             end)
          else Ok c1)
    (fun c2 => Ok {| w_col := c2; w_rows := rows; w_own := w_own w; w_back := w_back w |})).

  Definition remove_rows (wd : world) (removed : list nat) : res world :=
    let existing := filter (fun r => memN r (wd_rows wd)) removed in
    let trows' := filter (fun r => negb (memN r removed)) (wd_rows wd) in
    bind (mapM (remove_one trows' existing (map Z.of_nat removed)) (wd_cols wd))
         (fun cols => Ok {| wd_rows := trows'; wd_cols := cols |}).

  (* ---- ReplaceTableData on table T (doBulkAddOrReplace(replace=True) -> docactions.ReplaceTableData ->
     Engine.load_table): every column of T is cleared and filled with the given values for the new row ids
     (vals: one value list per own column, in order).  Nothing is done about the columns that target T. *)
  Definition load_column (c : refcol) (rows : list nat) (vals : list cell) : res refcol :=
    fold_left (fun acc rv => bind acc (fun c' => col_set c' (fst rv) (snd rv))) (combine rows vals)
              (Ok (col_clear_fixed c)).

  Fixpoint replace_cols (cols : list wcol) (rows : list nat) (vals : list (list cell)) : res (list wcol) :=
    match cols with
    | [] => Ok []
    | w :: cols' =>
        if w_own w then
          let v := match vals with v :: _ => v | [] => [] end in
          bind (load_column (w_col w) rows v)
               (fun c => bind (replace_cols cols' rows (tl vals))
                              (fun rest => Ok ({| w_col := c; w_rows := rows; w_own := true; w_back := w_back w |} :: rest)))
        else bind (replace_cols cols' rows vals) (fun rest => Ok (w :: rest))
    end.

  Definition replace_table_data (wd : world) (rows : list nat) (vals : list (list cell)) : res world :=
    bind (replace_cols (wd_cols wd) rows vals) (fun cols => Ok {| wd_rows := rows; wd_cols := cols |}).

End Column.

(* what the cleanup must produce for a cell: the removed targets filtered out, in order; an emptied list
   becomes None, a Ref becomes 0; wrong-type cells (alt text) are left alone *)
Definition cell_without (k : kind) (v : cell) (targets : list Z) : cell :=
  match k, v with
  | KRef, CInt z => if is_int_short z && memZ z targets then CInt 0 else v
  | KRefList, CList l =>
      if forallb is_int_short l
      then match filter (fun t => negb (memZ t targets)) l with
           | [] => match l with [] => v | _ => CNone end
           | l' => CList l'
           end
      else v
  | _, _ => v
  end.

(* ---- helpers for the correspondence cases -------------------------------------------------------- *)
Fixpoint hack_of (tbl : list (list Z * list Z)) (s : list Z) : option (list Z) :=
  match tbl with
  | [] => None
  | (k, v) :: t => if list_eqb Z.eqb s k then Some v else hack_of t s
  end.

Definition inv_eqb (a b : invmap) : bool :=
  list_eqb (fun x y => Z.eqb (fst x) (fst y) && list_eqb Nat.eqb (snd x) (snd y)) a b.

Definition col_eqb (a b : refcol) : bool :=
  kind_eqb (rc_kind a) (rc_kind b) && list_eqb cell_eqb (rc_data a) (rc_data b) && inv_eqb (rc_inv a) (rc_inv b).

Definition err_eqb (a b : err) : bool :=
  match a, b with
  | EKeyError, EKeyError | ETypeError, ETypeError | ENoRow, ENoRow | EUnique, EUnique => true
  | _, _ => false
  end.

Definition res_eqb {A} (eqb : A -> A -> bool) (a b : res A) : bool :=
  match a, b with
  | Ok x, Ok y => eqb x y
  | Err x, Err y => err_eqb x y
  | _, _ => false
  end.

Definition wcol_eqb (a b : wcol) : bool :=
  col_eqb (w_col a) (w_col b) && list_eqb Nat.eqb (w_rows a) (w_rows b) &&
  Bool.eqb (w_own a) (w_own b) && Bool.eqb (w_back a) (w_back b).

Definition world_eqb (a b : world) : bool :=
  list_eqb Nat.eqb (wd_rows a) (wd_rows b) && list_eqb wcol_eqb (wd_cols a) (wd_cols b).
