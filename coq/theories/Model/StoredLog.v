(* StoredLog -- executable model of how the data engine records stored doc actions and their `direct`
   flags (C02, C31).  Definitions only; the lemmas are in Proofs/StoredLog_proofs.v.

   Sources followed (sandbox/grist):
     table_data_set.py   TableDataSet            -> tds_apply            (the independent interpreter)
     docactions.py       DocActions.*            -> eng_apply, sum_apply (effect on the engine's document, on
                                                                          the ActionSummary)
     action_summary.py   ActionSummary, LabelRenames, _changes_to_actions (stored half)
     action_obj.py       ActionGroup.flush_calc_changes(_for_column)     -> flush_all, flush_col
     actions.py          prune_actions, simplify
     useractions.py      UserActions._do_doc_action  (append to stored and direct, then apply)
     engine.py           Engine._undo_to_checkpoint  (trimming of stored/direct)

   Abstraction.  A document is its tables, their row ids, and for every public column its type and cells.
   Cell values enter the bookkeeping only through equality (objtypes.equal_encoding on values, i.e. equality
   of the encoded values Node sees), so a value is an opaque integer: the harness numbers the distinct
   canonical encodings occurring in a trace (injectively), with fixed numbers for the type defaults.
   Strings (table/column ids, types) are lists of code points.  The undo half of the summary is C01's
   and is not modelled here (the rename maps and _rows_present_before are carried but never read). *)
From Coq Require Import ZArith List Bool.
Import ListNotations.
Open Scope Z_scope.

Definition str := list Z.
Definition V := Z.

Inductive res (A : Type) : Type :=
| Ok (a : A)
| Err (code : Z).
Arguments Ok {A} a.
Arguments Err {A} code.

(* error codes *)
Definition E_MALFORMED := 1.      (* outside the modelled domain (see action_ok) *)
Definition E_KEY := 2.            (* KeyError / missing table, column or row *)
Definition E_ASSERT := 3.         (* an assert of docactions.py *)
Definition E_TYPE := 4.           (* TypeError (prune_actions on an AddTable) *)

(* ------------------------------------------------------------------------------------------------ *)
(* strings *)

Fixpoint str_eqb (a b : str) : bool :=
  match a, b with
  | [], [] => true
  | x :: a', y :: b' => Z.eqb x y && str_eqb a' b'
  | _, _ => false
  end.

(* Python's < on str: lexicographic by code point *)
Fixpoint str_ltb (a b : str) : bool :=
  match a, b with
  | [], [] => false
  | [], _ :: _ => true
  | _ :: _, [] => false
  | x :: a', y :: b' => if Z.ltb x y then true else if Z.eqb x y then str_ltb a' b' else false
  end.

(* action_summary.defunct_name / is_defunct / root_name ('-' is 45) *)
Definition defunct_name (n : str) : str := 45 :: n.
Definition is_defunct (n : str) : bool := match n with 45 :: _ => true | _ => false end.
Definition root_name (n : str) : str := match n with 45 :: r => r | _ => n end.

(* ------------------------------------------------------------------------------------------------ *)
(* association lists used as Python dicts *)

Section Assoc.
  Context {K A : Type} (eqb : K -> K -> bool).
  Fixpoint aget (k : K) (l : list (K * A)) : option A :=
    match l with
    | [] => None
    | p :: l' => if eqb (fst p) k then Some (snd p) else aget k l'
    end.
  Definition amem (k : K) (l : list (K * A)) : bool :=
    match aget k l with Some _ => true | None => false end.
  Definition adel (k : K) (l : list (K * A)) : list (K * A) :=
    filter (fun p => negb (eqb (fst p) k)) l.
  Definition aset (k : K) (v : A) (l : list (K * A)) : list (K * A) := (k, v) :: adel k l.
End Assoc.

Definition zmem (r : Z) (l : list Z) : bool := existsb (Z.eqb r) l.
Definition smem (s : str) (l : list str) : bool := existsb (str_eqb s) l.

Fixpoint nodupb {A} (mem : A -> list A -> bool) (l : list A) : bool :=
  match l with
  | [] => true
  | x :: l' => negb (mem x l') && nodupb mem l'
  end.

(* first occurrences, in order *)
Fixpoint zdedup (l : list Z) : list Z :=
  match l with
  | [] => []
  | x :: l' => x :: filter (fun y => negb (Z.eqb x y)) (zdedup l')
  end.

(* sorted(): insertion sort *)
Fixpoint insert_by {A} (ltb : A -> A -> bool) (x : A) (l : list A) : list A :=
  match l with
  | [] => [x]
  | y :: l' => if ltb x y then x :: l else y :: insert_by ltb x l'
  end.
Definition sort_by {A} (ltb : A -> A -> bool) (l : list A) : list A := fold_right (insert_by ltb) [] l.

(* ------------------------------------------------------------------------------------------------ *)
(* documents *)

Record col := mkCol { c_type : str; c_cells : list (Z * V) }.
Record table := mkTable { t_rows : list Z; t_cols : list (str * col) }.
Definition doc := list (str * table).

Definition rows_of (t : str) (d : doc) : list Z :=
  match aget str_eqb t d with Some tb => t_rows tb | None => [] end.
Definition has_col (t c : str) (d : doc) : bool :=
  match aget str_eqb t d with Some tb => amem str_eqb c (t_cols tb) | None => false end.

Definition upd_table (t : str) (f : table -> table) (d : doc) : doc :=
  map (fun p => if str_eqb (fst p) t then (fst p, f (snd p)) else p) d.
Definition upd_col (c : str) (f : col -> col) (tb : table) : table :=
  mkTable (t_rows tb) (map (fun p => if str_eqb (fst p) c then (fst p, f (snd p)) else p) (t_cols tb)).
Definition map_cols (f : str -> col -> col) (tb : table) : table :=
  mkTable (t_rows tb) (map (fun p => (fst p, f (fst p) (snd p))) (t_cols tb)).

(* the last assignment to a row wins (for i, v in zip(...): values[i] = v) *)
Definition zget_last {A} (r : Z) (l : list (Z * A)) : option A := aget Z.eqb r (rev l).

Definition set_cells (ups : list (Z * V)) (co : col) : col :=
  mkCol (c_type co)
        (map (fun p => (fst p, match zget_last (fst p) ups with Some v => v | None => snd p end)) (c_cells co)).

Definition tb_remove_rows (rs : list Z) (tb : table) : table :=
  mkTable (filter (fun r => negb (zmem r rs)) (t_rows tb))
          (map (fun p => (fst p, mkCol (c_type (snd p))
                                       (filter (fun q => negb (zmem (fst q) rs)) (c_cells (snd p)))))
               (t_cols tb)).

Definition tb_clear (tb : table) : table :=
  mkTable [] (map (fun p => (fst p, mkCol (c_type (snd p)) [])) (t_cols tb)).

(* ------------------------------------------------------------------------------------------------ *)
(* doc actions (actions.py); a col_info is represented by the one key the interpreters read: 'type' *)

Definition colvals := list (str * list V).

Inductive action :=
| AddRecord (t : str) (r : Z) (cols : list (str * V))
| BulkAddRecord (t : str) (rs : list Z) (cols : colvals)
| RemoveRecord (t : str) (r : Z)
| BulkRemoveRecord (t : str) (rs : list Z)
| UpdateRecord (t : str) (r : Z) (cols : list (str * V))
| BulkUpdateRecord (t : str) (rs : list Z) (cols : colvals)
| ReplaceTableData (t : str) (rs : list Z) (cols : colvals)
| AddColumn (t c : str) (ty : option str)
| RemoveColumn (t c : str)
| RenameColumn (t c c' : str)
| ModifyColumn (t c : str) (ty : option str)
| AddTable (t : str) (cols : list (str * option str))
| RemoveTable (t : str)
| RenameTable (t t' : str).

Definition single_cols (cols : list (str * V)) : colvals := map (fun p => (fst p, [snd p])) cols.

(* AddRecord/RemoveRecord/UpdateRecord are implemented by their Bulk versions in both interpreters *)
Definition bulk_of (a : action) : action :=
  match a with
  | AddRecord t r cols => BulkAddRecord t [r] (single_cols cols)
  | RemoveRecord t r => BulkRemoveRecord t [r]
  | UpdateRecord t r cols => BulkUpdateRecord t [r] (single_cols cols)
  | _ => a
  end.

Definition colvals_ok (rs : list Z) (cols : colvals) : bool :=
  forallb (fun p => Nat.eqb (length (snd p)) (length rs)) cols && nodupb smem (map fst cols).

(* The modelled domain: value lists parallel to the row ids, dict keys distinct, col_infos carrying a type.
   (The real interpreters do not reject the rest; they misalign or fail later.  No recorded or stored action
   is outside the domain: the correspondence check would report it.) *)
Definition action_ok (a : action) : bool :=
  match bulk_of a with
  | BulkAddRecord _ rs cols | BulkUpdateRecord _ rs cols | ReplaceTableData _ rs cols => colvals_ok rs cols
  | AddColumn _ _ ty => match ty with Some _ => true | None => false end
  | AddTable _ cols =>
      forallb (fun p => match snd p with Some _ => true | None => false end) cols && nodupb smem (map fst cols)
  | _ => true
  end.

(* helpers the regenerated pieces of action_summary.py are written with (harness/sl2v.py) *)
Definition py_drop1 (s : str) : str := match s with [] => [] | _ :: r => r end.              (* s[1:] *)
Fixpoint py_startswith (s p : str) : bool :=                                                   (* s.startswith(p) *)
  match p, s with
  | [], _ => true
  | x :: p', y :: s' => Z.eqb x y && py_startswith s' p'
  | _ :: _, [] => false
  end.
Definition py_ne_false (o : option bool) : bool := match o with Some false => false | _ => true end.  (* o != False *)
Definition py_items {K A} (eqb : K -> K -> bool) (d : list (K * A)) : list (K * A) :=          (* d.items() *)
  flat_map (fun k => match aget eqb k d with Some v => [(k, v)] | None => [] end) (map fst d).
Definition py_oget {A} (k : option str) (d : list (str * A)) : option A :=                     (* a key that may be None *)
  match k with Some k' => aget str_eqb k' d | None => None end.
Definition py_odel {A} (k : option str) (d : list (str * A)) : list (str * A) :=
  match k with Some k' => adel str_eqb k' d | None => d end.

Section WithDefaults.
  (* usertypes.get_type_default, as a function of the full column type (tied on every run: the table
     usertypes._type_defaults is regenerated into coq/gen) *)
  Variable type_default : str -> V.
  (* false: action_summary.py / docactions.py as they are.  true: the repaired variant of
     notes/proposed_fixes/C02-stale-delta-after-readd.diff (BulkAddRecord restarts the calc deltas left over for
     rows that are added again; a removed-and-re-added row is never dropped as unchanged). *)
  Variable repaired : bool.

  Definition new_table (cols : list (str * option str)) : table :=
    mkTable [] (map (fun p => (fst p, mkCol (match snd p with Some ty => ty | None => [] end) [])) cols).

  Definition new_col (ty : str) (rows : list Z) : col :=
    mkCol ty (map (fun r => (r, type_default ty)) rows).

  Definition set_type (ty : option str) (co : col) : col :=
    match ty with Some ty' => mkCol ty' (c_cells co) | None => co end.

  Definition rename_key {A} (k k' : str) (l : list (str * A)) : list (str * A) :=
    map (fun p => if str_eqb (fst p) k then (k', snd p) else p) (adel str_eqb k' l).

  (* -------------------------------------------------------------------------------------------- *)
  (* (i) table_data_set.TableDataSet *)

  (* BulkAddRecord: row_ids.extend(row_ids); every column of the table is extended with the given values or
     with the type default *)
  Definition tds_add_rows (rs : list Z) (cols : colvals) (tb : table) : table :=
    mkTable (t_rows tb ++ rs)
            (map (fun p => (fst p, mkCol (c_type (snd p))
                                         (c_cells (snd p) ++
                                          match aget str_eqb (fst p) cols with
                                          | Some vs => combine rs vs
                                          | None => map (fun r => (r, type_default (c_type (snd p)))) rs
                                          end)))
                 (t_cols tb)).

  (* BulkUpdateRecord: columns the table does not have are skipped *)
  Definition tb_update (rs : list Z) (cols : colvals) (tb : table) : table :=
    fold_left (fun tb' p => upd_col (fst p) (set_cells (combine rs (snd p))) tb') cols tb.

  Definition tds_bulk (a : action) (d : doc) : res doc :=
    match a with
    | BulkAddRecord t rs cols =>
        if amem str_eqb t d then Ok (upd_table t (tds_add_rows rs cols) d) else Err E_KEY
    | BulkRemoveRecord t rs =>
        if amem str_eqb t d then Ok (upd_table t (tb_remove_rows rs) d) else Err E_KEY
    | BulkUpdateRecord t rs cols =>
        if amem str_eqb t d then
          if forallb (fun r => zmem r (rows_of t d)) rs          (* rowid_map[r] *)
          then Ok (upd_table t (tb_update rs cols) d) else Err E_KEY
        else Err E_KEY
    | ReplaceTableData t rs cols =>
        if amem str_eqb t d then Ok (upd_table t (fun tb => tds_add_rows rs cols (tb_clear tb)) d)
        else Err E_KEY
    | AddColumn t c (Some ty) =>
        if amem str_eqb t d
        then Ok (upd_table t (fun tb => mkTable (t_rows tb)
                                                (adel str_eqb c (t_cols tb) ++ [(c, new_col ty (t_rows tb))])) d)
        else Err E_KEY
    | AddColumn _ _ None => Err E_KEY
    | RemoveColumn t c =>
        if amem str_eqb t d
        then Ok (upd_table t (fun tb => mkTable (t_rows tb) (adel str_eqb c (t_cols tb))) d)
        else Err E_KEY
    | RenameColumn t c c' =>
        if has_col t c d
        then Ok (if str_eqb c c' then d
                 else upd_table t (fun tb => mkTable (t_rows tb) (rename_key c c' (t_cols tb))) d)
        else Err E_KEY
    | ModifyColumn t c ty =>
        if has_col t c d then Ok (upd_table t (upd_col c (set_type ty)) d) else Err E_KEY
    | AddTable t cols => Ok (adel str_eqb t d ++ [(t, new_table cols)])
    | RemoveTable t => if amem str_eqb t d then Ok (adel str_eqb t d) else Err E_KEY
    | RenameTable t t' =>
        if amem str_eqb t d then Ok (if str_eqb t t' then d else rename_key t t' d) else Err E_KEY
    | _ => Err E_MALFORMED
    end.

  Definition tds_apply (a : action) (d : doc) : res doc :=
    if action_ok a then tds_bulk (bulk_of a) d else Err E_MALFORMED.

  Fixpoint tds_apply_all (l : list action) (d : doc) : res doc :=
    match l with
    | [] => Ok d
    | a :: l' => match tds_apply a d with Ok d' => tds_apply_all l' d' | Err c => Err c end
    end.

  (* -------------------------------------------------------------------------------------------- *)
  (* (ii) docactions.DocActions on the same abstraction *)

  (* Engine.add_records: id_column.set(r, r) for every id in order (so a repeated id is one row whose cells
     hold the last value given, and id 0 is not a row at all); columns not mentioned keep their default *)
  Definition eff_rows (rs : list Z) : list Z := zdedup (filter (fun r => 0 <? r) rs).

  Definition eng_add_rows (rs : list Z) (cols : colvals) (tb : table) : table :=
    mkTable (t_rows tb ++ eff_rows rs)
            (map (fun p => (fst p, mkCol (c_type (snd p))
                                         (c_cells (snd p) ++
                                          map (fun r => (r, match aget str_eqb (fst p) cols with
                                                            | Some vs => match zget_last r (combine rs vs) with
                                                                         | Some v => v
                                                                         | None => type_default (c_type (snd p))
                                                                         end
                                                            | None => type_default (c_type (snd p))
                                                            end))
                                              (eff_rows rs))))
                 (t_cols tb)).

  Definition eng_bulk (a : action) (d : doc) : res doc :=
    match a with
    | BulkAddRecord t rs cols =>
        if negb (amem str_eqb t d) then Err E_KEY
        else if existsb (fun r => zmem r (rows_of t d)) rs then Err E_ASSERT     (* existing record *)
        else if negb (forallb (fun p => has_col t (fst p) d) cols) then Err E_KEY  (* table.get_column *)
        else if existsb (fun r => r <? 0) rs then Err E_MALFORMED
        else Ok (upd_table t (eng_add_rows rs cols) d)
    | BulkRemoveRecord t rs =>
        if amem str_eqb t d then Ok (upd_table t (tb_remove_rows rs) d) else Err E_KEY
    | BulkUpdateRecord t rs cols =>
        if negb (amem str_eqb t d) then Err E_KEY
        else if negb (forallb (fun r => zmem r (rows_of t d)) rs) then Err E_ASSERT   (* non-existent record *)
        else if negb (forallb (fun p => has_col t (fst p) d) cols) then Err E_KEY
        else Ok (upd_table t (tb_update rs cols) d)
    | ReplaceTableData t rs cols =>
        if negb (amem str_eqb t d) then Err E_KEY
        else if existsb (fun r => r <? 0) rs then Err E_MALFORMED
        else Ok (upd_table t (fun tb => eng_add_rows rs cols (tb_clear tb)) d)   (* load_table *)
    | AddColumn t c (Some ty) =>
        if negb (amem str_eqb t d) then Err E_KEY
        else if has_col t c d then Err E_ASSERT
        else Ok (upd_table t (fun tb => mkTable (t_rows tb) (t_cols tb ++ [(c, new_col ty (t_rows tb))])) d)
    | AddColumn _ _ None => Err E_KEY
    | RemoveColumn t c =>
        if negb (amem str_eqb t d) then Err E_KEY
        else if negb (has_col t c d) then Err E_ASSERT
        else Ok (upd_table t (fun tb => mkTable (t_rows tb) (adel str_eqb c (t_cols tb))) d)
    | RenameColumn t c c' =>
        if negb (amem str_eqb t d) then Err E_KEY
        else if negb (has_col t c d) then Err E_ASSERT
        else if has_col t c' d then Err E_ASSERT
        else Ok (upd_table t (fun tb => mkTable (t_rows tb)
                                                (map (fun p => if str_eqb (fst p) c then (c', snd p) else p)
                                                     (t_cols tb))) d)
    | ModifyColumn t c ty =>
        if negb (amem str_eqb t d) then Err E_KEY
        else if negb (has_col t c d) then Err E_ASSERT
        else Ok (upd_table t (upd_col c (set_type ty)) d)
    | AddTable t cols =>
        if amem str_eqb t d then Err E_ASSERT else Ok (d ++ [(t, new_table cols)])
    | RemoveTable t =>
        if amem str_eqb t d then Ok (adel str_eqb t d) else Err E_ASSERT
    | RenameTable t t' =>
        if negb (amem str_eqb t d) then Err E_ASSERT
        else if amem str_eqb t' d then Err E_ASSERT
        else Ok (map (fun p => if str_eqb (fst p) t then (t', snd p) else p) d)
    | _ => Err E_MALFORMED
    end.

  Definition eng_apply (a : action) (d : doc) : res doc :=
    if action_ok a then eng_bulk (bulk_of a) d else Err E_MALFORMED.

  (* -------------------------------------------------------------------------------------------- *)
  (* action_summary.ActionSummary *)

  Definition renames := list (str * option str).          (* LabelRenames._new_to_old *)

  Definition add_rename (before : option str) (after : str) (m : renames) : renames :=
    match before with
    | Some b => aset str_eqb after (match aget str_eqb b m with Some o => o | None => Some b end)
                     (adel str_eqb b m)
    | None => aset str_eqb after None m
    end.

  (* LabelRenames.is_created / original_name (used by the undo half only) *)
  Definition lr_is_created (m : renames) (n : str) : bool :=
    match aget str_eqb n m with Some None => true | _ => false end.
  Definition lr_original_name (m : renames) (n : str) : str :=
    match aget str_eqb n m with Some None => root_name n | Some (Some o) => o | None => n end.

  Definition change := (Z * (V * V))%type.                (* (row_id, (before, after)) *)
  Definition rowdeltas := list (Z * (V * V)).

  Record tdelta := mkTD {
    td_pb : list (Z * bool);                              (* _rows_present_before *)
    td_pa : list (Z * bool);                              (* _rows_present_after *)
    td_cren : renames;                                    (* column_renames *)
    td_deltas : list (str * rowdeltas)                    (* column_deltas *)
  }.
  Definition td_empty := mkTD [] [] [] [].

  Record summary := mkSum { sm_tables : list (str * tdelta); sm_tren : renames }.
  Definition sum_empty := mkSum [] [].

  Definition for_table (t : str) (S : summary) : tdelta :=
    match aget str_eqb t (sm_tables S) with Some td => td | None => td_empty end.
  Definition set_table (t : str) (td : tdelta) (S : summary) : summary :=
    mkSum (aset str_eqb t td (sm_tables S)) (sm_tren S).

  (* add_changes: keep the first `before`, take the last `after` *)
  Definition merge_change (dl : rowdeltas) (ch : change) : rowdeltas :=
    aset Z.eqb (fst ch)
         (match aget Z.eqb (fst ch) dl with Some p => fst p | None => fst (snd ch) end, snd (snd ch)) dl.

  Definition add_changes (t c : str) (chs : list change) (S : summary) : summary :=
    let td := for_table t S in
    let dl := match aget str_eqb c (td_deltas td) with Some dl => dl | None => [] end in
    set_table t (mkTD (td_pb td) (td_pa td) (td_cren td)
                      (aset str_eqb c (fold_left merge_change chs dl) (td_deltas td))) S.

  Definition setdefault (r : Z) (b : bool) (m : list (Z * bool)) : list (Z * bool) :=
    if amem Z.eqb r m then m else aset Z.eqb r b m.

  Definition add_records (t : str) (rs : list Z) (S : summary) : summary :=
    let td := for_table t S in
    set_table t (mkTD (fold_left (fun m r => setdefault r false m) rs (td_pb td))
                      (fold_left (fun m r => aset Z.eqb r true m) rs (td_pa td))
                      (td_cren td) (td_deltas td)) S.

  Definition remove_records (t : str) (rs : list Z) (S : summary) : summary :=
    let td := for_table t S in
    set_table t (mkTD (fold_left (fun m r => setdefault r true m) rs (td_pb td))
                      (fold_left (fun m r => aset Z.eqb r false m) rs (td_pa td))
                      (td_cren td) (td_deltas td)) S.

  Definition rename_column (t : str) (old : option str) (new : str) (S : summary) : summary :=
    let td := for_table t S in
    set_table t (mkTD (td_pb td) (td_pa td) (add_rename old new (td_cren td))
                      (match old with
                       | Some o => match aget str_eqb o (td_deltas td) with
                                   | Some dl => aset str_eqb new dl (adel str_eqb o (td_deltas td))
                                   | None => td_deltas td
                                   end
                       | None => td_deltas td
                       end)) S.

  Definition rename_table (old : option str) (new : str) (S : summary) : summary :=
    mkSum (match old with
           | Some o => match aget str_eqb o (sm_tables S) with
                       | Some td => aset str_eqb new td (adel str_eqb o (sm_tables S))
                       | None => sm_tables S
                       end
           | None => sm_tables S
           end)
          (add_rename old new (sm_tren S)).

  (* what the DocActions method does to out_actions.summary; d is the document before the action, pre the
     changes docactions.RemoveColumn hands to add_changes for a formula column *)
  Definition sum_apply (a : action) (pre : list change) (d : doc) (S : summary) : summary :=
    match bulk_of a with
    | BulkAddRecord t rs _ => add_records t rs S
    | BulkRemoveRecord t rs =>
        match filter (fun r => zmem r (rows_of t d)) rs with
        | [] => S
        | rs' => remove_records t rs' S
        end
    | ReplaceTableData t rs _ => add_records t rs (remove_records t (rows_of t d) S)
    | AddColumn t c _ => rename_column t None c S
    | RemoveColumn t c =>
        rename_column t (Some c) (defunct_name c)
                      (match pre with [] => S | _ => add_changes t c pre S end)
    | RenameColumn t c c' => rename_column t (Some c) c' S
    | AddTable t _ => rename_table None t S
    | RemoveTable t => rename_table (Some t) (defunct_name t) S
    | RenameTable t t' => rename_table (Some t) t' S
    | _ => S
    end.

  (* actions.BulkUpdateRecord(...).simplify() for a one-column update *)
  Definition simplify_update (t : str) (rs : list Z) (c : str) (vs : list V) : option action :=
    match rs, vs with
    | [], _ => None
    | [r], [v] => Some (UpdateRecord t r [(c, v)])
    | _, _ => Some (BulkUpdateRecord t rs [(c, vs)])
    end.

  Definition after_of (dl : rowdeltas) (r : Z) : V :=
    match aget Z.eqb r dl with Some p => snd p | None => 0 end.

  (* filter_out_new_rows / filter_out_gone_rows *)
  Definition filter_out_new_rows (tables : list (str * tdelta)) (t : str) (rows : list Z) : list Z :=
    match aget str_eqb t tables with
    | Some td => filter (fun r => match aget Z.eqb r (td_pb td) with Some false => false | _ => true end) rows
    | None => rows
    end.
  Definition filter_out_gone_rows (tables : list (str * tdelta)) (t : str) (rows : list Z) : list Z :=
    match aget str_eqb t tables with
    | Some td => filter (fun r => match aget Z.eqb r (td_pa td) with Some false => false | _ => true end) rows
    | None => rows
    end.

  (* sorted(r for r, (before, after) in column_delta.items() if not equal_encoding(before, after)) *)
  Definition full_rows (dl : rowdeltas) : list Z :=
    sort_by Z.ltb (filter (fun r => match aget Z.eqb r dl with
                                    | Some p => negb (Z.eqb (fst p) (snd p))
                                    | None => false
                                    end) (map fst dl)).

  (* repaired variant: a row that was present before the bundle, removed and added again (both flags True) is
     kept even if its delta is (v, v) *)
  Definition readded_b (tables : list (str * tdelta)) (t : str) (r : Z) : bool :=
    match aget str_eqb t tables with
    | Some td => match aget Z.eqb r (td_pb td), aget Z.eqb r (td_pa td) with
                 | Some true, Some true => true
                 | _, _ => false
                 end
    | None => false
    end.
  Definition full_rows_rep (tables : list (str * tdelta)) (t : str) (dl : rowdeltas) : list Z :=
    sort_by Z.ltb (filter (fun r => match aget Z.eqb r dl with
                                    | Some p => negb (Z.eqb (fst p) (snd p)) || readded_b tables t r
                                    | None => false
                                    end) (map fst dl)).

  (* the stored half of ActionSummary._changes_to_actions *)
  Definition changes_to_stored (S : summary) (t c : str) (dl : rowdeltas) : option action :=
    match dl with
    | [] => None
    | _ =>
      let full := if repaired then full_rows_rep (sm_tables S) t dl else full_rows dl in
      if is_defunct t || is_defunct c then None
      else
        let rows_after := filter_out_gone_rows (sm_tables S) (root_name t) full in
        simplify_update (root_name t) rows_after (root_name c) (map (after_of dl) rows_after)
    end.

  (* pop_column_delta_as_actions *)
  Definition pop_column (S : summary) (t c : str) : option action * summary :=
    match aget str_eqb t (sm_tables S) with
    | None => (None, S)
    | Some td =>
        match aget str_eqb c (td_deltas td) with
        | None => (None, S)
        | Some dl =>
            let S' := set_table t (mkTD (td_pb td) (td_pa td) (td_cren td) (adel str_eqb c (td_deltas td))) S in
            (changes_to_stored S' t c dl, S')
        end
    end.

  (* the (table, column) keys convert_deltas_to_actions visits, in its order *)
  Definition sorted_keys (S : summary) : list (str * str) :=
    flat_map (fun t => map (fun c => (t, c)) (sort_by str_ltb (map fst (td_deltas (for_table t S)))))
             (sort_by str_ltb (map fst (sm_tables S))).

  (* actions.prune_actions *)
  Definition prune_one (t c : str) (a : action) : res (option action) :=
    let drop_col (cols : colvals) (mk : colvals -> action) :=
      match adel str_eqb c cols with [] => Ok None | cols' => Ok (Some (mk cols')) end in
    match a with
    | AddRecord t' r cols =>
        if str_eqb t' t then
          match adel str_eqb c cols with [] => Ok None | cols' => Ok (Some (AddRecord t' r cols')) end
        else Ok (Some a)
    | UpdateRecord t' r cols =>
        if str_eqb t' t then
          match adel str_eqb c cols with [] => Ok None | cols' => Ok (Some (UpdateRecord t' r cols')) end
        else Ok (Some a)
    | BulkAddRecord t' rs cols => if str_eqb t' t then drop_col cols (BulkAddRecord t' rs) else Ok (Some a)
    | BulkUpdateRecord t' rs cols => if str_eqb t' t then drop_col cols (BulkUpdateRecord t' rs) else Ok (Some a)
    | ReplaceTableData t' rs cols => if str_eqb t' t then drop_col cols (ReplaceTableData t' rs) else Ok (Some a)
    | AddColumn t' c' _ | RemoveColumn t' c' | ModifyColumn t' c' _ =>
        if str_eqb t' t && str_eqb c' c then Ok None else Ok (Some a)
    | AddTable t' _ => if str_eqb t' t then Err E_TYPE else Ok (Some a)     (* list.pop(col_id, None) *)
    | _ => Ok (Some a)
    end.

  Fixpoint prune_actions (l : list action) (t c : str) : res (list action) :=
    match l with
    | [] => Ok []
    | a :: l' =>
        match prune_one t c a with
        | Err e => Err e
        | Ok oa => match prune_actions l' t c with
                   | Err e => Err e
                   | Ok r => Ok (match oa with Some a' => a' :: r | None => r end)
                   end
        end
    end.

  (* -------------------------------------------------------------------------------------------- *)
  (* events and the state they act on *)

  Inductive event :=
  | EDoc (a : action) (lvl : Z) (pre : list change)   (* UserActions._do_doc_action at indirection level lvl *)
  | EDocFail (a : action) (lvl : Z)                   (* ... whose DocActions method raised *)
  | ECreate (a : action)                              (* InitNewDoc: creation action appended, not applied *)
  | ECalc (t c : str) (chs : list change)             (* cells recomputed; ActionSummary.add_changes *)
  | EFlushCol (t c : str)                             (* ActionGroup.flush_calc_changes_for_column *)
  | EFlushAll                                         (* ActionGroup.flush_calc_changes *)
  | EPrune (t c : str)                                (* actions.prune_actions(out_actions.calc, t, c) *)
  | ERollback (n : Z)                                 (* Engine._undo_to_checkpoint: del stored[n:], direct[n:] *)
  | ECheckpoint.                                      (* Engine._get_undo_checkpoint of a later rollback (no effect) *)

  Record st := mkSt {
    s_doc : doc;                  (* the engine's document *)
    s_sum : summary;              (* out_actions.summary *)
    s_stored : list action;       (* out_actions.stored *)
    s_direct : list bool;         (* out_actions.direct *)
    s_calc : list action          (* out_actions.calc *)
  }.
  Definition init_st (d : doc) : st := mkSt d sum_empty [] [] [].

  Definition push (a : action) (dir : bool) (s : st) : st :=
    mkSt (s_doc s) (s_sum s) (s_stored s ++ [a]) (s_direct s ++ [dir]) (s_calc s).

  Definition push_flush (oa : option action) (S : summary) (s : st) : st :=
    match oa with
    | Some a => mkSt (s_doc s) S (s_stored s ++ [a]) (s_direct s ++ [false]) (s_calc s)
    | None => mkSt (s_doc s) S (s_stored s) (s_direct s) (s_calc s)
    end.

  Definition flush_col (t c : str) (s : st) : st :=
    let r := pop_column (s_sum s) t c in push_flush (fst r) (snd r) s.

  (* flush_calc_changes.  convert_deltas_to_actions visits the keys in sorted order without popping them;
     _changes_to_actions for one key reads only that key's deltas and its table's presence map, so popping
     the visited keys is unobservable, and the summary is replaced by a fresh one right after. *)
  Definition flush_all (s : st) : st :=
    let s' := fold_left (fun s1 k => flush_col (fst k) (snd k) s1) (sorted_keys (s_sum s)) s in
    mkSt (s_doc s') sum_empty (s_stored s') (s_direct s') (s_calc s').

  Definition set_changes (t c : str) (chs : list change) (d : doc) : doc :=
    upd_table t (upd_col c (set_cells (map (fun ch => (fst ch, snd (snd ch))) chs))) d.

  Definition cell_values (d : doc) (t c : str) (r : Z) : list V :=
    flat_map (fun p => if str_eqb (fst p) t
                       then flat_map (fun q => if str_eqb (fst q) c
                                               then map snd (filter (fun x => Z.eqb (fst x) r) (c_cells (snd q)))
                                               else []) (t_cols (snd p))
                       else []) d.

  (* repaired variant, ActionSummary.restart_rows as called by docactions.BulkAddRecord: a delta left over for a
     row that is added again gets the value the cell now starts with as its `after` (and, for a row that did not
     exist before the bundle, as its `before` too) *)
  Definition restart_dl (pb : list (Z * bool)) (start : Z -> V) (rs : list Z) (dl : rowdeltas) : rowdeltas :=
    map (fun q => if zmem (fst q) rs
                  then (fst q, (match aget Z.eqb (fst q) pb with Some false => start (fst q) | _ => fst (snd q) end,
                                start (fst q)))
                  else q) dl.
  Definition restart_rows (t : str) (rs : list Z) (d' : doc) (S : summary) : summary :=
    match aget str_eqb t (sm_tables S) with
    | None => S
    | Some td =>
        set_table t (mkTD (td_pb td) (td_pa td) (td_cren td)
                          (map (fun p => if is_defunct (fst p) then p
                                         else (fst p, restart_dl (td_pb td)
                                                                 (fun r => hd 0 (cell_values d' t (fst p) r)) rs (snd p)))
                               (td_deltas td))) S
    end.
  Definition restart_for (a : action) (d' : doc) (S : summary) : summary :=
    match bulk_of a with
    | BulkAddRecord t rs _ => restart_rows t rs d' S
    | _ => S
    end.

  Definition step (e : event) (s : st) : res st :=
    match e with
    | EDoc a lvl pre =>
        let s1 := push a (lvl =? 0) s in
        match eng_apply a (s_doc s) with
        | Err c => Err c
        | Ok d' =>
            let S1 := sum_apply a pre (s_doc s) (s_sum s) in
            Ok (mkSt d' (if repaired then restart_for a d' S1 else S1) (s_stored s1) (s_direct s1) (s_calc s1))
        end
    | EDocFail a lvl => Ok (push a (lvl =? 0) s)
    | ECreate a => Ok (push a true s)
    | ECalc t c chs =>
        Ok (mkSt (set_changes t c chs (s_doc s)) (add_changes t c chs (s_sum s))
                 (s_stored s) (s_direct s) (s_calc s))
    | EFlushCol t c => Ok (flush_col t c s)
    | EFlushAll => Ok (flush_all s)
    | EPrune t c =>
        match prune_actions (s_calc s) t c with
        | Ok l => Ok (mkSt (s_doc s) (s_sum s) (s_stored s) (s_direct s) l)
        | Err e => Err e
        end
    | ERollback n =>
        Ok (mkSt (s_doc s) (s_sum s) (firstn (Z.to_nat n) (s_stored s)) (firstn (Z.to_nat n) (s_direct s))
                 (s_calc s))
    | ECheckpoint => Ok s
    end.

  Fixpoint run (s : st) (es : list event) : res st :=
    match es with
    | [] => Ok s
    | e :: es' => match step e s with Ok s' => run s' es' | Err c => Err c end
    end.

  (* one apply_user_actions call: the events, then the final flush_calc_changes *)
  Record out := mkOut { o_stored : list action; o_direct : list bool }.
  Definition run_bundle (d : doc) (es : list event) : res (doc * out) :=
    match run (init_st d) (es ++ [EFlushAll]) with
    | Ok s => Ok (s_doc s, mkOut (s_stored s) (s_direct s))
    | Err c => Err c
    end.

  (* a history: bundle after bundle on the same document *)
  Fixpoint run_history (d : doc) (bs : list (list event)) : res (doc * list out) :=
    match bs with
    | [] => Ok (d, [])
    | es :: bs' =>
        match run_bundle d es with
        | Err c => Err c
        | Ok (d1, o) => match run_history d1 bs' with
                        | Err c => Err c
                        | Ok (d2, os) => Ok (d2, o :: os)
                        end
        end
    end.

  (* -------------------------------------------------------------------------------------------- *)
  (* well-formedness: the hypotheses of C02, executable so that every recorded trace is checked *)

  Definition sdelta (S : summary) (t c : str) (r : Z) : option (V * V) :=
    match aget str_eqb t (sm_tables S) with
    | None => None
    | Some td => match aget str_eqb c (td_deltas td) with
                 | None => None
                 | Some dl => aget Z.eqb r dl
                 end
    end.

  (* no column of table t has a pending delta for row r *)
  Definition row_clear (S : summary) (t : str) (r : Z) : bool :=
    match aget str_eqb t (sm_tables S) with
    | None => true
    | Some td => forallb (fun p => negb (amem Z.eqb r (snd p))) (td_deltas td)
    end.

  (* no delta is recorded under the key (t, c) *)
  Definition key_clear (S : summary) (t c : str) : bool :=
    match aget str_eqb t (sm_tables S) with
    | None => true
    | Some td => match aget str_eqb c (td_deltas td) with Some (_ :: _) => false | _ => true end
    end.

  Definition table_clear (S : summary) (t : str) : bool := negb (amem str_eqb t (sm_tables S)).

  (* equality of the (bulk) removal an undo must be *)
  Definition action_eqb_bulk (a b : action) : bool :=
    match a, b with
    | BulkRemoveRecord t rs, BulkRemoveRecord t' rs' =>
        str_eqb t t' && Nat.eqb (length rs) (length rs') && forallb (fun p => Z.eqb (fst p) (snd p)) (combine rs rs')
    | _, _ => false
    end.

  Definition rows_fresh (rs : list Z) : bool := forallb (fun r => 0 <? r) rs && nodupb zmem rs.

  (* (SC1) a doc action never writes or creates a cell that has a pending delta; row ids added are positive
     and distinct (docactions.BulkAddRecord checks neither); names created are not '-...' *)
  Definition sc1 (S : summary) (a : action) : bool :=
    match bulk_of a with
    | BulkAddRecord t rs _ => rows_fresh rs && (repaired || forallb (row_clear S t) rs)
    | ReplaceTableData t rs _ => rows_fresh rs && forallb (row_clear S t) rs
    | BulkUpdateRecord t rs cols =>
        forallb (fun p => forallb (fun r => match sdelta S t (fst p) r with None => true | Some _ => false end) rs)
                cols
    | AddColumn t c _ => negb (is_defunct c) && key_clear S t c
    | RenameColumn t _ c' => negb (is_defunct c') && key_clear S t c'
    | AddTable t cols => negb (is_defunct t) && table_clear S t
                         && forallb (fun p => negb (is_defunct (fst p))) cols
    | RenameTable _ t' => negb (is_defunct t') && table_clear S t'
    | _ => true
    end.

  (* (SC2) the rows exist, and a change to a cell without a pending delta starts from the cell's value *)
  Fixpoint sc2 (d : doc) (S : summary) (t c : str) (chs : list change) : bool :=
    match chs with
    | [] => true
    | ch :: chs' =>
        zmem (fst ch) (rows_of t d)
        && match sdelta S t c (fst ch) with
           | Some _ => true
           | None => forallb (Z.eqb (fst (snd ch))) (cell_values d t c (fst ch))
           end
        && sc2 (set_changes t c [ch] d) (add_changes t c [ch] S) t c chs'
    end.

  (* repaired variant only: where a delta is restarted, the cells the start value is read from agree (they are one
     cell whenever column ids and row ids are distinct) *)
  Definition all_equal (l : list V) : bool := match l with [] => true | x :: l' => forallb (Z.eqb x) l' end.
  Definition uniform_starts (S : summary) (t : str) (rs : list Z) (d' : doc) : bool :=
    match aget str_eqb t (sm_tables S) with
    | None => true
    | Some td => forallb (fun p => forallb (fun r => negb (amem Z.eqb r (snd p))
                                                     || all_equal (cell_values d' t (fst p) r)) rs) (td_deltas td)
    end.
  Definition sc1r (s : st) (a : action) : bool :=
    match bulk_of a, eng_apply a (s_doc s) with
    | BulkAddRecord t rs _, Ok d' => uniform_starts (s_sum s) t rs d'
    | _, _ => true
    end.

  Definition wf_event_b (s : st) (e : event) : bool :=
    match e with
    | EDoc a _ _ => sc1 (s_sum s) a && (negb repaired || sc1r s a)
    | ECalc t c chs => sc2 (s_doc s) (s_sum s) t c chs
    | EFlushCol _ _ | EFlushAll | EPrune _ _ => true
    | EDocFail _ _ | ECreate _ | ERollback _ | ECheckpoint => false
    end.

  (* A rollback inside a bundle (a formula whose side effects are undone, Engine._recompute_one_cell): between the
     checkpoint and the rollback the engine applies doc actions and then their undo actions in reverse order
     (ApplyUndoActions), and finally trims stored/direct back to the checkpoint.  Covered here: segments whose doc
     actions are record additions (what lookupOrAddDerived does); their undo actions are the matching removals.
     The checker follows the segment with a small automaton. *)
  Inductive wmode :=
  | WNormal
  | WSeg (n : nat) (pending : list action) (popping : bool).   (* undo actions still to come, newest first *)

  Definition seg_add_ok (S : summary) (a : action) : option action :=
    match bulk_of a with
    | BulkAddRecord t rs cols =>
        if rows_fresh rs && forallb (row_clear S t) rs then Some (BulkRemoveRecord t rs) else None
    | _ => None
    end.

  Definition wf_next (m : wmode) (s : st) (e : event) : option wmode :=
    match m with
    | WNormal =>
        match e with
        | ECheckpoint => Some (WSeg (length (s_stored s)) [] false)
        | _ => if wf_event_b s e then Some WNormal else None
        end
    | WSeg n pend popping =>
        match e with
        | EDoc a _ pre =>
            match pend with
            | u :: pend' =>
                if action_eqb_bulk (bulk_of a) u then Some (WSeg n pend' true)
                else if popping then None
                     else match pre, seg_add_ok (s_sum s) a with
                          | [], Some u' => Some (WSeg n (u' :: pend) false)
                          | _, _ => None
                          end
            | [] => if popping then None
                    else match pre, seg_add_ok (s_sum s) a with
                         | [], Some u' => Some (WSeg n [u'] false)
                         | _, _ => None
                         end
            end
        | ERollback k => match pend with [] => if Nat.eqb (Z.to_nat k) n then Some WNormal else None | _ => None end
        | _ => None
        end
    end.

  Fixpoint wf_run_b (m : wmode) (s : st) (es : list event) : bool :=
    match es with
    | [] => match m with WNormal => true | _ => false end
    | e :: es' =>
        match wf_next m s e with
        | None => false
        | Some m' => match step e s with Ok s' => wf_run_b m' s' es' | Err _ => true end
        end
    end.

  Definition wf_events_b (d : doc) (es : list event) : bool := wf_run_b WNormal (init_st d) (es ++ [EFlushAll]).

  Fixpoint wf_history_b (d : doc) (bs : list (list event)) : bool :=
    match bs with
    | [] => true
    | es :: bs' => wf_events_b d es && match run_bundle d es with
                                       | Ok (d1, _) => wf_history_b d1 bs'
                                       | Err _ => true
                                       end
    end.

  (* document well-formedness: table names distinct, no '-...' names, every column has one cell per row *)
  Definition wf_table_b (tb : table) : bool :=
    forallb (fun p => negb (is_defunct (fst p))
                      && forallb (fun q => zmem (fst q) (t_rows tb)) (c_cells (snd p))) (t_cols tb).
  Definition wf_doc_b (d : doc) : bool :=
    nodupb smem (map fst d) && forallb (fun p => negb (is_defunct (fst p)) && wf_table_b (snd p)) d.

End WithDefaults.

(* ------------------------------------------------------------------------------------------------ *)
(* comparison of documents up to the order of tables, columns and rows (for the correspondence checks) *)

Definition col_sub (a b : col) : bool :=
  str_eqb (c_type a) (c_type b) && Nat.eqb (length (c_cells a)) (length (c_cells b))
  && forallb (fun q => match aget Z.eqb (fst q) (c_cells b) with Some v => Z.eqb v (snd q) | None => false end)
             (c_cells a).
Definition table_sub (a b : table) : bool :=
  Nat.eqb (length (t_rows a)) (length (t_rows b)) && forallb (fun r => zmem r (t_rows b)) (t_rows a)
  && Nat.eqb (length (t_cols a)) (length (t_cols b))
  && forallb (fun p => match aget str_eqb (fst p) (t_cols b) with Some co => col_sub (snd p) co | None => false end)
             (t_cols a).
Definition doc_sub (a b : doc) : bool :=
  Nat.eqb (length a) (length b)
  && forallb (fun p => match aget str_eqb (fst p) b with Some tb => table_sub (snd p) tb | None => false end) a.
Definition doc_eqb (a b : doc) : bool := doc_sub a b && doc_sub b a.

(* the part of a document that concerns the given tables *)
Definition doc_restrict (ts : list str) (d : doc) : doc := filter (fun p => smem (fst p) ts) d.

(* equality of actions, outputs *)
Fixpoint list_eqb {A} (eqb : A -> A -> bool) (a b : list A) : bool :=
  match a, b with
  | [], [] => true
  | x :: a', y :: b' => eqb x y && list_eqb eqb a' b'
  | _, _ => false
  end.
Definition opt_eqb {A} (eqb : A -> A -> bool) (a b : option A) : bool :=
  match a, b with Some x, Some y => eqb x y | None, None => true | _, _ => false end.
Definition pair_eqb {A B} (ea : A -> A -> bool) (eb : B -> B -> bool) (a b : A * B) : bool :=
  ea (fst a) (fst b) && eb (snd a) (snd b).

(* dict-valued fields are compared as dicts (key order is not part of a doc action) *)
Definition dict_eqb {A} (eqb : A -> A -> bool) (a b : list (str * A)) : bool :=
  Nat.eqb (length a) (length b)
  && forallb (fun p => match aget str_eqb (fst p) b with Some v => eqb (snd p) v | None => false end) a.

Definition action_eqb (a b : action) : bool :=
  match a, b with
  | AddRecord t r c, AddRecord t' r' c' => str_eqb t t' && Z.eqb r r' && dict_eqb Z.eqb c c'
  | UpdateRecord t r c, UpdateRecord t' r' c' => str_eqb t t' && Z.eqb r r' && dict_eqb Z.eqb c c'
  | BulkAddRecord t r c, BulkAddRecord t' r' c' => str_eqb t t' && list_eqb Z.eqb r r' && dict_eqb (list_eqb Z.eqb) c c'
  | BulkUpdateRecord t r c, BulkUpdateRecord t' r' c' =>
      str_eqb t t' && list_eqb Z.eqb r r' && dict_eqb (list_eqb Z.eqb) c c'
  | ReplaceTableData t r c, ReplaceTableData t' r' c' =>
      str_eqb t t' && list_eqb Z.eqb r r' && dict_eqb (list_eqb Z.eqb) c c'
  | RemoveRecord t r, RemoveRecord t' r' => str_eqb t t' && Z.eqb r r'
  | BulkRemoveRecord t r, BulkRemoveRecord t' r' => str_eqb t t' && list_eqb Z.eqb r r'
  | AddColumn t c ty, AddColumn t' c' ty' => str_eqb t t' && str_eqb c c' && opt_eqb str_eqb ty ty'
  | ModifyColumn t c ty, ModifyColumn t' c' ty' => str_eqb t t' && str_eqb c c' && opt_eqb str_eqb ty ty'
  | RemoveColumn t c, RemoveColumn t' c' => str_eqb t t' && str_eqb c c'
  | RenameColumn t c n, RenameColumn t' c' n' => str_eqb t t' && str_eqb c c' && str_eqb n n'
  | AddTable t c, AddTable t' c' => str_eqb t t' && list_eqb (pair_eqb str_eqb (opt_eqb str_eqb)) c c'
  | RemoveTable t, RemoveTable t' => str_eqb t t'
  | RenameTable t n, RenameTable t' n' => str_eqb t t' && str_eqb n n'
  | _, _ => false
  end.

Definition res_doc_eqb (r : res doc) (d : doc) : bool :=
  match r with Ok d' => doc_eqb d' d | Err _ => false end.

(* ------------------------------------------------------------------------------------------------ *)
(* C31: the bookkeeping of `stored` and `direct` alone, for arbitrary interleavings (also the ones of bundles
   that fail): every way the engine changes the two lists is one of these four *)
Inductive levent :=
| LAppend (a : action) (lvl : Z)        (* _do_doc_action: stored.append(a); direct.append(lvl == DIRECT_ACTION) *)
| LCreate (a : action)                  (* InitNewDoc: stored.extend(creation); direct += [True] * n *)
| LFlush (acts : list action)           (* flush_calc_changes(_for_column): direct += [False] * count *)
| LTrim (n : Z).                        (* _undo_to_checkpoint: del stored[n:]; del direct[n:] *)

Definition lstep (e : levent) (p : list action * list bool) : list action * list bool :=
  match e with
  | LAppend a lvl => (fst p ++ [a], snd p ++ [lvl =? 0])
  | LCreate a => (fst p ++ [a], snd p ++ [true])
  | LFlush acts => (fst p ++ acts, snd p ++ repeat false (length acts))
  | LTrim n => (firstn (Z.to_nat n) (fst p), firstn (Z.to_nat n) (snd p))
  end.

Definition lrun (es : list levent) (p : list action * list bool) : list action * list bool :=
  fold_left (fun q e => lstep e q) es p.

(* the table a doc action is about (for RenameTable: the table being renamed) *)
Definition action_table (a : action) : str :=
  match a with
  | AddRecord t _ _ | BulkAddRecord t _ _ | RemoveRecord t _ | BulkRemoveRecord t _ | UpdateRecord t _ _
  | BulkUpdateRecord t _ _ | ReplaceTableData t _ _ | AddColumn t _ _ | RemoveColumn t _ | RenameColumn t _ _
  | ModifyColumn t _ _ | AddTable t _ | RemoveTable t | RenameTable t _ => t
  end.
