(* C25 -- model of table_data_set.TableDataSet (the "dumb interpreter" of doc actions used by migrations)
   and of the migration DRIVER migrations.create_migrations.  Hand-written; compared with the running
   code on every run (harness/props/c25.py).  The 46 migration bodies are NOT modelled: they are
   Section variables of the driver.

   Strings are lists of code points.  Python dicts are association lists in insertion order with the
   dict discipline (assignment replaces in place, a new key goes to the end, pop removes). *)
From Coq Require Import ZArith Bool Ascii String List.
Import ListNotations.
Open Scope Z_scope.

Definition str := list Z.

(* "abc" literals for the generated cases (ASCII only) *)
Definition zs (s : String.string) : str := map (fun a => Z.of_N (N_of_ascii a)) (String.list_ascii_of_string s).
Arguments zs s%string.

Fixpoint seqb (a b : str) : bool :=
  match a, b with
  | [], [] => true
  | x :: a', y :: b' => Z.eqb x y && seqb a' b'
  | _, _ => false
  end.

Fixpoint is_prefix (p s : str) : bool :=
  match p, s with
  | [], _ => true
  | x :: p', y :: s' => Z.eqb x y && is_prefix p' s'
  | _ :: _, [] => false
  end.

(* ---- cell values: what a metadata/user cell or a col_info entry may hold ---- *)
Inductive val :=
| VNull
| VBool (b : bool)
| VInt (z : Z)
| VFlt (bits : Z)          (* IEEE-754 double, by its 64-bit pattern *)
| VStr (s : str)
| VList (l : list val)
| VDict (m : list (str * val)).        (* a JSON object that a migration copies into a cell *)

Fixpoint val_eqb (a b : val) : bool :=
  match a, b with
  | VNull, VNull => true
  | VBool x, VBool y => Bool.eqb x y
  | VInt x, VInt y => Z.eqb x y
  | VFlt x, VFlt y => Z.eqb x y
  | VStr x, VStr y => seqb x y
  | VList x, VList y =>
      (fix go (l1 l2 : list val) : bool :=
         match l1, l2 with
         | [], [] => true
         | u :: l1', v :: l2' => val_eqb u v && go l1' l2'
         | _, _ => false
         end) x y
  | VDict x, VDict y =>
      (fix go (l1 l2 : list (str * val)) : bool :=
         match l1, l2 with
         | [], [] => true
         | (k, u) :: l1', (k', v) :: l2' => seqb k k' && val_eqb u v && go l1' l2'
         | _, _ => false
         end) x y
  | _, _ => false
  end.

(* row ids: ints, or None (migrations 25, 26, 30, 40 add records with id None) *)
Definition rid := option Z.
Definition rid_eqb (a b : rid) : bool :=
  match a, b with
  | None, None => true
  | Some x, Some y => Z.eqb x y
  | _, _ => false
  end.

(* ---- exceptions ---- *)
Inductive res (A : Type) := Ok (a : A) | Err (code : Z).
Arguments Ok {A} a.
Arguments Err {A} code.
Definition KeyErr : Z := 1.
Definition IndexErr : Z := 2.
Definition TypeErr : Z := 3.
Definition AttrErr : Z := 4.
Definition NeedAllTables : Z := 5.     (* Exception("need all tables for migration to N") *)

Definition bind {A B} (r : res A) (f : A -> res B) : res B :=
  match r with Ok a => f a | Err e => Err e end.

(* ---- dicts ---- *)
Section Dict.
  Context {V : Type}.
  Fixpoint lookup (k : str) (m : list (str * V)) : option V :=
    match m with
    | [] => None
    | (k', v) :: m' => if seqb k k' then Some v else lookup k m'
    end.
  (* m[k] = v *)
  Fixpoint dset (k : str) (v : V) (m : list (str * V)) : list (str * V) :=
    match m with
    | [] => [(k, v)]
    | (k', v') :: m' => if seqb k k' then (k', v) :: m' else (k', v') :: dset k v m'
    end.
  (* m.pop(k, None) / del m[k] *)
  Fixpoint dpop (k : str) (m : list (str * V)) : list (str * V) :=
    match m with
    | [] => []
    | (k', v') :: m' => if seqb k k' then m' else (k', v') :: dpop k m'
    end.
  Definition has (k : str) (m : list (str * V)) : bool :=
    match lookup k m with Some _ => true | None => false end.
End Dict.

(* ---- the state of a TableDataSet ---- *)
Definition colinfo := list (str * val).                       (* {'id':..,'type':..,'isFormula':..,'formula':..} *)
Definition tdata := (list rid * list (str * list val))%type.  (* TableData.row_ids, TableData.columns *)
Record tds := mkTds {
  t_data : list (str * tdata);                   (* all_tables *)
  t_schema : list (str * list (str * colinfo))   (* _schema *)
}.
Definition empty_tds : tds := mkTds [] [].

Inductive action :=
| AddRecord (t : str) (r : rid) (cols : list (str * val))
| BulkAddRecord (t : str) (rs : list rid) (cols : list (str * list val))
| RemoveRecord (t : str) (r : rid)
| BulkRemoveRecord (t : str) (rs : list rid)
| UpdateRecord (t : str) (r : rid) (cols : list (str * val))
| BulkUpdateRecord (t : str) (rs : list rid) (cols : list (str * list val))
| ReplaceTableData (t : str) (rs : list rid) (cols : list (str * list val))
| AddColumn (t c : str) (ci : colinfo)
| RemoveColumn (t c : str)
| RenameColumn (t c c' : str)
| ModifyColumn (t c : str) (ci : colinfo)
| AddTable (t : str) (cols : list colinfo)
| RemoveTable (t : str)
| RenameTable (t t' : str).

(* ---- usertypes.get_type_default ---- *)
Fixpoint pure_type (s : str) : str :=       (* col_type.split(':', 1)[0] *)
  match s with
  | [] => []
  | c :: s' => if Z.eqb c 58 then [] else c :: pure_type s'
  end.

Definition FLT_INF : Z := 9218868437227405312.   (* 0x7FF0000000000000 *)

Definition type_default_of_pure (p : str) : val :=
  if seqb p (zs "Bool") then VBool false
  else if seqb p (zs "Choice") then VStr []
  else if seqb p (zs "Text") then VStr []
  else if seqb p (zs "Id") then VInt 0
  else if seqb p (zs "Int") then VInt 0
  else if seqb p (zs "Ref") then VInt 0
  else if seqb p (zs "Numeric") then VFlt 0
  else if seqb p (zs "ManualSortPos") then VFlt FLT_INF
  else if seqb p (zs "PositionNumber") then VFlt FLT_INF
  else VNull.

(* get_type_default(col_info['type']) *)
Definition colinfo_default (ci : colinfo) : res val :=
  match lookup (zs "type") ci with
  | None => Err KeyErr
  | Some (VStr s) => Ok (type_default_of_pure (pure_type s))
  | Some _ => Err AttrErr            (* x.split on a non-string *)
  end.

(* ---- record actions ---- *)
Definition rid_mem (r : rid) (l : list rid) : bool := existsb (rid_eqb r) l.

(* BulkAddRecord's loop over the table's columns: n = len(row_ids) of the action *)
Fixpoint add_cols (n : nat) (sch : option (list (str * colinfo))) (acols : list (str * list val))
         (cols : list (str * list val)) : res (list (str * list val)) :=
  match cols with
  | [] => Ok []
  | (c, vs) :: rest =>
      bind (match lookup c acols with
            | Some new => Ok (vs ++ new)
            | None =>
                match sch with
                | None => Err KeyErr
                | Some s =>
                    match lookup c s with
                    | None => Err KeyErr
                    | Some ci => bind (colinfo_default ci) (fun d => Ok (vs ++ repeat d n))
                    end
                end
            end)
           (fun vs' => bind (add_cols n sch acols rest) (fun rest' => Ok ((c, vs') :: rest')))
  end.

Definition bulk_add (t : str) (rs : list rid) (acols : list (str * list val)) (s : tds) : res tds :=
  match lookup t (t_data s) with
  | None => Err KeyErr
  | Some (rows, cols) =>
      bind (add_cols (List.length rs) (lookup t (t_schema s)) acols cols)
           (fun cols' => Ok (mkTds (dset t (rows ++ rs, cols') (t_data s)) (t_schema s)))
  end.

(* [v for r, v in zip(row_ids, values) if r not in remove_set] *)
Fixpoint filter_zip (rm : list rid) (rows : list rid) (vs : list val) : list val :=
  match rows, vs with
  | r :: rows', v :: vs' => if rid_mem r rm then filter_zip rm rows' vs' else v :: filter_zip rm rows' vs'
  | _, _ => []
  end.

Definition bulk_remove (t : str) (rs : list rid) (s : tds) : res tds :=
  match lookup t (t_data s) with
  | None => Err KeyErr
  | Some (rows, cols) =>
      let cols' := map (fun cv => (fst cv, filter_zip rs rows (snd cv))) cols in
      let rows' := filter (fun r => negb (rid_mem r rs)) rows in
      Ok (mkTds (dset t (rows', cols') (t_data s)) (t_schema s))
  end.

(* rowid_map = {r: i for i, r in enumerate(row_ids)}; rowid_map[r] : the LAST index holding r *)
Fixpoint last_index (r : rid) (rows : list rid) (i : nat) : option nat :=
  match rows with
  | [] => None
  | r' :: rows' =>
      match last_index r rows' (S i) with
      | Some j => Some j
      | None => if rid_eqb r r' then Some i else None
      end
  end.

Fixpoint indices_of (rs rows : list rid) : res (list nat) :=
  match rs with
  | [] => Ok []
  | r :: rs' =>
      match last_index r rows 0 with
      | None => Err KeyErr
      | Some i => bind (indices_of rs' rows) (fun l => Ok (i :: l))
      end
  end.

Fixpoint set_nth (i : nat) (v : val) (l : list val) : res (list val) :=
  match l, i with
  | [], _ => Err IndexErr
  | _ :: l', O => Ok (v :: l')
  | x :: l', S i' => bind (set_nth i' v l') (fun l'' => Ok (x :: l''))
  end.

(* for i, v in zip(table_indices, values): col_values[i] = v *)
Fixpoint set_many (idx : list nat) (vs : list val) (l : list val) : res (list val) :=
  match idx, vs with
  | i :: idx', v :: vs' => bind (set_nth i v l) (set_many idx' vs')
  | _, _ => Ok l
  end.

(* for col, values in columns.items(): if col in table_data.columns: ... *)
Fixpoint update_cols (idx : list nat) (acols : list (str * list val)) (cols : list (str * list val))
  : res (list (str * list val)) :=
  match acols with
  | [] => Ok cols
  | (c, vs) :: rest =>
      match lookup c cols with
      | None => update_cols idx rest cols
      | Some old => bind (set_many idx vs old) (fun new => update_cols idx rest (dset c new cols))
      end
  end.

Definition bulk_update (t : str) (rs : list rid) (acols : list (str * list val)) (s : tds) : res tds :=
  match lookup t (t_data s) with
  | None => Err KeyErr
  | Some (rows, cols) =>
      bind (indices_of rs rows) (fun idx =>
      bind (update_cols idx acols cols) (fun cols' =>
      Ok (mkTds (dset t (rows, cols') (t_data s)) (t_schema s))))
  end.

Definition replace_data (t : str) (rs : list rid) (acols : list (str * list val)) (s : tds) : res tds :=
  match lookup t (t_data s) with
  | None => Err KeyErr
  | Some (rows, cols) =>
      let cleared := map (fun cv => (fst cv, @nil val)) cols in
      bulk_add t rs acols (mkTds (dset t ([], cleared) (t_data s)) (t_schema s))
  end.

Definition singles (cols : list (str * val)) : list (str * list val) :=
  map (fun kv => (fst kv, [snd kv])) cols.

(* ---- schema actions: the _schema component ---- *)
Definition schema := list (str * list (str * colinfo)).

Definition DomainErr : Z := 9.     (* outside the model's domain: a column id that is not a string *)

(* {c['id']: c.copy() for c in columns} *)
Fixpoint schema_of_cols (cols : list colinfo) (acc : list (str * colinfo)) : res (list (str * colinfo)) :=
  match cols with
  | [] => Ok acc
  | ci :: rest =>
      match lookup (zs "id") ci with
      | None => Err KeyErr
      | Some (VStr c) => schema_of_cols rest (dset c ci acc)
      | Some _ => Err DomainErr
      end
  end.

(* d.update(e) *)
Fixpoint dict_update {V} (d e : list (str * V)) : list (str * V) :=
  match e with
  | [] => d
  | (k, v) :: e' => dict_update (dset k v d) e'
  end.

Definition schema_step (a : action) (sch : schema) : res schema :=
  match a with
  | AddColumn t c ci =>
      match lookup t sch with
      | None => Err KeyErr
      | Some cols => bind (colinfo_default ci) (fun _ => Ok (dset t (dset c ci cols) sch))
      end
  | RemoveColumn t c =>
      match lookup t sch with
      | None => Err KeyErr
      | Some cols => Ok (dset t (dpop c cols) sch)
      end
  | RenameColumn t c c' =>
      match lookup t sch with
      | None => Err KeyErr
      | Some cols =>
          match lookup c cols with
          | None => Err KeyErr
          | Some ci => Ok (dset t (dset c' ci (dpop c cols)) sch)
          end
      end
  | ModifyColumn t c ci =>
      match lookup t sch with
      | None => Err KeyErr
      | Some cols =>
          match lookup c cols with
          | None => Err KeyErr
          | Some old => Ok (dset t (dset c (dict_update old ci) cols) sch)
          end
      end
  | AddTable t cols => bind (schema_of_cols cols []) (fun m => Ok (dset t m sch))
  | RemoveTable t => if has t sch then Ok (dpop t sch) else Err KeyErr
  | RenameTable t t' =>
      match lookup t sch with
      | None => Err KeyErr
      | Some m => Ok (dset t' m (dpop t sch))
      end
  | _ => Ok sch
  end.

(* ---- schema actions: the all_tables component ---- *)
Definition data_step (a : action) (d : list (str * tdata)) : res (list (str * tdata)) :=
  match a with
  | AddColumn t c ci =>
      match lookup t d with
      | None => Err KeyErr
      | Some (rows, cols) =>
          bind (colinfo_default ci) (fun dv => Ok (dset t (rows, dset c (repeat dv (List.length rows)) cols) d))
      end
  | RemoveColumn t c =>
      match lookup t d with
      | None => Err KeyErr
      | Some (rows, cols) => Ok (dset t (rows, dpop c cols) d)
      end
  | RenameColumn t c c' =>
      match lookup t d with
      | None => Err KeyErr
      | Some (rows, cols) =>
          match lookup c cols with
          | None => Err KeyErr
          | Some vs => Ok (dset t (rows, dset c' vs (dpop c cols)) d)
          end
      end
  | ModifyColumn t c ci => Ok d
  | AddTable t cols =>
      bind (schema_of_cols cols [])
           (fun m => Ok (dset t ([], map (fun kv => (fst kv, @nil val)) m) d))
  | RemoveTable t => if has t d then Ok (dpop t d) else Err KeyErr
  | RenameTable t t' =>
      match lookup t d with
      | None => Err KeyErr
      | Some td => Ok (dset t' td (dpop t d))
      end
  | _ => Ok d
  end.

Definition is_schema_action (a : action) : bool :=
  match a with
  | AddColumn _ _ _ | RemoveColumn _ _ | RenameColumn _ _ _ | ModifyColumn _ _ _
  | AddTable _ _ | RemoveTable _ | RenameTable _ _ => true
  | _ => false
  end.

(* TableDataSet.apply_doc_action *)
Definition tds_apply (a : action) (s : tds) : res tds :=
  match a with
  | AddRecord t r cols => bulk_add t [r] (singles cols) s
  | BulkAddRecord t rs cols => bulk_add t rs cols s
  | RemoveRecord t r => bulk_remove t [r] s
  | BulkRemoveRecord t rs => bulk_remove t rs s
  | UpdateRecord t r cols => bulk_update t [r] (singles cols) s
  | BulkUpdateRecord t rs cols => bulk_update t rs cols s
  | ReplaceTableData t rs cols => replace_data t rs cols s
  | _ => bind (schema_step a (t_schema s)) (fun sch' =>
         bind (data_step a (t_data s)) (fun d' => Ok (mkTds d' sch')))
  end.

(* TableDataSet.apply_doc_actions *)
Fixpoint tds_apply_all (acts : list action) (s : tds) : res tds :=
  match acts with
  | [] => Ok s
  | a :: rest => bind (tds_apply a s) (tds_apply_all rest)
  end.

Fixpoint schema_apply_all (acts : list action) (sch : schema) : res schema :=
  match acts with
  | [] => Ok sch
  | a :: rest => bind (schema_step a sch) (schema_apply_all rest)
  end.

(* ---- which tables an action names ---- *)
Definition action_tables (a : action) : list str :=
  match a with
  | AddRecord t _ _ | BulkAddRecord t _ _ | RemoveRecord t _ | BulkRemoveRecord t _
  | UpdateRecord t _ _ | BulkUpdateRecord t _ _ | ReplaceTableData t _ _
  | AddColumn t _ _ | RemoveColumn t _ | RenameColumn t _ _ | ModifyColumn t _ _
  | AddTable t _ | RemoveTable t => [t]
  | RenameTable t t' => [t; t']
  end.

Definition is_meta (t : str) : bool := is_prefix (zs "_grist_") t.
Definition meta_only (acts : list action) : bool :=
  forallb (fun a => forallb is_meta (action_tables a)) acts.

(* ---- migrations.create_migrations: the driver ---- *)
Definition DOCINFO : str := zs "_grist_DocInfo".
Definition SCHEMAVERSION : str := zs "schemaVersion".

(* try: all_tables['_grist_DocInfo'].columns["schemaVersion"][0]  except Exception: 0
   and then `doc_version + 1` in range(...), which raises TypeError on None/str/float/list *)
Definition doc_version_of (s : tds) : res Z :=
  match lookup DOCINFO (t_data s) with
  | None => Ok 0
  | Some (_, cols) =>
      match lookup SCHEMAVERSION cols with
      | None => Ok 0
      | Some [] => Ok 0
      | Some (VInt z :: _) => Ok z
      | Some (VBool b :: _) => Ok (if b then 1 else 0)
      | Some (_ :: _) => Err TypeErr
      end
  end.

(* range(d + 1, c + 1) *)
Definition versions_from (d c : Z) : list Z :=
  map (fun k => d + 1 + Z.of_nat k) (seq 0 (Z.to_nat (c - d))).

Section Driver.
  Variable current : Z.                              (* schema.SCHEMA_VERSION *)
  Variable need_all : Z -> bool.                     (* migration_func.need_all_tables *)
  Variable migs : Z -> tds -> res (list action).     (* all_migrations.get(v, noop_migration): the doc actions
                                                        it computes from the tdset (it applies them itself) *)

  Definition drv_state := (list action * tds * list Z)%type.   (* emitted so far, tdset, versions run *)

  Definition drv_step (metadata_only : bool) (st : res drv_state) (v : Z) : res drv_state :=
    bind st (fun '(acc, s, vs) =>
      if need_all v && metadata_only then Err NeedAllTables
      else bind (migs v s) (fun acts =>
           bind (tds_apply_all acts s) (fun s' => Ok (acc ++ acts, s', vs ++ [v])))).

  Definition sv_update : action := UpdateRecord DOCINFO (Some 1) [(SCHEMAVERSION, VInt current)].

  Definition create_migrations (metadata_only : bool) (s : tds) : res drv_state :=
    bind (doc_version_of s) (fun d =>
    bind (fold_left (drv_step metadata_only) (versions_from d current) (Ok ([], s, []))) (fun '(acc, s', vs) =>
    Ok (acc ++ [sv_update], s', vs))).
End Driver.

(* ---- executable comparisons used by the generated correspondence cases ---- *)
Fixpoint list_eqb {A} (eq : A -> A -> bool) (a b : list A) : bool :=
  match a, b with
  | [], [] => true
  | x :: a', y :: b' => eq x y && list_eqb eq a' b'
  | _, _ => false
  end.

Definition pair_eqb {A B} (ea : A -> A -> bool) (eb : B -> B -> bool) (x y : A * B) : bool :=
  ea (fst x) (fst y) && eb (snd x) (snd y).

(* dict equality: `exp` comes from a Python dict (distinct keys) *)
Definition dict_matches {V} (eq : V -> V -> bool) (exp act : list (str * V)) : bool :=
  Nat.eqb (List.length exp) (List.length act) &&
  forallb (fun kv => match lookup (fst kv) act with Some v => eq (snd kv) v | None => false end) exp.

Definition colinfo_matches : colinfo -> colinfo -> bool := dict_matches val_eqb.
Definition tdata_matches (exp act : tdata) : bool :=
  list_eqb rid_eqb (fst exp) (fst act) && dict_matches (list_eqb val_eqb) (snd exp) (snd act).
Definition schema_matches : schema -> schema -> bool := dict_matches (dict_matches colinfo_matches).
Definition tds_matches (exp act : tds) : bool :=
  dict_matches tdata_matches (t_data exp) (t_data act) && schema_matches (t_schema exp) (t_schema act).

Definition cols1_eqb := list_eqb (pair_eqb seqb val_eqb).
Definition colsN_eqb := list_eqb (pair_eqb seqb (list_eqb val_eqb)).
Definition action_eqb (a b : action) : bool :=
  match a, b with
  | AddRecord t r c, AddRecord t' r' c' => seqb t t' && rid_eqb r r' && cols1_eqb c c'
  | BulkAddRecord t r c, BulkAddRecord t' r' c' => seqb t t' && list_eqb rid_eqb r r' && colsN_eqb c c'
  | RemoveRecord t r, RemoveRecord t' r' => seqb t t' && rid_eqb r r'
  | BulkRemoveRecord t r, BulkRemoveRecord t' r' => seqb t t' && list_eqb rid_eqb r r'
  | UpdateRecord t r c, UpdateRecord t' r' c' => seqb t t' && rid_eqb r r' && cols1_eqb c c'
  | BulkUpdateRecord t r c, BulkUpdateRecord t' r' c' => seqb t t' && list_eqb rid_eqb r r' && colsN_eqb c c'
  | ReplaceTableData t r c, ReplaceTableData t' r' c' => seqb t t' && list_eqb rid_eqb r r' && colsN_eqb c c'
  | AddColumn t c ci, AddColumn t' c' ci' => seqb t t' && seqb c c' && cols1_eqb ci ci'
  | RemoveColumn t c, RemoveColumn t' c' => seqb t t' && seqb c c'
  | RenameColumn t c d, RenameColumn t' c' d' => seqb t t' && seqb c c' && seqb d d'
  | ModifyColumn t c ci, ModifyColumn t' c' ci' => seqb t t' && seqb c c' && cols1_eqb ci ci'
  | AddTable t cs, AddTable t' cs' => seqb t t' && list_eqb cols1_eqb cs cs'
  | RemoveTable t, RemoveTable t' => seqb t t'
  | RenameTable t u, RenameTable t' u' => seqb t t' && seqb u u'
  | _, _ => false
  end.

(* user tables (those not named _grist_...) of `a` are exactly those of `b`, with equal content and schema *)
Definition user_part {V} (m : list (str * V)) : list (str * V) := filter (fun kv => negb (is_meta (fst kv))) m.
Definition user_part_same (a b : tds) : bool :=
  dict_matches tdata_matches (user_part (t_data a)) (user_part (t_data b)) &&
  schema_matches (user_part (t_schema a)) (user_part (t_schema b)).

(* compact col_info literal for the generated cases *)
Definition mkci (id type : str) (isf : bool) (formula : str) : colinfo :=
  [(zs "id", VStr id); (zs "type", VStr type); (zs "isFormula", VBool isf); (zs "formula", VStr formula)].

(* One "apply" case: actions A applied to document D by the real TableDataSet gave `expect`
   (a state, or an exception class); mo_py / same_py are the harness's own evaluation of "all actions target
   _grist_ tables" and "user tables identical before and after". *)
Definition check_apply (D : tds) (A : list action) (expect : res tds) (mo_py same_py : bool) : bool :=
  match tds_apply_all A D, expect with
  | Ok s, Ok e =>
      tds_matches e s &&
      match schema_apply_all (filter is_schema_action A) (t_schema D) with
      | Ok sch => schema_matches (t_schema e) sch
      | Err _ => false
      end &&
      Bool.eqb (meta_only A) mo_py && Bool.eqb (user_part_same D s) same_py &&
      (if meta_only A then user_part_same D s else true)
  | Err c, Err c' => Z.eqb c c'
  | _, _ => false
  end.

(* One "driver" case: create_migrations ran on tdset T0 (after its loading prelude) with SCHEMA_VERSION `cur`,
   called the migrations `rec` = [(version, actions it returned)] in that order, returned `ret` and left its
   tdset as T1 (or raised the exception class `err`). *)
Definition rec_migs (rec : list (Z * list action)) (v : Z) (_ : tds) : res (list action) :=
  match find (fun p => Z.eqb (fst p) v) rec with
  | Some p => Ok (snd p)
  | None => Err 99
  end.

Definition check_driver (cur : Z) (need : list Z) (mo : bool) (T0 : tds) (rec : list (Z * list action))
           (expect : res (list action * tds)) : bool :=
  match create_migrations cur (fun v => existsb (Z.eqb v) need) (rec_migs rec) mo T0, expect with
  | Ok (acc, s, vs), Ok (ret, T1) =>
      list_eqb action_eqb acc ret && tds_matches T1 s && list_eqb Z.eqb vs (map fst rec)
  | Err c, Err c' => Z.eqb c c'
  | _, _ => false
  end.
