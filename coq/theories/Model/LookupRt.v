(* Runtime for the lookup code translated from Python by harness/lk2v.py (coq/gen/Lookup_gen.v): what the
   primitive operations of that code mean.  The translated functions call these; Proofs/LookupGen_proofs.v
   bridges the translated functions to the hand-written model Model/Lookup.v.

   Primitives = the methods of the bin objects (modelled in Lookup.v: add_item / remove_item / remove_key),
   dict access, LookupSet.sorted_versions access through a reference to the set object, sorted(), set(). *)
From Coq Require Import ZArith List Bool.
Import ListNotations.
Require Import Grist.Lib.LkMonad Grist.Model.Lookup.
Open Scope Z_scope.

Notation LM S A := (M exn S A).

Section RtTwoWay.
  Context {L R : Type}.
  Variables (leq : L -> L -> bool) (req : R -> R -> bool) (lhash : L -> bool) (rhash : R -> bool).
  Variables (lfmt : L -> bool) (rfmt : R -> bool).
  Variables (lk rk : kind).
  Notation T := (twm L R).

  (* self._right_bin.add_item(self._fwd, left, right) -> (removed, added), _NIL = None *)
  Definition right_bin_add_item_fwd (left : L) (right : R) : LM T (option R * option R) :=
    fun t => match add_item leq req lhash rhash lfmt rk (fwd t) left right with
             | AOk m removed added => Ok (removed, added) (mkTwm m (bwd t))
             | ARaise e => Exc e t
             end.
  Definition left_bin_add_item_bwd (right : R) (left : L) : LM T (option L * option L) :=
    fun t => match add_item req leq rhash lhash rfmt lk (bwd t) right left with
             | AOk m removed added => Ok (removed, added) (mkTwm (fwd t) m)
             | ARaise e => Exc e t
             end.
  Definition right_bin_remove_item_fwd (left : L) (right : R) : LM T unit :=
    fun t => match remove_item leq req lhash rhash rk (fwd t) left right with
             | Some m => Ok tt (mkTwm m (bwd t))
             | None => Exc TypeErr t
             end.
  Definition left_bin_remove_item_bwd (right : R) (left : L) : LM T unit :=
    fun t => match remove_item req leq rhash lhash lk (bwd t) right left with
             | Some m => Ok tt (mkTwm (fwd t) m)
             | None => Exc TypeErr t
             end.
  Definition right_bin_remove_key_fwd (left : L) : LM T (list R) :=
    fun t => match remove_key leq lhash rk (fwd t) left with
             | Some (m, removed) => Ok removed (mkTwm m (bwd t))
             | None => Exc TypeErr t
             end.
  Definition left_bin_remove_key_bwd (right : R) : LM T (list L) :=
    fun t => match remove_key req rhash lk (bwd t) right with
             | Some (m, removed) => Ok removed (mkTwm (fwd t) m)
             | None => Exc TypeErr t
             end.
  (* self._fwd.clear() / self._bwd.clear() *)
  Definition fwd_clear : LM T unit := fun t => Ok tt (mkTwm [] (bwd t)).
  Definition bwd_clear : LM T unit := fun t => Ok tt (mkTwm (fwd t) []).
End RtTwoWay.

(* ---- the index of a lookup map column ------------------------------------------------------- *)

(* a reference to a LookupSet object: the one stored under a key, or a fresh LookupSet() *)
Inductive binref := RefKey (k : key) | RefFresh.

(* self._bwd.get(right, default) where default is a LookupSet reference; hashes the key *)
Definition bwd_get_ref (k : key) (default : binref) : LM lmap binref :=
  fun m => if negb (key_hashable k) then Exc TypeErr m
           else match dget vals_eqb (bwd m) k with Some _ => Ok (RefKey k) m | None => Ok default m end.

Definition ref_bin (m : lmap) (r : binref) : option (bin Z) :=
  match r with RefKey k => dget vals_eqb (bwd m) k | RefFresh => None end.

(* ref.sorted_versions.get(spec) *)
Definition ref_cache_get (r : binref) (s : sortspec) : LM lmap (option (list Z)) :=
  fun m => Ok (match ref_bin m r with Some b => cache_get (cache b) s | None => None end) m.
(* ref.sorted_versions[spec] = rows *)
Definition ref_cache_set (r : binref) (s : sortspec) (rows : list Z) : LM lmap unit :=
  fun m => match r, ref_bin m r with
           | RefKey k, Some b => Ok tt (mkTwm (fwd m) (dset vals_eqb (bwd m) k (mkBin (items b) ((s, rows) :: cache b))))
           | _, _ => Ok tt m
           end.
(* ref.sorted_versions.pop(spec, None) *)
Definition ref_cache_pop (r : binref) (s : sortspec) : LM lmap unit :=
  fun m => match r, ref_bin m r with
           | RefKey k, Some b => Ok tt (mkTwm (fwd m) (dset vals_eqb (bwd m) k (mkBin (items b) (cache_pop (cache b) s))))
           | _, _ => Ok tt m
           end.
(* sorted(ref, key=sort_key): sort_key is make_sort_key(table, spec) (None for the empty spec: plain row ids);
   t supplies the cells SortKey reads; any exception of a comparison or of a cell read ends it *)
Definition sorted_ref (t : table) (r : binref) (s : sortspec) : LM lmap (list Z) :=
  fun m => match sort_rows t s (match ref_bin m r with Some b => items b | None => [] end) with
           | Some l => Ok l m
           | None => Exc OtherErr m
           end.

(* set(list of key tuples): hashes every key *)
Definition py_set_keys (l : list key) : LM lmap (list key) :=
  fun m => if forallb key_hashable l then Ok (dedup vals_eqb l) m else Exc TypeErr m.

(* SimpleLookupMapping: self._row_key_map.lookup_left(row_id)  (a "single" bin holds the value itself) *)
Definition lookup_left_single (r : Z) : LM lmap (option key) :=
  fun m => Ok (match mapped_keys m r with k :: _ => Some k | [] => None end) m.
(* ContainsLookupMapping: self._row_key_map.lookup_left(row_id, ())  (the stored set, or ()) *)
Definition lookup_left_set (r : Z) : LM lmap (list key) := fun m => Ok (mapped_keys m r) m.

(* lists used as Python sets of keys *)
Definition keyset_diff (a b : list key) : list key := diff_keys a b.          (* a - b *)
Definition keyset_symdiff (a b : list key) : list key := diff_keys a b ++ diff_keys b a.   (* a ^ b *)

(* strings *)
Definition py_startswith (s p : str) : bool :=
  (fix go (s p : str) : bool := match p, s with
                                | [], _ => true
                                | c :: p', d :: s' => Z.eqb c d && go s' p'
                                | _ :: _, [] => false end) s p.

(* l[:l.index(x)] ; ValueError when x is not in l *)
Fixpoint slice_to_index (x : str) (l : list str) : option (list str) :=
  match l with
  | [] => None
  | y :: t => if str_eqb y x then Some [] else match slice_to_index x t with Some r => Some (y :: r) | None => None end
  end.
Definition py_slice_to_index {S} (x : str) (l : list str) : LM S (list str) :=
  fun s => match slice_to_index x l with Some r => Ok r s | None => Exc ValueErr s end.

(* self._row_key_map.remove(row_id, old_key) where old_key may be None (an unmapped row of a simple mapping):
   None is hashable and is never a key of the map, so both remove_item calls find nothing *)
Definition remove_opt (rm : Z -> key -> LM lmap unit) (r : Z) (ok : option key) : LM lmap unit :=
  match ok with Some k => rm r k | None => ret tt end.

(* == between key tuples one of which may be None *)
Definition okey_eqb (a b : option key) : bool :=
  match a, b with Some x, Some y => vals_eqb x y | None, None => true | _, _ => false end.

(* ---- the bin classes of twowaymap.py ---------------------------------------------------------------- *)
(* State of a bin method: the mapping (dict) it is handed.  A "single" bin stores the value itself, a container
   bin stores a container object; [stored] of a container bin is a reference to the object under the key, so the
   in-place changes made by the add/remove functions are changes of the mapping. *)
Section RtBins.
  Context {K A : Type}.
  Variables (keq : K -> K -> bool) (aeq : A -> A -> bool) (khash : K -> bool) (ahash : A -> bool).
  Variable kfmt : K -> bool.
  Notation D := (dict K (bin A)).

  (* mapping.get(key, _NIL) of a single-value bin *)
  Definition d_get_single (key : K) : LM D (option A) :=
    fun m => if negb (khash key) then Exc TypeErr m
             else Ok (match dget keq m key with Some {| items := s :: _ |} => Some s | _ => None end) m.
  (* mapping.get(key, _NIL) of a container bin: a reference (the key) to the stored container *)
  Definition d_get_cont (key : K) : LM D (option K) :=
    fun m => if negb (khash key) then Exc TypeErr m
             else Ok (match dget keq m key with Some _ => Some key | None => None end) m.
  (* mapping[key] = value *)
  Definition d_set_single (key : K) (value : A) : LM D unit := fun m => Ok tt (dset keq m key (one value)).
  Definition d_set_bin (key : K) (b : bin A) : LM D unit := fun m => Ok tt (dset keq m key b).
  (* del mapping[key] *)
  Definition d_del (key : K) : LM D unit := fun m => Ok tt (ddel keq m key).
  (* mapping.pop(key, default): an empty dict returns the default without hashing the key (CPython) *)
  Definition d_pop_single (key : K) : LM D (option A) :=
    fun m => match m with
             | [] => Ok None m
             | _ => if negb (khash key) then Exc TypeErr m
                    else match dget keq m key with
                         | Some b => Ok (match items b with s :: _ => Some s | [] => None end) (ddel keq m key)
                         | None => Ok None m
                         end
             end.
  Definition d_pop_cont (key : K) : LM D (list A) :=
    fun m => match m with
             | [] => Ok [] m
             | _ => if negb (khash key) then Exc TypeErr m
                    else match dget keq m key with
                         | Some b => Ok (items b) (ddel keq m key)
                         | None => Ok [] m
                         end
             end.
  (* "...%s" % key *)
  Definition fmt_exn (key : K) : exn := if kfmt key then TypeErr else ValueErr.

  (* run a container function on the container stored under a key (which exists) and keep the result there *)
  Definition with_container {X} (key : K) (f : LM (bin A) X) : LM D X :=
    fun m => match dget keq m key with
             | Some b => match f b with
                         | Ok x b' => Ok x (dupd keq m key b')
                         | Exc e b' => Exc e (dupd keq m key b')
                         end
             | None => Exc OtherErr m
             end.
  (* bool(container) *)
  Definition cont_nonempty (key : K) : LM D bool :=
    fun m => Ok (match dget keq m key with Some {| items := _ :: _ |} => true | _ => false end) m.

  (* the container objects: set / LookupSet hash their elements, list compares with ==.
     A plain set or list has no sorted_versions: its cache component is kept []. *)
  Definition keep_cache (kd : kind) (c : list (sortspec * list A)) : list (sortspec * list A) :=
    match kd with KLookupSet => c | _ => [] end.
  (* {value} / LookupSet([value]) / [value] *)
  Definition c_make (kd : kind) (value : A) : LM unit (bin A) :=
    fun u => if hashes_values kd && negb (ahash value) then Exc TypeErr u else Ok (one value) u.
  (* value in container *)
  Definition c_mem (kd : kind) (value : A) : LM (bin A) bool :=
    fun b => if hashes_values kd && negb (ahash value) then Exc TypeErr b else Ok (memb aeq value (items b)) b.
  (* container.add(value) / container.append(value) *)
  Definition c_add (kd : kind) (value : A) : LM (bin A) unit :=
    fun b => if hashes_values kd && negb (ahash value) then Exc TypeErr b
             else Ok tt (mkBin (items b ++ [value]) (keep_cache kd (cache b))).
  (* container.discard(value) *)
  Definition c_discard (kd : kind) (value : A) : LM (bin A) unit :=
    fun b => if hashes_values kd && negb (ahash value) then Exc TypeErr b
             else if memb aeq value (items b)
                  then Ok tt (mkBin (remove_first aeq value (items b)) (keep_cache kd (cache b)))
                  else Ok tt b.
  (* list.remove(value): ValueError when absent *)
  Definition c_list_remove (kd : kind) (value : A) : LM (bin A) unit :=
    fun b => if memb aeq value (items b)
             then Ok tt (mkBin (remove_first aeq value (items b)) (keep_cache kd (cache b)))
             else Exc ValueErr b.
  (* container.sorted_versions.clear() *)
  Definition c_clear_cache : LM (bin A) unit := fun b => Ok tt (mkBin (items b) []).
End RtBins.

(* a method of the right bin works on _fwd, of the left bin on _bwd *)
Definition on_fwd {L R X} (f : LM (dict L (bin R)) X) : LM (twm L R) X :=
  fun t => match f (fwd t) with Ok x m => Ok x (mkTwm m (bwd t)) | Exc e m => Exc e (mkTwm m (bwd t)) end.
Definition on_bwd {L R X} (f : LM (dict R (bin L)) X) : LM (twm L R) X :=
  fun t => match f (bwd t) with Ok x m => Ok x (mkTwm (fwd t) m) | Exc e m => Exc e (mkTwm (fwd t) m) end.
Definition no_state {S X} (f : LM unit X) : LM S X :=
  fun s => match f tt with Ok x _ => Ok x s | Exc e _ => Exc e s end.

(* ---- get_new_keys_iter: the local list new_keys_groups is the state ----------------------------------- *)
Definition acc_reset : LM (list (list val)) unit := fun _ => Ok tt [].
Definition acc_append (g : list val) : LM (list (list val)) unit := fun s => Ok tt (s ++ [g]).
(* itertools.product of all the groups collected in new_keys_groups *)
Definition acc_product : LM (list (list val)) (list key) := fun s => Ok (product s) s.
(* set(group) of a cell value: tuples and lists are iterated and their elements hashed, a str gives its characters,
   anything else modelled here is not iterable (TypeError) *)
Definition py_set_val {S} (g : val) : LM S (list val) :=
  fun s => match g with
           | VTuple l | VList l => if forallb hashable l then Ok (dedup val_eqb l) s else Exc TypeErr s
           | VStr cs => Ok (dedup val_eqb (map (fun c => VStr [c]) cs)) s
           | _ => Exc TypeErr s
           end.
(* iterating a list value *)
Definition val_iter (v : val) : list val := match v with VList l | VTuple l => l | _ => [] end.
Definition is_str (v : val) : bool := match v with VStr _ => true | _ => false end.

(* ---- SortKey.__lt__ ------------------------------------------------------------------------------------ *)
(* a < b on cell values: TypeError, or another exception (Record.__lt__ against a non-record) *)
Definition py_lt_m {S} (a b : val) : LM S bool :=
  fun s => match py_lt a b with
           | CTrue => Ok true s | CFalse => Ok false s
           | CTypeError => Exc TypeErr s | CRaise => Exc OtherErr s
           end.
(* isinstance(v, numbers.Number) *)
Definition is_number (v : val) : bool := match numval v with Some _ => true | None => false end.
