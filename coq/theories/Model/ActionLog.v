(* K1 -- the action log of the Grist data engine: doc actions with undo generation (docactions.py),
   the ActionSummary of calc deltas (action_summary.py), the flushes of action_obj.ActionGroup and the
   reverse replay of useractions.ApplyUndoActions / ApplyDocActions.

   Executable model only; the proofs are in Proofs/ActionLog_proofs.v.

   Conventions
   * strings (table ids, column ids, type names, formula texts) are lists of code points (list Z);
   * row ids are Z;
   * the single-record actions AddRecord / RemoveRecord / UpdateRecord are their one-row Bulk forms:
     docactions.py delegates them to the Bulk methods and `simplify()` maps a one-row Bulk action back to the
     single form, a bijection that the harness applies when it compares action lists.  A Bulk action with no
     rows never reaches Engine.apply_doc_action (UserActions._do_doc_action drops it), the model rejects it
     (E_domain), as it rejects column dictionaries with a repeated key or with value lists whose length
     differs from the row list (not representable as Python dicts / never produced);
   * private columns (lookup maps, summary helper columns) are not part of the schema and do not occur here;
   * cells of a row id that is not in the table hold the column default in the engine (unset on removal,
     growto on growth, clear on load); the model makes this explicit when rows are added.                    *)
From Coq Require Import ZArith List Bool.
Import ListNotations.
Open Scope Z_scope.

(* ------------------------------------------------------------------------------------------------ *)
(* names *)

Definition name := list Z.

Fixpoint name_eqb (a b : name) : bool :=
  match a, b with
  | [], [] => true
  | x :: a', y :: b' => Z.eqb x y && name_eqb a' b'
  | _, _ => false
  end.

Definition oname_eqb (a b : option name) : bool :=
  match a, b with
  | None, None => true
  | Some x, Some y => name_eqb x y
  | _, _ => false
  end.

(* action_summary.defunct_name / is_defunct / root_name: the '-' prefix (code point 45) *)
Definition defunct_name (n : name) : name := 45 :: n.
Definition is_defunct (n : name) : bool := match n with 45 :: _ => true | _ => false end.
Definition root_name (n : name) : name := match n with 45 :: r => r | _ => n end.

Definition id_name : name := [105; 100].   (* "id" *)

(* lexicographic order on names = Python's order on str (by code point) *)
Fixpoint name_ltb (a b : name) : bool :=
  match a, b with
  | [], [] => false
  | [], _ :: _ => true
  | _ :: _, [] => false
  | x :: a', y :: b' => if Z.ltb x y then true else if Z.eqb x y then name_ltb a' b' else false
  end.

Fixpoint insert_by {A} (ltb : A -> A -> bool) (x : A) (l : list A) : list A :=
  match l with
  | [] => [x]
  | y :: t => if ltb y x then y :: insert_by ltb x t else x :: l
  end.

Definition sort_by {A} (ltb : A -> A -> bool) (l : list A) : list A :=
  fold_right (insert_by ltb) [] l.

Fixpoint zmem (r : Z) (l : list Z) : bool :=
  match l with [] => false | x :: t => if Z.eqb r x then true else zmem r t end.

(* insertion into the sorted row-id list, no duplicates *)
Fixpoint zinsert (r : Z) (l : list Z) : list Z :=
  match l with
  | [] => [r]
  | x :: t => if Z.ltb r x then r :: l else if Z.eqb r x then l else x :: zinsert r t
  end.

Fixpoint nmem (n : name) (l : list name) : bool :=
  match l with [] => false | x :: t => if name_eqb n x then true else nmem n t end.

Fixpoint nodup_names (l : list name) : bool :=
  match l with [] => true | x :: t => negb (nmem x t) && nodup_names t end.

(* ------------------------------------------------------------------------------------------------ *)
(* results *)

Inductive err :=
| E_no_table | E_table_exists | E_no_column | E_column_exists | E_row_exists | E_no_row
| E_domain | E_undo_not_modify | E_summary.

Inductive res (A : Type) := Ok (a : A) | Err (e : err).
Arguments Ok {A} a.
Arguments Err {A} e.

Definition bind {A B} (x : res A) (f : A -> res B) : res B :=
  match x with Ok a => f a | Err e => Err e end.

Notation "'do' x <- a ; b" := (bind a (fun x => b)) (at level 200, x pattern, a at level 100, b at level 200).

(* ------------------------------------------------------------------------------------------------ *)
(* cell values: the operations the engine applies to them *)

Record ValOps := mkValOps {
  V : Type;
  vstrict : V -> V -> bool;      (* objtypes.strict_equal *)
  venc : V -> V -> bool;         (* objtypes.equal_encoding *)
  vdefault : name -> V;          (* column.getdefault(), by column type *)
  vnorm : name -> V -> V;        (* what Column.set stores for a value, by column type *)
}.

(* schema.SchemaColumn minus the id *)
Record colinfo := mkCI { ci_type : name; ci_isformula : bool; ci_formula : name; ci_rev : option name }.

Definition colinfo_eqb (a b : colinfo) : bool :=
  name_eqb (ci_type a) (ci_type b) && Bool.eqb (ci_isformula a) (ci_isformula b) &&
  name_eqb (ci_formula a) (ci_formula b) && oname_eqb (ci_rev a) (ci_rev b).

(* the col_info dict of a ModifyColumn action: any subset of the four keys *)
Record modinfo := mkMI { mi_type : option name; mi_isformula : option bool; mi_formula : option name;
                         mi_rev : option (option name) }.

Definition opt_or {A} (o : option A) (d : A) : A := match o with Some x => x | None => d end.

Definition apply_modinfo (m : modinfo) (old : colinfo) : colinfo :=
  mkCI (opt_or (mi_type m) (ci_type old)) (opt_or (mi_isformula m) (ci_isformula old))
       (opt_or (mi_formula m) (ci_formula old)) (opt_or (mi_rev m) (ci_rev old)).

(* undo_col_info: the old values of exactly the keys present in col_info *)
Definition undo_modinfo (m : modinfo) (old : colinfo) : modinfo :=
  mkMI (match mi_type m with Some _ => Some (ci_type old) | None => None end)
       (match mi_isformula m with Some _ => Some (ci_isformula old) | None => None end)
       (match mi_formula m with Some _ => Some (ci_formula old) | None => None end)
       (match mi_rev m with Some _ => Some (ci_rev old) | None => None end).

Section Model.
Variable O : ValOps.
Notation V := (V O).

(* ------------------------------------------------------------------------------------------------ *)
(* document state *)

Definition cells := list (Z * V).

Fixpoint cget (d : cells) (r : Z) : option V :=
  match d with
  | [] => None
  | (r', v) :: t => if Z.eqb r r' then Some v else cget t r
  end.

Record column := mkCol { c_id : name; c_info : colinfo; c_data : cells }.
Record table := mkTab { t_id : name; t_rows : list Z; t_cols : list column }.
Definition state := list table.

Definition col_default (c : column) : V := vdefault O (ci_type (c_info c)).

(* Column.raw_get *)
Definition col_get (c : column) (r : Z) : V :=
  match cget (c_data c) r with Some v => v | None => col_default c end.

(* Column.set: the column class normalises the value *)
Definition col_set (c : column) (r : Z) (v : V) : column :=
  mkCol (c_id c) (c_info c) ((r, vnorm O (ci_type (c_info c)) v) :: c_data c).

Definition col_unset (c : column) (r : Z) : column := col_set c r (col_default c).

Fixpoint col_set_many (c : column) (rows : list Z) (vals : list V) : column :=
  match rows, vals with
  | r :: rows', v :: vals' => col_set_many (col_set c r v) rows' vals'
  | _, _ => c
  end.

Definition col_unset_many (c : column) (rows : list Z) : column :=
  fold_left col_unset rows c.

Fixpoint find_table (s : state) (t : name) : option table :=
  match s with
  | [] => None
  | T :: s' => if name_eqb t (t_id T) then Some T else find_table s' t
  end.

Fixpoint find_col (cs : list column) (c : name) : option column :=
  match cs with
  | [] => None
  | C :: cs' => if name_eqb c (c_id C) then Some C else find_col cs' c
  end.

(* replace the first table called t *)
Fixpoint put_table (s : state) (t : name) (T' : table) : state :=
  match s with
  | [] => []
  | T :: s' => if name_eqb t (t_id T) then T' :: s' else T :: put_table s' t T'
  end.

Fixpoint drop_table (s : state) (t : name) : state :=
  match s with
  | [] => []
  | T :: s' => if name_eqb t (t_id T) then drop_table s' t else T :: drop_table s' t
  end.

Fixpoint put_col (cs : list column) (c : name) (C' : column) : list column :=
  match cs with
  | [] => []
  | C :: cs' => if name_eqb c (c_id C) then C' :: cs' else C :: put_col cs' c C'
  end.

Fixpoint drop_col (cs : list column) (c : name) : list column :=
  match cs with
  | [] => []
  | C :: cs' => if name_eqb c (c_id C) then drop_col cs' c else C :: drop_col cs' c
  end.

(* table.has_column: the id column always exists *)
Definition has_column (T : table) (c : name) : bool :=
  name_eqb c id_name || match find_col (t_cols T) c with Some _ => true | None => false end.

(* ------------------------------------------------------------------------------------------------ *)
(* doc actions *)

Definition colvals := list (name * list V).

Inductive action :=
| BulkAddRecord (t : name) (rows : list Z) (cols : colvals)
| BulkRemoveRecord (t : name) (rows : list Z)
| BulkUpdateRecord (t : name) (rows : list Z) (cols : colvals)
| ReplaceTableData (t : name) (rows : list Z) (cols : colvals)
| AddColumn (t c : name) (info : colinfo)
| RemoveColumn (t c : name)
| RenameColumn (t old new : name)
| ModifyColumn (t c : name) (m : modinfo)
| AddTable (t : name) (cols : list (name * colinfo))
| RemoveTable (t : name)
| RenameTable (old new : name).

(* the calls a doc action makes on out_actions.summary, in order *)
Definition change := (Z * (V * V))%type.        (* (row_id, (before, after)) *)
Inductive sumop :=
| SAddRecords (t : name) (rows : list Z)
| SRemoveRecords (t : name) (rows : list Z)
| SRenameColumn (t : name) (old : option name) (new : name)
| SRenameTable (old : option name) (new : name)
| SAddChanges (t c : name) (chs : list change).

Definition out := (list action * list sumop)%type.   (* undo actions appended, summary calls *)

Definition colvals_ok (rows : list Z) (cols : colvals) : bool :=
  nodup_names (map fst cols) &&
  forallb (fun kv => Nat.eqb (length (snd kv)) (length rows)) cols &&
  negb (nmem id_name (map fst cols)).

Definition all_in (rows have : list Z) : bool := forallb (fun r => zmem r have) rows.
Definition none_in (rows have : list Z) : bool := forallb (fun r => negb (zmem r have)) rows.

(* set the given columns of the given rows; a missing column is a KeyError *)
Fixpoint set_columns (cs : list column) (rows : list Z) (cols : colvals) : res (list column) :=
  match cols with
  | [] => Ok cs
  | (c, vals) :: rest =>
      match find_col cs c with
      | None => Err E_no_column
      | Some C => set_columns (put_col cs c (col_set_many C rows vals)) rows rest
      end
  end.

(* Engine.add_records (plus the explicit defaults, see the header) *)
Definition add_records (T : table) (rows : list Z) (cols : colvals) : res table :=
  let cs0 := map (fun C => col_unset_many C rows) (t_cols T) in
  do cs <- set_columns cs0 rows cols;
  Ok (mkTab (t_id T) (fold_left (fun l r => zinsert r l) rows (t_rows T)) cs).

Definition is_all_default (C : column) (vals : list V) : bool :=
  forallb (fun v => vstrict O v (col_default C)) vals.

(* the old values of the named columns, in the order of the action's dict *)
Fixpoint old_values (cs : list column) (rows : list Z) (cols : colvals) : res colvals :=
  match cols with
  | [] => Ok []
  | (c, _) :: rest =>
      match find_col cs c with
      | None => Err E_no_column
      | Some C => do tl <- old_values cs rows rest; Ok ((c, map (col_get C) rows) :: tl)
      end
  end.

Definition col_to_info (C : column) : name * colinfo := (c_id C, c_info C).

Definition apply_doc (a : action) (s : state) : res (state * out) :=
  match a with
  | BulkAddRecord t rows cols =>
      match find_table s t with
      | None => Err E_no_table
      | Some T =>
          if negb (colvals_ok rows cols) || match rows with [] => true | _ => false end then Err E_domain
          else if negb (none_in rows (t_rows T)) then Err E_row_exists
          else
            do T' <- add_records T rows cols;
            Ok (put_table s t T', ([BulkRemoveRecord t rows], [SAddRecords t rows]))
      end
  | BulkRemoveRecord t rows =>
      match find_table s t with
      | None => Err E_no_table
      | Some T =>
          let rows' := filter (fun r => zmem r (t_rows T)) rows in
          match rows' with
          | [] => Ok (s, ([], []))
          | _ =>
              let undo_values :=
                flat_map (fun C => let vals := map (col_get C) rows' in
                                   if is_all_default C vals then [] else [(c_id C, vals)]) (t_cols T) in
              let cs := map (fun C => col_unset_many C rows') (t_cols T) in
              let T' := mkTab (t_id T) (filter (fun r => negb (zmem r rows')) (t_rows T)) cs in
              Ok (put_table s t T', ([BulkAddRecord t rows' undo_values], [SRemoveRecords t rows']))
          end
      end
  | BulkUpdateRecord t rows cols =>
      match find_table s t with
      | None => Err E_no_table
      | Some T =>
          if negb (colvals_ok rows cols) || match rows with [] => true | _ => false end then Err E_domain
          else if negb (all_in rows (t_rows T)) then Err E_no_row
          else
            (* all undo values are collected, and the undo action appended, before any cell is set (repo commit 6f648c6) *)
            do undo_values <- old_values (t_cols T) rows cols;
            do cs <- set_columns (t_cols T) rows cols;
            Ok (put_table s t (mkTab (t_id T) (t_rows T) cs), ([BulkUpdateRecord t rows undo_values], []))
      end
  | ReplaceTableData t rows cols =>
      match find_table s t with
      | None => Err E_no_table
      | Some T =>
          if negb (colvals_ok rows cols) then Err E_domain
          else
            let old_rows := t_rows T in
            let old_data := flat_map (fun C => if ci_isformula (c_info C) then []
                                               else [(c_id C, map (col_get C) old_rows)]) (t_cols T) in
            (* load_table: clear every column, keep only the columns the table has *)
            let cleared := mkTab (t_id T) [] (map (fun C => mkCol (c_id C) (c_info C) []) (t_cols T)) in
            let cols' := filter (fun kv => match find_col (t_cols T) (fst kv) with Some _ => true | None => false end) cols in
            do T' <- add_records cleared rows cols';
            Ok (put_table s t T',
                ([ReplaceTableData t old_rows old_data], [SRemoveRecords t old_rows; SAddRecords t rows]))
      end
  | AddColumn t c info =>
      match find_table s t with
      | None => Err E_no_table
      | Some T =>
          if has_column T c then Err E_column_exists
          else Ok (put_table s t (mkTab (t_id T) (t_rows T) (t_cols T ++ [mkCol c info []])),
                   ([RemoveColumn t c], [SRenameColumn t None c]))
      end
  | RemoveColumn t c =>
      match find_table s t with
      | None => Err E_no_table
      | Some T =>
          match find_col (t_cols T) c with
          | None => Err E_no_column
          | Some C =>
              let undo_values := filter (fun rv => negb (vstrict O (snd rv) (col_default C)))
                                        (map (fun r => (r, col_get C r)) (t_rows T)) in
              let T' := mkTab (t_id T) (t_rows T) (drop_col (t_cols T) c) in
              let add := AddColumn t c (c_info C) in
              let ren := SRenameColumn t (Some c) (defunct_name c) in
              match undo_values with
              | [] => Ok (put_table s t T', ([add], [ren]))
              | _ =>
                  if ci_isformula (c_info C)
                  then Ok (put_table s t T',
                           ([add], [SAddChanges t c (map (fun rv => (fst rv, (snd rv, col_default C))) undo_values); ren]))
                  else Ok (put_table s t T',
                           ([BulkUpdateRecord t (map fst undo_values) [(c, map snd undo_values)]; add], [ren]))
              end
          end
      end
  | RenameColumn t old new =>
      match find_table s t with
      | None => Err E_no_table
      | Some T =>
          match find_col (t_cols T) old with
          | None => Err E_no_column
          | Some C =>
              if has_column T new then Err E_column_exists
              else Ok (put_table s t (mkTab (t_id T) (t_rows T)
                                            (drop_col (t_cols T) old ++ [mkCol new (c_info C) (c_data C)])),
                       ([RenameColumn t new old], [SRenameColumn t (Some old) new]))
          end
      end
  | ModifyColumn t c m =>
      match find_table s t with
      | None => Err E_no_table
      | Some T =>
          match find_col (t_cols T) c with
          | None => Err E_no_column
          | Some C =>
              let new := apply_modinfo m (c_info C) in
              if colinfo_eqb new (c_info C) then Ok (s, ([], []))
              else
                let fresh := mkCol c new [] in
                let C' := col_set_many fresh (t_rows T) (map (col_get C) (t_rows T)) in
                Ok (put_table s t (mkTab (t_id T) (t_rows T) (drop_col (t_cols T) c ++ [C'])),
                    ([ModifyColumn t c (undo_modinfo m (c_info C))], []))
          end
      end
  | AddTable t cols =>
      match find_table s t with
      | Some _ => Err E_table_exists
      | None =>
          if negb (nodup_names (map fst cols)) || nmem id_name (map fst cols) then Err E_domain
          else Ok (s ++ [mkTab t [] (map (fun ci => mkCol (fst ci) (snd ci) []) cols)],
                   ([RemoveTable t], [SRenameTable None t]))
      end
  | RemoveTable t =>
      match find_table s t with
      | None => Err E_no_table
      | Some T =>
          let data := map (fun C => (c_id C, map (col_get C) (t_rows T))) (t_cols T) in
          let addt := AddTable t (map col_to_info (t_cols T)) in
          let ren := SRenameTable (Some t) (defunct_name t) in
          match t_rows T with
          | [] => Ok (drop_table s t, ([addt], [ren]))
          | _ => Ok (drop_table s t, ([BulkAddRecord t (t_rows T) data; addt], [ren]))
          end
      end
  | RenameTable old new =>
      match find_table s old with
      | None => Err E_no_table
      | Some T =>
          match find_table s new with
          | Some _ => Err E_table_exists
          | None => Ok (drop_table s old ++ [mkTab new (t_rows T) (t_cols T)],
                        ([RenameTable new old], [SRenameTable (Some old) new]))
          end
      end
  end.

(* ApplyUndoActions / ApplyDocActions: the actions one after the other through DocActions
   (ApplyUndoActions receives the undo list and walks it reversed: replay_doc (rev undo)) *)
Fixpoint replay_doc (acts : list action) (s : state) : res state :=
  match acts with
  | [] => Ok s
  | a :: rest => do so <- apply_doc a s; replay_doc rest (fst so)
  end.

(* ------------------------------------------------------------------------------------------------ *)
(* ActionSummary *)

(* LabelRenames._new_to_old: latest name -> original name (None: created) *)
Definition renames := list (name * option name).

Fixpoint ren_get (m : renames) (k : name) : option (option name) :=
  match m with
  | [] => None
  | (k', v) :: t => if name_eqb k k' then Some v else ren_get t k
  end.

Fixpoint ren_del (m : renames) (k : name) : renames :=
  match m with
  | [] => []
  | (k', v) :: t => if name_eqb k k' then ren_del t k else (k', v) :: ren_del t k
  end.

(* dict assignment *)
Definition ren_set (m : renames) (k : name) (v : option name) : renames := (k, v) :: ren_del m k.

Definition add_rename (m : renames) (before : option name) (after : name) : renames :=
  match before with
  | None => ren_set m after None
  | Some b =>
      match ren_get m b with
      | Some orig => ren_set (ren_del m b) after orig
      | None => ren_set m after (Some b)
      end
  end.

Definition ren_is_created (m : renames) (latest : name) : bool :=
  match ren_get m latest with Some None => true | _ => false end.

Definition ren_original (m : renames) (latest : name) : name :=
  match ren_get m latest with
  | Some (Some o) => o
  | Some None => root_name latest
  | None => latest
  end.

Definition presence := list (Z * bool).

Fixpoint pres_get (m : presence) (r : Z) : option bool :=
  match m with
  | [] => None
  | (r', b) :: t => if Z.eqb r r' then Some b else pres_get t r
  end.

Definition pres_set (m : presence) (r : Z) (b : bool) : presence := (r, b) :: m.
Definition pres_setdefault (m : presence) (r : Z) (b : bool) : presence :=
  match pres_get m r with Some _ => m | None => (r, b) :: m end.

Definition coldelta := list change.      (* {row_id: (before, after)}; first entry for a row wins *)

Fixpoint delta_get (d : coldelta) (r : Z) : option (V * V) :=
  match d with
  | [] => None
  | (r', ba) :: t => if Z.eqb r r' then Some ba else delta_get t r
  end.

Fixpoint delta_put (d : coldelta) (r : Z) (ba : V * V) : coldelta :=
  match d with
  | [] => [(r, ba)]
  | (r', x) :: t => if Z.eqb r r' then (r, ba) :: t else (r', x) :: delta_put t r ba
  end.

(* add_changes on one column dict: keep the first `before`, take the last `after` *)
Definition delta_add (d : coldelta) (ch : change) : coldelta :=
  let '(r, (b, a)) := ch in
  match delta_get d r with
  | Some (b0, _) => delta_put d r (b0, a)
  | None => delta_put d r (b, a)
  end.

Record tdelta := mkTD {
  td_before : presence;            (* _rows_present_before *)
  td_after : presence;             (* _rows_present_after *)
  td_colren : renames;             (* column_renames *)
  td_deltas : list (name * coldelta)   (* column_deltas, keyed by the latest column name *)
}.

Definition td_empty : tdelta := mkTD [] [] [] [].

Record summary := mkSum { sm_tables : list (name * tdelta); sm_tabren : renames }.
Definition sum_empty : summary := mkSum [] [].

Fixpoint td_find (l : list (name * tdelta)) (t : name) : option tdelta :=
  match l with
  | [] => None
  | (t', d) :: r => if name_eqb t t' then Some d else td_find r t
  end.

Fixpoint td_del (l : list (name * tdelta)) (t : name) : list (name * tdelta) :=
  match l with
  | [] => []
  | (t', d) :: r => if name_eqb t t' then td_del r t else (t', d) :: td_del r t
  end.

Definition td_put (l : list (name * tdelta)) (t : name) (d : tdelta) : list (name * tdelta) :=
  (t, d) :: td_del l t.

(* _forTable *)
Definition for_table (sm : summary) (t : name) : tdelta :=
  match td_find (sm_tables sm) t with Some d => d | None => td_empty end.

Definition with_table (sm : summary) (t : name) (d : tdelta) : summary :=
  mkSum (td_put (sm_tables sm) t d) (sm_tabren sm).

Fixpoint cd_find (l : list (name * coldelta)) (c : name) : option coldelta :=
  match l with
  | [] => None
  | (c', d) :: r => if name_eqb c c' then Some d else cd_find r c
  end.

Fixpoint cd_del (l : list (name * coldelta)) (c : name) : list (name * coldelta) :=
  match l with
  | [] => []
  | (c', d) :: r => if name_eqb c c' then cd_del r c else (c', d) :: cd_del r c
  end.

Definition cd_put (l : list (name * coldelta)) (c : name) (d : coldelta) : list (name * coldelta) :=
  (c, d) :: cd_del l c.

Definition sum_apply (sm : summary) (op : sumop) : summary :=
  match op with
  | SAddRecords t rows =>
      let d := for_table sm t in
      let d' := fold_left (fun d r => mkTD (pres_setdefault (td_before d) r false) (pres_set (td_after d) r true)
                                           (td_colren d) (td_deltas d)) rows d in
      with_table sm t d'
  | SRemoveRecords t rows =>
      let d := for_table sm t in
      let d' := fold_left (fun d r => mkTD (pres_setdefault (td_before d) r true) (pres_set (td_after d) r false)
                                           (td_colren d) (td_deltas d)) rows d in
      with_table sm t d'
  | SRenameColumn t old new =>
      let d := for_table sm t in
      let ren := add_rename (td_colren d) old new in
      let deltas :=
        match old with
        | Some o => match cd_find (td_deltas d) o with
                    | Some cd => cd_put (cd_del (td_deltas d) o) new cd
                    | None => td_deltas d
                    end
        | None => td_deltas d
        end in
      with_table sm t (mkTD (td_before d) (td_after d) ren deltas)
  | SRenameTable old new =>
      let ren := add_rename (sm_tabren sm) old new in
      let tabs :=
        match old with
        | Some o => match td_find (sm_tables sm) o with
                    | Some d => td_put (td_del (sm_tables sm) o) new d
                    | None => sm_tables sm
                    end
        | None => sm_tables sm
        end in
      mkSum tabs ren
  | SAddChanges t c chs =>
      let d := for_table sm t in
      let cd := match cd_find (td_deltas d) c with Some x => x | None => [] end in
      let cd' := fold_left delta_add chs cd in
      with_table sm t (mkTD (td_before d) (td_after d) (td_colren d) (cd_put (td_deltas d) c cd'))
  end.

Definition sum_is_created (sm : summary) (t c : name) : bool :=
  ren_is_created (sm_tabren sm) t ||
  match td_find (sm_tables sm) t with
  | Some d => ren_is_created (td_colren d) c
  | None => false
  end.

(* filter_out_new_rows / filter_out_gone_rows: looked up under the name given (the root name) *)
Definition filter_out_new_rows (sm : summary) (t : name) (rows : list Z) : list Z :=
  match td_find (sm_tables sm) t with
  | None => rows
  | Some d => filter (fun r => match pres_get (td_before d) r with Some false => false | _ => true end) rows
  end.

Definition filter_out_gone_rows (sm : summary) (t : name) (rows : list Z) : list Z :=
  match td_find (sm_tables sm) t with
  | None => rows
  | Some d => filter (fun r => match pres_get (td_after d) r with Some false => false | _ => true end) rows
  end.

Definition delta_values (cd : coldelta) (rows : list Z) (after : bool) : list V :=
  flat_map (fun r => match delta_get cd r with
                     | Some (b, a) => [if after then a else b]
                     | None => []
                     end) rows.

Definition update_action (t c : name) (cd : coldelta) (rows : list Z) (after : bool) : action :=
  BulkUpdateRecord t rows [(c, delta_values cd rows after)].

(* ActionSummary._changes_to_actions; (stored, undo) in, (stored, undo) out *)
Definition changes_to_actions (sm : summary) (t c : name) (cd : coldelta)
                              (so : list action * list action) : res (list action * list action) :=
  match cd with
  | [] => Ok so
  | _ =>
      let '(stored, undo) := so in
      let full_rows := sort_by Z.ltb (map fst (filter (fun ch => negb (venc O (fst (snd ch)) (snd (snd ch)))) cd)) in
      let defunct := is_defunct t || is_defunct c in
      match td_find (sm_tables sm) t with
      | None => Err E_summary
      | Some td =>
          let orig_t := ren_original (sm_tabren sm) t in
          let orig_c := ren_original (td_colren td) c in
          let t' := root_name t in
          let c' := root_name c in
          let rows_after := if defunct then [] else filter_out_gone_rows sm t' full_rows in
          let stored' := match rows_after with
                         | [] => stored
                         | _ => stored ++ [update_action t' c' cd rows_after true]
                         end in
          if sum_is_created sm t' c' && negb defunct then Ok (stored', undo)
          else
            (* delta_key: the presence maps are looked up under the LATEST name t (the defunct name of a removed
               table), not under its root name (repo commit b239974) *)
            let rows_before := filter_out_new_rows sm t full_rows in
            let preserved := if defunct then [] else filter_out_gone_rows sm t' rows_before in
            let defunct_rows := filter (fun r => negb (zmem r preserved)) rows_before in
            let undo1 := match preserved with
                         | [] => undo
                         | _ => undo ++ [update_action t' c' cd preserved false]
                         end in
            let undo2 := match defunct_rows with
                         | [] => undo1
                         | _ => update_action orig_t orig_c cd defunct_rows false :: undo1
                         end in
            Ok (stored', undo2)
      end
  end.

(* convert_deltas_to_actions: tables and columns in sorted order of their latest names *)
Definition sorted_keys {A} (l : list (name * A)) : list name := sort_by name_ltb (map fst l).

Definition flush_table (sm : summary) (t : name) (so : list action * list action)
  : res (list action * list action) :=
  match td_find (sm_tables sm) t with
  | None => Ok so
  | Some td =>
      fold_left (fun acc c => do so' <- acc;
                              match cd_find (td_deltas td) c with
                              | Some cd => changes_to_actions sm t c cd so'
                              | None => Ok so'
                              end)
                (sorted_keys (td_deltas td)) (Ok so)
  end.

Definition flush_all (sm : summary) (so : list action * list action) : res (list action * list action) :=
  fold_left (fun acc t => do so' <- acc; flush_table sm t so') (sorted_keys (sm_tables sm)) (Ok so).

(* pop_column_delta_as_actions *)
Definition flush_column (sm : summary) (t c : name) (so : list action * list action)
  : res (summary * (list action * list action)) :=
  match td_find (sm_tables sm) t with
  | None => Ok (sm, so)
  | Some td =>
      match cd_find (td_deltas td) c with
      | None => Ok (sm, so)
      | Some cd =>
          let sm' := with_table sm t (mkTD (td_before td) (td_after td) (td_colren td) (cd_del (td_deltas td) c)) in
          do so' <- changes_to_actions sm' t c cd so;
          Ok (sm', so')
      end
  end.

(* ------------------------------------------------------------------------------------------------ *)
(* the bundle: events *)

Inductive event :=
| Doc (a : action)                               (* UserActions._do_doc_action *)
| Calc (t c : name) (chs : list change)          (* cells recomputed / converted: column.set + summary.add_changes *)
| FlushCol (t c : name)                          (* doModifyColumn: pop the ModifyColumn undo, flush the column, push it back *)
| FlushAll.                                      (* ActionGroup.flush_calc_changes *)

Record mstate := mkM { m_doc : state; m_stored : list action; m_undo : list action; m_sum : summary }.

Definition calc_cells (s : state) (t c : name) (chs : list change) : res state :=
  match find_table s t with
  | None => Err E_no_table
  | Some T =>
      match find_col (t_cols T) c with
      | None => Err E_no_column
      | Some C =>
          let C' := fold_left (fun C ch => col_set C (fst ch) (snd (snd ch))) chs C in
          Ok (put_table s t (mkTab (t_id T) (t_rows T) (put_col (t_cols T) c C')))
      end
  end.

Definition is_modify (a : action) : bool := match a with ModifyColumn _ _ _ => true | _ => false end.

Definition step (m : mstate) (e : event) : res mstate :=
  match e with
  | Doc a =>
      do so <- apply_doc a (m_doc m);
      let '(s', (u, ops)) := so in
      Ok (mkM s' (m_stored m ++ [a]) (m_undo m ++ u) (fold_left sum_apply ops (m_sum m)))
  | Calc t c chs =>
      do s' <- calc_cells (m_doc m) t c chs;
      Ok (mkM s' (m_stored m) (m_undo m) (sum_apply (m_sum m) (SAddChanges t c chs)))
  | FlushCol t c =>
      match rev (m_undo m) with
      | last :: before_rev =>
          if is_modify last then
            do r <- flush_column (m_sum m) t c (m_stored m, rev before_rev);
            let '(sm', (st', un')) := r in
            Ok (mkM (m_doc m) st' (un' ++ [last]) sm')
          else Err E_undo_not_modify
      | [] => Err E_undo_not_modify
      end
  | FlushAll =>
      do so <- flush_all (m_sum m) (m_stored m, m_undo m);
      Ok (mkM (m_doc m) (fst so) (snd so) sum_empty)
  end.

Fixpoint steps (m : mstate) (es : list event) : res mstate :=
  match es with
  | [] => Ok m
  | e :: rest => do m' <- step m e; steps m' rest
  end.

Record outputs := mkOut { o_stored : list action; o_undo : list action }.

(* one bundle: Engine.apply_user_actions starts with an empty ActionGroup and ends with flush_calc_changes *)
Definition run (s : state) (es : list event) : res (state * outputs) :=
  do m <- steps (mkM s [] [] sum_empty) (es ++ [FlushAll]);
  Ok (m_doc m, mkOut (m_stored m) (m_undo m)).

End Model.
