(* C25 -- migration BODIES, modelled by hand from migrations.py, one function tds -> res (list action) per
   migration (what the migration hands to tdset.apply_doc_actions).  Each is compared on every run with the
   actions the real migration emitted on generated documents (harness/props/c25.py, "bodies" part of the link).

   Oracles (Section variables): json.loads on a Text cell (`parse`: an arbitrary JSON value, or failure),
   json.dumps (`dumps`, `dumps_compact`) and int(x / 1000) on a JSON number (`secs`). *)
From Coq Require Import ZArith Bool String List.
Import ListNotations.
Require Import Grist.Model.Migrate Grist.Model.MigrateSites.
Open Scope Z_scope.

(* ---------- Python values: truthiness, ==, hashing ---------- *)
Definition val_truthy (v : val) : bool :=
  match v with
  | VNull => false
  | VBool b => b
  | VInt z => negb (Z.eqb z 0)
  | VFlt bits => negb (flt_is_zero bits)
  | VStr s => match s with [] => false | _ => true end
  | VList l => match l with [] => false | _ => true end
  | VDict m => match m with [] => false | _ => true end
  end.

(* the integer a double equals, if any *)
Definition flt_to_Z (bits : Z) : option Z :=
  let neg := Z.leb 9223372036854775808 bits in
  let e := flt_exp bits in
  let m := flt_mant bits in
  let mag :=
    if Z.eqb e 2047 then None
    else if Z.eqb e 0 then (if Z.eqb m 0 then Some 0 else None)
    else let sig := 4503599627370496 + m in
         if Z.leb 1075 e then Some (sig * 2 ^ (e - 1075))
         else let d := 2 ^ (1075 - e) in if Z.eqb (sig mod d) 0 then Some (sig / d) else None in
  match mag with Some z => Some (if neg then - z else z) | None => None end.

(* numbers compare by value across bool / int / float *)
Inductive numkey := NInt (z : Z) | NFlt (bits : Z).
Definition num_key (v : val) : option numkey :=
  match v with
  | VBool b => Some (NInt (if b then 1 else 0))
  | VInt z => Some (NInt z)
  | VFlt bits => match flt_to_Z bits with Some z => Some (NInt z) | None => Some (NFlt bits) end
  | _ => None
  end.

Fixpoint py_eq (a b : val) : bool :=
  match num_key a, num_key b with
  | Some (NInt x), Some (NInt y) => Z.eqb x y
  | Some (NFlt x), Some (NFlt y) => Z.eqb x y
  | Some _, _ | _, Some _ => false
  | None, None =>
      match a, b with
      | VNull, VNull => true
      | VStr x, VStr y => seqb x y
      | VList x, VList y =>
          (fix go (l1 l2 : list val) : bool :=
             match l1, l2 with
             | [], [] => true
             | u :: l1', v :: l2' => py_eq u v && go l1' l2'
             | _, _ => false
             end) x y
      | _, _ => false        (* dict == dict is not needed by the migrations *)
      end
  end.

Definition hashable (v : val) : bool := match v with VList _ | VDict _ => false | _ => true end.
Definition hash_key (v : val) : res val := if hashable v then Ok v else Err TypeErr.   (* unhashable type *)

Definition rid_val (r : rid) : val := match r with Some z => VInt z | None => VNull end.

(* dict / set keyed by Python values *)
Fixpoint pd_get {V} (k : val) (m : list (val * V)) : option V :=
  match m with
  | [] => None
  | (k', v) :: m' => if py_eq k k' then Some v else pd_get k m'
  end.
Fixpoint pd_set {V} (k : val) (v : V) (m : list (val * V)) : list (val * V) :=
  match m with
  | [] => [(k, v)]
  | (k', v') :: m' => if py_eq k k' then (k', v) :: m' else (k', v') :: pd_set k v m'
  end.
Definition pset_mem (k : val) (l : list val) : bool := existsb (py_eq k) l.

(* ---------- records: actions.transpose_bulk_action ---------- *)
Definition record := (rid * list (str * val))%type.

Fixpoint heads (cols : list (str * list val)) : option (list (str * val) * list (str * list val)) :=
  match cols with
  | [] => Some ([], [])
  | (c, []) :: _ => None
  | (c, v :: vs) :: rest =>
      match heads rest with
      | Some (hs, ts) => Some ((c, v) :: hs, (c, vs) :: ts)
      | None => None
      end
  end.

(* zip(row_ids, *columns): stops at the shortest *)
Fixpoint transpose (rows : list rid) (cols : list (str * list val)) : list record :=
  match rows with
  | [] => []
  | r :: rows' =>
      match heads cols with
      | Some (hs, ts) => (r, hs) :: transpose rows' ts
      | None => []
      end
  end.

Definition table_records (t : str) (s : tds) : res (list record) :=
  match lookup t (t_data s) with
  | None => Err KeyErr
  | Some td => Ok (transpose (fst td) (snd td))
  end.

Definition rows_of_model (t : str) (s : tds) : list rid :=
  match lookup t (t_data s) with Some td => fst td | None => [] end.

Definition fld (c : str) (r : record) : res val :=      (* r.c *)
  match lookup c (snd r) with Some v => Ok v | None => Err AttrErr end.

Fixpoint mapM {A B} (f : A -> res B) (l : list A) : res (list B) :=
  match l with
  | [] => Ok []
  | x :: l' => bind (f x) (fun y => bind (mapM f l') (fun ys => Ok (y :: ys)))
  end.

(* ---------- the hypotheses of the totality theorems, as decidable checks (evaluated on every generated
              document by the harness, and used by the Examples) ---------- *)
Definition recs (t : str) (s : tds) : list record :=
  match lookup t (t_data s) with Some td => transpose (fst td) (snd td) | None => [] end.
Definition is_text (v : val) : bool := match v with VStr _ => true | _ => false end.
Definition any_val (_ : val) : bool := true.
Definition falsy_or_text (v : val) : bool := negb (val_truthy v) || is_text v.
Definition wide_b (n : nat) (cols : list (str * list val)) : bool :=
  forallb (fun cv => Nat.leb n (length (snd cv))) cols.
Definition J_b (s : tds) : bool :=
  forallb (fun kv => wide_b (length (fst (snd kv))) (snd (snd kv)) && has (fst kv) (t_schema s)) (t_data s).
Definition col_ok_b (P : val -> bool) (t c : str) (s : tds) : bool :=
  forallb (fun r => match fld c r with Ok v => P v | Err _ => false end) (recs t s).
Definition has_table_b (t : str) (s : tds) : bool := has t (t_data s).

(* add_column(table, col, type, formula='', isFormula=False) *)
Definition add_column (t c ty : str) : action := AddColumn t c (mkci c ty false []).

(* ---------- JSON helpers ---------- *)
Definition jget (k : str) (j : json) : option json := match j with JObj m => lookup k m | _ => None end.

Fixpoint json_to_val (j : json) : val :=
  match j with
  | JNull => VNull
  | JBool b => VBool b
  | JNum (JInt z) => VInt z
  | JNum (JFlt bits) => VFlt bits
  | JStr s => VStr s
  | JArr l => VList (map json_to_val l)
  | JObj m => VDict (map (fun kv => (fst kv, json_to_val (snd kv))) m)
  end.

Section Bodies.
  Variable parse : str -> option json.          (* json.loads(text): Some value, or None for ValueError *)
  Variable dumps : json -> str.                 (* json.dumps(value) *)
  Variable dumps_compact : json -> str.         (* json.dumps(value, separators=(',', ':')) *)
  Variable secs : jnum -> res Z.                (* int(x / 1000) for a JSON number x *)
  Variable pick_col : list str -> str.          (* identifiers.pick_col_ident('gristHelper_Display', avoid=set) *)
  Variable str_of_json : json -> str.           (* '%s' % value, for a JSON value that is not a string *)
  Variable summary_match : str -> option (str * str).   (* summary_re.match(name): None, or groups 1 and 2 *)
  Variable pick_table : str -> list str -> str.         (* identifiers.pick_table_ident(name, avoid=set) *)
  Variable re_sub : str -> str -> str -> str.           (* re.sub(pattern, repl, text); repl = [] for a function *)

  (* json.loads on a cell: a cell that is not a string raises TypeError before any parsing *)
  Definition loads (v : val) : res (option json) :=
    match v with VStr s => Ok (parse s) | _ => Err TypeErr end.

  (* safe_parse_dict *)
  Definition safe_parse_dict (v : val) : res json :=
    bind (loads v) (fun o => Ok (match o with Some (JObj m) => JObj m | _ => JObj [] end)).
  (* safe_parse *)
  Definition safe_parse (v : val) : res json :=
    bind (loads v) (fun o => Ok (match o with Some j => j | None => JObj [] end)).

  (* ---- migration 34: pinned filters ---- *)
  Definition T_TABLES := zs "_grist_Tables".
  Definition T_SECTIONS := zs "_grist_Views_section".
  Definition T_FILTERS := zs "_grist_Filters".

  Definition m34_filter_bar (raw : list val) (sec : record) : res bool :=
    if pset_mem (rid_val (fst sec)) raw then Ok true
    else bind (fld (zs "options") sec) (fun o =>
         bind (safe_parse_dict o) (fun j =>
         Ok (match jget (zs "filterBar") j with Some v => truthy v | None => false end))).

  Fixpoint m34_bars (raw : list val) (secs : list record) (acc : list (val * bool)) : res (list (val * bool)) :=
    match secs with
    | [] => Ok acc
    | sec :: rest => bind (m34_filter_bar raw sec) (fun b => m34_bars raw rest (pd_set (rid_val (fst sec)) b acc))
    end.

  Definition m34 (s : tds) : res (list action) :=
    bind (table_records T_TABLES s) (fun tables =>
    bind (table_records T_SECTIONS s) (fun sections =>
    bind (table_records T_FILTERS s) (fun filters =>
    bind (mapM (fun t => bind (fld (zs "rawViewSectionRef") t) hash_key) tables) (fun raw =>
    bind (m34_bars raw sections []) (fun bars =>
    bind (mapM (fun f => bind (fld (zs "viewSectionRef") f) (fun k => bind (hash_key k) (fun k =>
                         Ok (fst f, match pd_get k bars with Some b => b | None => false end)))) filters)
         (fun ups =>
    Ok (add_column T_FILTERS (zs "pinned") (zs "Bool") ::
        match ups with
        | [] => []
        | _ => [BulkUpdateRecord T_FILTERS (map fst ups) [(zs "pinned", map (fun u => VBool (snd u)) ups)]]
        end))))))).
  (* ---- migration 15: section filterSpec -> field filter ---- *)
  Definition T_FIELDS := zs "_grist_Views_section_field".

  Fixpoint pos_dec (fuel : nat) (n : Z) (acc : str) : str :=
    match fuel with
    | O => acc
    | S f => let acc' := (48 + n mod 10) :: acc in
             if Z.eqb (n / 10) 0 then acc' else pos_dec f (n / 10) acc'
    end.
  Definition z_to_dec (z : Z) : str :=
    if Z.ltb z 0 then 45 :: pos_dec (S (Z.to_nat (Z.log2 (- z)))) (- z) []
    else pos_dec (S (Z.to_nat (Z.log2 z))) z [].

  (* str(x); floats and containers are outside the model (their repr is not modelled) *)
  Definition py_str (v : val) : res str :=
    match v with
    | VInt z => Ok (z_to_dec z)
    | VBool b => Ok (if b then zs "True" else zs "False")
    | VNull => Ok (zs "None")
    | VStr s => Ok s
    | _ => Err DomainErr
    end.
  Definition strable (v : val) : bool := match v with VFlt _ | VList _ | VDict _ => false | _ => true end.

  Fixpoint m15_specs (secs : list record) (acc : list (val * json)) : res (list (val * json)) :=
    match secs with
    | [] => Ok acc
    | sec :: rest => bind (fld (zs "filterSpec") sec) (fun t => bind (safe_parse_dict t) (fun j =>
                     m15_specs rest (pd_set (rid_val (fst sec)) j acc)))
    end.

  Definition m15_field (specs : list (val * json)) (f : record) : res (list action) :=
    bind (fld (zs "parentId") f) (fun p => bind (hash_key p) (fun p =>
    match pd_get p specs with
    | Some (JObj (kv :: m)) =>
        bind (fld (zs "colRef") f) (fun cr => bind (py_str cr) (fun key =>
        match lookup key (kv :: m) with
        | Some j => Ok [UpdateRecord T_FIELDS (fst f) [(zs "filter", VStr (dumps j))]]
        | None => Ok []
        end))
    | _ => Ok []
    end)).

  Definition m15 (s : tds) : res (list action) :=
    bind (table_records T_SECTIONS s) (fun sections =>
    bind (table_records T_FIELDS s) (fun fields =>
    bind (m15_specs sections []) (fun specs =>
    bind (mapM (m15_field specs) fields) (fun ups =>
    Ok (add_column T_FIELDS (zs "filter") (zs "Text") :: concat ups))))).

  (* ---- migration 35: memo from Comment nodes ---- *)
  Definition T_ACLRULES := zs "_grist_ACLRules".

  Definition m35_rule (r : record) : res (list (rid * val)) :=
    bind (fld (zs "aclFormulaParsed") r) (fun t => bind (safe_parse t) (fun j =>
    Ok (match j with
        | JArr (x :: y :: z :: _) => if is_str (zs "Comment") x then [(fst r, json_to_val z)] else []
        | _ => []
        end))).

  Definition m35 (s : tds) : res (list action) :=
    bind (table_records T_ACLRULES s) (fun rules =>
    bind (mapM m35_rule rules) (fun ups =>
    let ups := concat ups in
    Ok (add_column T_ACLRULES (zs "memo") (zs "Text") ::
        match ups with
        | [] => []
        | _ => [BulkUpdateRecord T_ACLRULES (map fst ups) [(zs "memo", map snd ups)]]
        end))).

  (* ---- migration 45: comment times out of the JSON content ---- *)
  Definition T_CELLS := zs "_grist_Cells".

  (* ms_to_seconds: try int(ms / 1000) except (TypeError, ValueError, OverflowError): 0 *)
  Definition ms_to_seconds (v : option json) : res Z :=
    match v with
    | Some (JNum n) =>
        match secs n with
        | Ok z => Ok z
        | Err c => if Z.eqb c TypeErr || Z.eqb c ValueErr || Z.eqb c OverflowErr then Ok 0 else Err c
        end
    | _ => Ok 0              (* None, null, str, list, dict: TypeError; True / 1000 = 0.001 -> 0 *)
    end.

  Definition is_time_key (k : str) : bool :=
    seqb k (zs "timeCreated") || seqb k (zs "timeUpdated") || seqb k (zs "resolved").

  Definition m45_cell (r : record) : res (Z * Z * bool * val) :=
    bind (fld (zs "content") r) (fun t => bind (safe_parse t) (fun j =>
    let m := match j with JObj m => m | _ => [] end in
    bind (ms_to_seconds (lookup (zs "timeCreated") m)) (fun tc =>
    bind (ms_to_seconds (lookup (zs "timeUpdated") m)) (fun tu =>
    let res := match lookup (zs "resolved") m with Some v => truthy v | None => false end in
    let content := if existsb (fun kv => is_time_key (fst kv)) m
                   then VStr (dumps (JObj (filter (fun kv => negb (is_time_key (fst kv))) m)))
                   else t in
    Ok (tc, tu, res, content))))).

  Definition m45 (s : tds) : res (list action) :=
    bind (table_records T_CELLS s) (fun cells =>
    bind (mapM m45_cell cells) (fun vs =>
    Ok (add_column T_CELLS (zs "timeCreated") (zs "DateTime") ::
        add_column T_CELLS (zs "timeUpdated") (zs "DateTime") ::
        add_column T_CELLS (zs "resolved") (zs "Bool") ::
        match cells with
        | [] => []
        | _ => [BulkUpdateRecord T_CELLS (map fst cells)
                  [(zs "timeCreated", map (fun x => VInt (fst (fst (fst x)))) vs);
                   (zs "timeUpdated", map (fun x => VInt (snd (fst (fst x)))) vs);
                   (zs "resolved", map (fun x => VBool (snd (fst x))) vs);
                   (zs "content", map (fun x => snd x) vs)]]
        end))).
  (* ---- migration 16: visibleCol out of widgetOptions ---- *)
  Definition T_COLUMNS := zs "_grist_Tables_column".

  Fixpoint index_by {V} (key : record -> res val) (value : record -> V) (rs : list record)
           (acc : list (val * V)) : res (list (val * V)) :=
    match rs with
    | [] => Ok acc
    | r :: rest => bind (key r) (fun k => bind (hash_key k) (fun k => index_by key value rest (pd_set k (value r) acc)))
    end.

  (* the key (c.parentId, c.colId): a tuple hashes when both parts do *)
  Definition pair_key (r : record) : res val :=
    bind (fld (zs "parentId") r) (fun p => bind (hash_key p) (fun p =>
    bind (fld (zs "colId") r) (fun c => bind (hash_key c) (fun c => Ok (VList [p; c]))))).
  Definition pair_index (rs : list record) : res (list (val * rid)) :=
    (fix go (rs : list record) (acc : list (val * rid)) : res (list (val * rid)) :=
       match rs with
       | [] => Ok acc
       | r :: rest => bind (pair_key r) (fun k => go rest (pd_set k (fst r) acc))
       end) rs [].

  Definition convert_visible_col (tables_by_id : list (val * record)) (columns_by_id : list (val * rid))
             (col : record) (wo : val) : res (option (list (str * val))) :=
    bind (fld (zs "type") col) (fun ty =>
    match ty with
    | VStr t =>
        if negb (is_prefix (zs "Ref:") t) then Ok None else
        match pd_get (VStr (skipn 4 t)) tables_by_id with
        | None => Ok None
        | Some target =>
            match (match wo with VStr txt => parse txt | _ => None end) with     (* try: json.loads .. except Exception *)
            | Some (JObj m) =>
                match lookup (zs "visibleCol") m with
                | Some (JStr (ch :: v)) =>
                    let v := ch :: v in
                    let ref := if seqb v (zs "id") then Some (Some 0)
                               else pd_get (VList [rid_val (fst target); VStr v]) columns_by_id in
                    match ref with
                    | Some (Some z) =>
                        Ok (Some [(zs "visibleCol", VInt z);
                                  (zs "widgetOptions", VStr (dumps_compact (JObj (dpop (zs "visibleCol") m))))])
                    | _ => Ok None
                    end
                | _ => Ok None
                end
            | _ => Ok None
            end
        end
    | _ => Err AttrErr               (* x.startswith on a non-string *)
    end).

  Definition m16_col (tb : list (val * record)) (ci : list (val * rid)) (c : record) : res (list action) :=
    bind (fld (zs "widgetOptions") c) (fun wo => bind (convert_visible_col tb ci c wo) (fun nv =>
    Ok (match nv with Some cols => [UpdateRecord T_COLUMNS (fst c) cols] | None => [] end))).

  Definition m16_field (tb : list (val * record)) (ci : list (val * rid)) (cr : list (val * record)) (f : record)
    : res (list action) :=
    bind (fld (zs "colRef") f) (fun k => bind (hash_key k) (fun k =>
    match pd_get k cr with
    | None => Ok []
    | Some c => bind (fld (zs "widgetOptions") f) (fun wo => bind (convert_visible_col tb ci c wo) (fun nv =>
                Ok (match nv with Some cols => [UpdateRecord T_FIELDS (fst f) cols] | None => [] end)))
    end)).

  Definition m16 (s : tds) : res (list action) :=
    bind (table_records T_TABLES s) (fun tables =>
    bind (index_by (fld (zs "tableId")) (fun t => t) tables []) (fun tb =>
    bind (table_records T_COLUMNS s) (fun columns =>
    let cr := fold_left (fun acc c => pd_set (rid_val (fst c)) c acc) columns [] in
    bind (pair_index columns) (fun ci =>
    bind (mapM (m16_col tb ci) columns) (fun ups1 =>
    bind (table_records T_FIELDS s) (fun fields =>
    bind (mapM (m16_field tb ci cr) fields) (fun ups2 =>
    Ok (add_column T_COLUMNS (zs "visibleCol") (zs "Ref:_grist_Tables_column") ::
        add_column T_FIELDS (zs "visibleCol") (zs "Ref:_grist_Tables_column") ::
        concat ups1 ++ concat ups2)))))))).

  (* ---- migration 29: drop conditional rules that point outside the column's table ---- *)
  (* summary._copy_widget_options *)
  Definition copy_widget_options (v : val) : res val :=
    if negb (val_truthy v) then Ok v else
    match v with
    | VStr txt =>
        match parse txt with
        | Some (JObj m) => Ok (VStr (dumps (JObj (filter (fun kv => negb (seqb (fst kv) (zs "rulesOptions"))) m))))
        | _ => Ok v
        end
    | _ => Err TypeErr
    end.

  Definition is_valid_rule (cols : list (val * record)) (parent : val) (rule : json) : res bool :=
    bind (hash_key (json_to_val rule)) (fun k =>
    match pd_get k cols with
    | None => Ok false
    | Some rc => bind (fld (zs "parentId") rc) (fun p => Ok (py_eq p parent))
    end).

  Fixpoint all_valid (cols : list (val * record)) (col : record) (rules : list json) : res bool :=
    match rules with
    | [] => Ok true
    | r :: rest => bind (fld (zs "parentId") col) (fun parent => bind (is_valid_rule cols parent r) (fun b =>
                   if b then all_valid cols col rest else Ok false))
    end.

  Definition m29_col (cols : list (val * record)) (col : record) : res (list action) :=
    bind (fld (zs "rules") col) (fun ru =>
    if negb (val_truthy ru) then Ok [] else
    bind (safe_parse ru) (fun j =>
    bind (match j with JArr l => all_valid cols col l | _ => Ok false end) (fun valid =>
    if valid then Ok [] else
    bind (fld (zs "widgetOptions") col) (fun wo => bind (copy_widget_options wo) (fun w =>
    Ok [UpdateRecord T_COLUMNS (fst col) [(zs "rules", VNull); (zs "widgetOptions", w)]]))))).

  Definition m29 (s : tds) : res (list action) :=
    bind (table_records T_TABLES s) (fun _ =>
    bind (table_records T_COLUMNS s) (fun columns =>
    let cols := fold_left (fun acc c => pd_set (rid_val (fst c)) c acc) columns [] in
    bind (mapM (m29_col cols) (map snd cols)) (fun ups => Ok (concat ups)))).
  (* ---- migration 10: display columns for reference columns ---- *)
  (* next_id: max(row_ids) + 1 if row_ids else 1; None among the ids is a TypeError *)
  Fixpoint max_id (rows : list rid) (acc : Z) : res Z :=
    match rows with
    | [] => Ok acc
    | Some z :: rest => max_id rest (Z.max acc z)
    | None :: _ => Err TypeErr
    end.
  Definition next_id (rows : list rid) : res Z :=
    match rows with
    | [] => Ok 1
    | Some z :: rest => bind (max_id rest z) (fun m => Ok (m + 1))
    | None :: _ => Err TypeErr
    end.

  (* tdset.all_tables[t.tableId].columns.keys() *)
  Definition user_cols (s : tds) (tid : val) : res (list str) :=
    bind (hash_key tid) (fun _ =>
    match tid with
    | VStr n => match lookup n (t_data s) with Some td => Ok (map fst (snd td)) | None => Err KeyErr end
    | _ => Err KeyErr
    end).

  Definition FLT_ONE : Z := 4607182418800017408.

  (* visible_col_id = json.loads(c.widgetOptions).get('visibleCol'), any exception -> skip *)
  Definition m10_visible (c : record) : option json :=
    match fld (zs "widgetOptions") c with
    | Ok (VStr txt) => match parse txt with
                       | Some (JObj m) => match lookup (zs "visibleCol") m with
                                          | Some v => if truthy v then Some v else None
                                          | None => None
                                          end
                       | _ => None
                       end
    | _ => None
    end.

  Definition m10_state := (Z * list (val * list str) * list action)%type.   (* row_id, table_col_ids, doc_actions *)

  Definition m10_col (tables_map : list (val * val)) (st : m10_state) (c : record) : res m10_state :=
    let '(row_id, used, acc) := st in
    bind (fld (zs "type") c) (fun ty =>
    match ty with
    | VStr t =>
        if negb (is_prefix (zs "Ref:") t) then Ok st else
        bind (fld (zs "displayCol") c) (fun dc =>
        if val_truthy dc then Ok st else
        match m10_visible c with
        | None => Ok st
        | Some v =>
            bind (fld (zs "colId") c) (fun cid => bind (py_str cid) (fun cids =>
            let formula := 36 :: cids ++ 46 :: (match v with JStr x => x | _ => str_of_json v end) in
            bind (fld (zs "parentId") c) (fun p => bind (hash_key p) (fun p =>
            match pd_get p used, pd_get p tables_map with
            | Some ids, Some (VStr tname) =>
                let d := pick_col ids in
                Ok (row_id + 1, pd_set p (ids ++ [d]) used,
                    acc ++ [AddColumn tname d (mkci d (zs "Any") true formula);
                            AddRecord T_COLUMNS (Some row_id)
                              [(zs "parentPos", VFlt FLT_ONE); (zs "label", VStr d); (zs "isFormula", VBool true);
                               (zs "parentId", p); (zs "colId", VStr d); (zs "formula", VStr formula);
                               (zs "widgetOptions", VStr []); (zs "type", VStr (zs "Any"))];
                            UpdateRecord T_COLUMNS (fst c) [(zs "displayCol", VInt row_id)]])
            | None, _ => Err KeyErr
            | Some _, _ => Err DomainErr          (* a table id that is not a string: cannot have passed user_cols *)
            end))))
        end)
    | _ => Err AttrErr
    end).

  Fixpoint m10_loop (tables_map : list (val * val)) (cs : list record) (st : m10_state) : res m10_state :=
    match cs with
    | [] => Ok st
    | c :: rest => bind (m10_col tables_map st c) (m10_loop tables_map rest)
    end.

  Definition m10 (s : tds) : res (list action) :=
    bind (table_records T_TABLES s) (fun tables =>
    bind (table_records T_COLUMNS s) (fun columns =>
    bind (mapM (fun t => bind (fld (zs "tableId") t) (fun n => Ok (rid_val (fst t), n))) tables) (fun tm =>
    let tables_map := fold_left (fun acc kv => pd_set (fst kv) (snd kv) acc) tm [] in
    bind (mapM (fun kv => bind (user_cols s (snd kv)) (fun ids => Ok (fst kv, ids))) tm) (fun tc =>
    let used := fold_left (fun acc kv => pd_set (fst kv) (snd kv) acc) tc [] in
    bind (next_id (rows_of_model T_COLUMNS s)) (fun row_id =>
    bind (m10_loop tables_map columns (row_id, used, [])) (fun st => Ok (snd st))))))).
  (* ---- migration 7: old-style summary tables ---- *)
  Definition has_col (t c : str) (s : tds) : res bool :=
    match lookup t (t_data s) with Some td => Ok (has c (snd td)) | None => Err KeyErr end.

  (* [int(x) for x in group2.strip("_").split("_")] *)
  Fixpoint strip_l (s : str) : str := match s with 95 :: s' => strip_l s' | _ => s end.
  Definition strip_us (s : str) : str := rev (strip_l (rev (strip_l s))).
  Fixpoint split_us (s : str) (cur : str) : list str :=
    match s with
    | [] => [rev cur]
    | c :: s' => if Z.eqb c 95 then rev cur :: split_us s' [] else split_us s' (c :: cur)
    end.
  Fixpoint digits_val (s : str) (acc : Z) : res Z :=
    match s with
    | [] => Ok acc
    | c :: s' => if (Z.leb 48 c && Z.leb c 57)%bool then digits_val s' (acc * 10 + (c - 48)) else Err ValueErr
    end.
  Definition py_int (s : str) : res Z := match s with [] => Err ValueErr | _ => digits_val s 0 end.
  Definition parse_refs (g2 : str) : res (list Z) := mapM py_int (split_us (strip_us g2) []).

  (* summary.encode_summary_table_name *)
  Fixpoint str_leb (a b : str) : bool :=
    match a, b with
    | [], _ => true
    | _ :: _, [] => false
    | x :: a', y :: b' => if Z.ltb x y then true else if Z.ltb y x then false else str_leb a' b'
    end.
  Fixpoint insert_str (x : str) (l : list str) : list str :=
    match l with
    | [] => [x]
    | y :: l' => if str_leb x y then x :: l else y :: insert_str x l'
    end.
  Definition sort_strs (l : list str) : list str := fold_right insert_str [] l.
  Fixpoint join_us (l : list str) : str :=
    match l with
    | [] => []
    | [x] => x
    | x :: l' => x ++ 95 :: join_us l'
    end.
  Definition encode_summary_name (src : str) (ids : list str) : str :=
    src ++ zs "_summary" ++ match ids with [] => [] | _ => 95 :: join_us (sort_strs ids) end.

  Definition as_str (e : Z) (v : val) : res str := match v with VStr x => Ok x | _ => Err e end.

  (* c.f1 == a and c.f2 == b ..., evaluated left to right *)
  Fixpoint all_eq (c : record) (conds : list (str * val)) : res bool :=
    match conds with
    | [] => Ok true
    | (f, v) :: rest => bind (fld f c) (fun x => if py_eq x v then all_eq c rest else Ok false)
    end.
  Fixpoint filterM {A} (f : A -> res bool) (l : list A) : res (list A) :=
    match l with
    | [] => Ok []
    | x :: l' => bind (f x) (fun b => bind (filterM f l') (fun r => Ok (if b then x :: r else r)))
    end.

  Definition rec_eqb (a b : record) : bool :=
    py_eq (rid_val (fst a)) (rid_val (fst b)) &&
    list_eqb (fun x y => seqb (fst x) (fst y) && py_eq (snd x) (snd y)) (snd a) (snd b).
  Definition rec_hashable (r : record) : res unit :=
    if forallb (fun kv => hashable (snd kv)) (snd r) then Ok tt else Err TypeErr.

  Record m7_state := mk7 {
    s7_names : list val;                        (* table_name_set *)
    s7_remove : list record;                    (* remove_cols *)
    s7_formulas : list (record * str * str);    (* formula_updates: column, new table name, new formula *)
    s7_renames : list (record * str);           (* table_renames *)
    s7_src_tables : list (record * rid);        (* source_tables *)
    s7_src_cols : list (record * rid)           (* source_cols *)
  }.

  Definition GROUP_FORMULA : str := zs "table.getSummarySourceGroup(rec)".

  (* the group-by columns of summary table t: for each ref in its name, the column of t with the source column's id *)
  Fixpoint m7_groupby (by_ref by_tc : list (val * record)) (t : record) (refs : list Z)
           (gb : list record) (sc : list (record * rid)) : res (list record * list (record * rid)) :=
    match refs with
    | [] => Ok (gb, sc)
    | z :: rest =>
        match pd_get (VInt z) by_ref with
        | None => m7_groupby by_ref by_tc t rest gb sc
        | Some src_col =>
            bind (fld (zs "colId") src_col) (fun cid => bind (hash_key cid) (fun cid =>
            match pd_get (VList [rid_val (fst t); cid]) by_tc with
            | Some sum_col => bind (rec_hashable sum_col) (fun _ =>
                              m7_groupby by_ref by_tc t rest (gb ++ [sum_col]) (sc ++ [(sum_col, fst src_col)]))
            | None => m7_groupby by_ref by_tc t rest gb sc
            end))
        end
    end.

  (* c.parentId == t.id and c not in groupby_cols and not c.isFormula *)
  Definition m7_rm2 (t : record) (gb : list record) (c : record) : res bool :=
    bind (all_eq c [(zs "parentId", rid_val (fst t))]) (fun own =>
    if negb own then Ok false else
    bind (rec_hashable c) (fun _ =>
    if existsb (rec_eqb c) gb then Ok false else
    bind (fld (zs "isFormula") c) (fun f => Ok (negb (val_truthy f))))).

  Definition m7_table (name_to_ref : list (val * rid)) (columns : list record) (by_ref : list (val * record))
             (by_tc : list (val * record)) (st : m7_state) (t : record) : res m7_state :=
    bind (fld (zs "tableId") t) (fun tid => bind (as_str TypeErr tid) (fun name =>
    match summary_match name with
    | None => Ok st
    | Some (g1, g2) =>
        match pd_get (VStr g1) name_to_ref with
        | None => Ok st
        | Some src_ref =>
            bind (parse_refs g2) (fun refs =>
            bind (mapM (fun z => match pd_get (VInt z) by_ref with
                                 | Some c => bind (fld (zs "colId") c) (as_str TypeErr)
                                 | None => Err KeyErr
                                 end) refs) (fun ids =>
            bind (mapM (as_str AttrErr) (s7_names st)) (fun avoid =>
            let new_name := pick_table (encode_summary_name g1 ids) avoid in
            bind (filterM (fun c => all_eq c [(zs "parentId", rid_val src_ref); (zs "colId", VStr name)]) columns) (fun rm1 =>
            let expected := g1 ++ zs ".lookupRecords(" ++ name ++ zs "=$id)" in
            bind (filterM (fun c => all_eq c [(zs "parentId", rid_val (fst t)); (zs "colId", VStr (zs "group"));
                                              (zs "formula", VStr expected)]) columns) (fun fu =>
            (* groupby columns of the summary table *)
            bind (m7_groupby by_ref by_tc t refs [] []) (fun gbsc =>
            let '(gb, sc) := gbsc in
            bind (filterM (m7_rm2 t gb) columns) (fun rm2 =>
            Ok (mk7 (s7_names st ++ [VStr new_name]) (s7_remove st ++ rm1 ++ rm2)
                    (s7_formulas st ++ map (fun c => (c, new_name, GROUP_FORMULA)) fu)
                    (s7_renames st ++ [(t, new_name)]) (s7_src_tables st ++ [(t, src_ref)])
                    (s7_src_cols st ++ sc)))))))))
        end
    end)).

  Fixpoint m7_loop name_to_ref columns by_ref by_tc (ts : list record) (st : m7_state) : res m7_state :=
    match ts with
    | [] => Ok st
    | t :: rest => bind (m7_table name_to_ref columns by_ref by_tc st t) (m7_loop name_to_ref columns by_ref by_tc rest)
    end.

  Definition pair_index_rec (rs : list record) : res (list (val * record)) :=
    (fix go (rs : list record) (acc : list (val * record)) : res (list (val * record)) :=
       match rs with
       | [] => Ok acc
       | r :: rest => bind (pair_key r) (fun k => go rest (pd_set k r acc))
       end) rs [].

  (* the actions for one removed column / renamed table / rewritten formula *)
  Definition m7_tname (tables_map : list (val * record)) (c : record) : res str :=
    bind (fld (zs "parentId") c) (fun p => bind (hash_key p) (fun p =>
    match pd_get p tables_map with
    | Some t => bind (fld (zs "tableId") t) (as_str DomainErr)
    | None => Err KeyErr
    end)).
  Definition m7_remove_act (tables_map : list (val * record)) (c : record) : res action :=
    bind (m7_tname tables_map c) (fun tn => bind (fld (zs "colId") c) (fun cid => bind (as_str DomainErr cid) (fun cid =>
    Ok (RemoveColumn tn cid)))).
  Definition m7_rename_act (tr : record * str) : res action :=
    bind (fld (zs "tableId") (fst tr)) (fun n => bind (as_str DomainErr n) (fun n => Ok (RenameTable n (snd tr)))).
  Definition m7_modify_act (f : record * str * str) : res action :=
    bind (fld (zs "colId") (fst (fst f))) (fun cid => bind (as_str DomainErr cid) (fun cid =>
    Ok (ModifyColumn (snd (fst f)) cid [(zs "formula", VStr (snd f))]))).

  Definition m7 (s : tds) : res (list action) :=
    bind (has_col T_TABLES (zs "summarySourceTable") s) (fun h1 =>
    bind (has_col T_COLUMNS (zs "summarySourceCol") s) (fun h2 =>
    let pre := (if h1 then [] else [add_column T_TABLES (zs "summarySourceTable") (zs "Ref:_grist_Tables")]) ++
               (if h2 then [] else [add_column T_COLUMNS (zs "summarySourceCol") (zs "Ref:_grist_Tables_column")]) in
    bind (table_records T_TABLES s) (fun tables =>
    let tables_map := fold_left (fun acc t => pd_set (rid_val (fst t)) t acc) tables [] in
    let tvals := map snd tables_map in
    bind (index_by (fld (zs "tableId")) (fun t => fst t) tvals []) (fun name_to_ref =>
    bind (table_records T_COLUMNS s) (fun columns =>
    let by_ref := fold_left (fun acc c => pd_set (rid_val (fst c)) c acc) columns [] in
    bind (pair_index_rec columns) (fun by_tc =>
    bind (m7_loop name_to_ref columns by_ref by_tc tvals (mk7 (map fst name_to_ref) [] [] [] [] [])) (fun st =>
    bind (mapM (m7_remove_act tables_map) (s7_remove st)) (fun removes =>
    bind (mapM m7_rename_act (s7_renames st)) (fun renames =>
    bind (mapM m7_modify_act (s7_formulas st)) (fun modifies =>
    Ok (pre ++ removes ++
        [BulkRemoveRecord T_COLUMNS (map fst (s7_remove st))] ++
        renames ++
        [BulkUpdateRecord T_TABLES (map (fun tr => fst (fst tr)) (s7_renames st))
           [(zs "tableId", map (fun tr => VStr (snd tr)) (s7_renames st))];
         BulkUpdateRecord T_TABLES (map (fun x => fst (fst x)) (s7_src_tables st))
           [(zs "summarySourceTable", map (fun x => rid_val (snd x)) (s7_src_tables st))];
         BulkUpdateRecord T_COLUMNS (map (fun x => fst (fst x)) (s7_src_cols st))
           [(zs "summarySourceCol", map (fun x => rid_val (snd x)) (s7_src_cols st))]] ++
        modifies ++
        [BulkUpdateRecord T_COLUMNS (map (fun f => fst (fst (fst f))) (s7_formulas st))
           [(zs "formula", map (fun f => VStr (snd f)) (s7_formulas st))]]))))))))))).
  (* ---- migration 4: tabPos = row id ---- *)
  Definition T_TABBAR := zs "_grist_TabBar".
  Definition m4 (s : tds) : res (list action) :=
    match lookup T_TABBAR (t_data s) with
    | None => Err KeyErr
    | Some td => Ok [add_column T_TABBAR (zs "tabPos") (zs "PositionNumber");
                     BulkUpdateRecord T_TABBAR (fst td) [(zs "tabPos", map rid_val (fst td))]]
    end.

  (* ---- migration 39: reconcile the two version-38 schemas ---- *)
  Definition T_TRIGGERS := zs "_grist_Triggers".
  Definition m39 (s : tds) : res (list action) :=
    bind (has_col T_TRIGGERS (zs "memo") s) (fun has_memo =>
    bind (if has_memo then Ok [] else
          bind (table_records T_TRIGGERS s) (fun triggers =>
          Ok [add_column T_TRIGGERS (zs "memo") (zs "Text"); add_column T_TRIGGERS (zs "label") (zs "Text");
              add_column T_TRIGGERS (zs "enabled") (zs "Bool");
              BulkUpdateRecord T_TRIGGERS (map fst triggers) [(zs "enabled", map (fun _ => VBool true) triggers)]]))
         (fun part1 =>
    bind (has_col T_SECTIONS (zs "description") s) (fun has_desc =>
    Ok (part1 ++ if has_desc then [] else [add_column T_SECTIONS (zs "description") (zs "Text")])))).
  (* ---- migration 28: re-declare Attachments columns ---- *)
  Definition T_ATTACHMENTS := zs "_grist_Attachments".
  Definition m28_pair (table col : record) : res (list action) :=
    bind (fld (zs "parentId") col) (fun p =>
    if negb (py_eq (rid_val (fst table)) p) then Ok [] else
    bind (fld (zs "type") col) (fun ty =>
    if negb (py_eq ty (VStr (zs "Attachments"))) then Ok [] else
    bind (fld (zs "tableId") table) (fun tn => bind (as_str DomainErr tn) (fun tn =>
    bind (fld (zs "colId") col) (fun cn => bind (as_str DomainErr cn) (fun cn =>
    Ok [ModifyColumn tn cn [(zs "type", VStr (zs "Attachments"))]])))))).
  Definition m28 (s : tds) : res (list action) :=
    bind (table_records T_TABLES s) (fun tables =>
    bind (table_records T_COLUMNS s) (fun columns =>
    bind (mapM (fun t => bind (mapM (m28_pair t) columns) (fun l => Ok (concat l))) tables) (fun l =>
    Ok (add_column T_ATTACHMENTS (zs "timeDeleted") (zs "DateTime") :: concat l)))).

  (* ---- migration 25: field filters move to _grist_Filters ---- *)
  Definition m25 (s : tds) : res (list action) :=
    bind (table_records T_FIELDS s) (fun fields =>
    bind (mapM (fun f => bind (fld (zs "filter") f) (fun fl =>
                         if negb (val_truthy fl) then Ok [] else
                         bind (fld (zs "colRef") f) (fun cr => bind (fld (zs "parentId") f) (fun p => Ok [(fl, cr, p)])))) fields)
         (fun rows =>
    let rows := concat rows in
    Ok (AddTable T_FILTERS [mkci (zs "viewSectionRef") (zs "Ref:_grist_Views_section") false [];
                            mkci (zs "colRef") (zs "Ref:_grist_Tables_column") false [];
                            mkci (zs "filter") (zs "Text") false []] ::
        match rows with
        | [] => []
        | _ => [BulkAddRecord T_FILTERS (map (fun _ => @None Z) rows)
                  [(zs "filter", map (fun x => fst (fst x)) rows); (zs "colRef", map (fun x => snd (fst x)) rows);
                   (zs "viewSectionRef", map (fun x => snd x) rows)]]
        end))).
  (* ---- migrations 26, 30, 40: a raw / record-card view section per table ---- *)
  Definition T_VIEWS := zs "_grist_Views".

  (* numbers as m * 2^e, for < across int and float; +-inf apart; nan is outside the model *)
  Inductive numv := NFin (m e : Z) | NPosInf | NNegInf.
  Definition val_num (v : val) : res numv :=
    match v with
    | VInt z => Ok (NFin z 0)
    | VBool b => Ok (NFin (if b then 1 else 0) 0)
    | VFlt bits =>
        let neg := Z.leb 9223372036854775808 bits in
        let e := flt_exp bits in
        let mant := flt_mant bits in
        if Z.eqb e 2047 then (if Z.eqb mant 0 then Ok (if neg then NNegInf else NPosInf) else Err DomainErr)
        else let sig := if Z.eqb e 0 then mant else 4503599627370496 + mant in
             let ex := if Z.eqb e 0 then -1074 else e - 1075 in
             Ok (NFin (if neg then - sig else sig) ex)
    | _ => Err TypeErr              (* '<' not supported between ... *)
    end.
  Definition numv_lt (a b : numv) : bool :=
    match a, b with
    | NNegInf, NNegInf => false
    | NNegInf, _ => true
    | _, NNegInf => false
    | NPosInf, _ => false
    | _, NPosInf => true
    | NFin m1 e1, NFin m2 e2 =>
        let lo := Z.min e1 e2 in Z.ltb (m1 * 2 ^ (e1 - lo)) (m2 * 2 ^ (e2 - lo))
    end.

  (* list.sort(key=...) / sorted(..., key=...): stable; keys are computed first, then compared with < *)
  Fixpoint insert_by {A K} (lt : K -> K -> bool) (x : K * A) (l : list (K * A)) : list (K * A) :=
    match l with
    | [] => [x]
    | y :: l' => if lt (fst y) (fst x) then y :: insert_by lt x l' else x :: l
    end.
  Definition sort_by {A K} (lt : K -> K -> bool) (l : list (K * A)) : list A :=
    map snd (fold_right (insert_by lt) [] l).

  Definition str_lt (a b : str) : bool := negb (str_leb b a).

  (* column.is_visible_column *)
  Definition is_visible_column (cid : val) : res bool :=
    bind (hash_key cid) (fun _ =>
    match cid with
    | VStr c => Ok (negb (seqb c (zs "id") || seqb c (zs "manualSort")) &&
                    negb (is_prefix (zs "#") c || is_prefix (zs "gristHelper_") c))
    | _ => Err AttrErr
    end).

  Record sec_variant := mkVariant {
    sv_pre : list action;                                  (* add_column first, if any *)
    sv_wanted : list (val * record) -> record -> res (option val);   (* None: skip the table; Some title *)
    sv_parent_key : str;
    sv_ref_col : str                                       (* the _grist_Tables column that gets the new section id *)
  }.

  Definition sec_table (vr : sec_variant) (views : list (val * record)) (columns : list record)
             (st : Z * list action) (table : record) : res (Z * list action) :=
    let '(new_id, acc) := st in
    bind (sv_wanted vr views table) (fun w =>
    match w with
    | None => Ok st
    | Some title =>
        bind (filterM (fun col => bind (fld (zs "parentId") col) (fun p =>
                                  if negb (py_eq (rid_val (fst table)) p) then Ok false
                                  else bind (fld (zs "colId") col) is_visible_column)) columns) (fun tcols =>
        bind (mapM (fun col => bind (fld (zs "parentPos") col) (fun pp => bind (val_num pp) (fun k => Ok (k, (col, pp))))) tcols)
             (fun keyed =>
        let sorted := sort_by numv_lt keyed in
        Ok (new_id + 1,
            acc ++ [AddRecord T_SECTIONS (Some new_id)
                      [(zs "tableRef", rid_val (fst table)); (zs "parentId", VInt 0); (zs "parentKey", VStr (sv_parent_key vr));
                       (zs "title", title); (zs "defaultWidth", VInt 100); (zs "borderWidth", VInt 1)];
                    UpdateRecord T_TABLES (fst table) [(sv_ref_col vr, VInt new_id)];
                    BulkAddRecord T_FIELDS (map (fun _ => @None Z) sorted)
                      [(zs "parentId", map (fun _ => VInt new_id) sorted);
                       (zs "colRef", map (fun x => rid_val (fst (fst x))) sorted);
                       (zs "parentPos", map (fun x => snd x) sorted)]])))
    end).

  Fixpoint sec_loop (vr : sec_variant) views columns (ts : list record) (st : Z * list action) : res (Z * list action) :=
    match ts with
    | [] => Ok st
    | t :: rest => bind (sec_table vr views columns st t) (sec_loop vr views columns rest)
    end.

  Definition sections_migration (vr : sec_variant) (need_views : bool) (s : tds) : res (list action) :=
    bind (table_records T_TABLES s) (fun tables =>
    bind (table_records T_COLUMNS s) (fun columns =>
    bind (if need_views then table_records T_VIEWS s else Ok []) (fun vrecs =>
    let views := fold_left (fun acc v => pd_set (rid_val (fst v)) v acc) vrecs [] in
    bind (next_id (rows_of_model T_SECTIONS s)) (fun new_id =>
    bind (mapM (fun t => bind (fld (zs "tableId") t) (fun n => bind (as_str TypeErr n) (fun n => Ok (n, t)))) tables) (fun keyed =>
    bind (sec_loop vr views columns (sort_by str_lt keyed) (new_id, sv_pre vr)) (fun st => Ok (snd st))))))).

  Definition v26 : sec_variant :=
    mkVariant [add_column T_TABLES (zs "rawViewSectionRef") (zs "Ref:_grist_Views_section")]
      (fun views table =>
         bind (fld (zs "primaryViewId") table) (fun pv => bind (hash_key pv) (fun pv =>
         match pd_get pv views with
         | Some old_view => if val_truthy pv then bind (fld (zs "name") old_view) (fun n => Ok (Some n)) else Ok None
         | None => Ok None
         end)))
      (zs "record") (zs "rawViewSectionRef").
  Definition v30 : sec_variant :=
    mkVariant []
      (fun _ table => bind (fld (zs "summarySourceTable") table) (fun sst =>
                      Ok (if val_truthy sst then Some (VStr []) else None)))
      (zs "record") (zs "rawViewSectionRef").
  Definition v40 : sec_variant :=
    mkVariant [add_column T_TABLES (zs "recordCardViewSectionRef") (zs "Ref:_grist_Views_section")]
      (fun _ table => bind (fld (zs "rawViewSectionRef") table) (fun raw =>
                      if negb (val_truthy raw) then Ok None else
                      bind (fld (zs "summarySourceTable") table) (fun sst =>
                      Ok (if val_truthy sst then None else Some (VStr [])))))
      (zs "single") (zs "recordCardViewSectionRef").
  Definition m26 := sections_migration v26 true.
  Definition m30 := sections_migration v30 false.
  Definition m40 := sections_migration v40 false.
  (* ---- migration 1: TabItems from the existing view sections ---- *)
  Definition T_DOCINFO := zs "_grist_DocInfo".
  Definition T_TABITEMS := zs "_grist_TabItems".

  Fixpoint dedup_vals (l : list val) (acc : list val) : list val :=     (* a set keeps the first of equal items *)
    match l with
    | [] => acc
    | x :: l' => if pset_mem x acc then dedup_vals l' acc else dedup_vals l' (acc ++ [x])
    end.
  (* tuples of two numbers, compared like Python tuples *)
  Definition pair_lt (a b : numv * numv) : bool :=
    if numv_lt (fst a) (fst b) then true else if numv_lt (fst b) (fst a) then false else numv_lt (snd a) (snd b).
  Definition num_pair_key (v : val) : res ((numv * numv) * val) :=
    match v with
    | VList [a; b] => bind (val_num a) (fun x => bind (val_num b) (fun y => Ok ((x, y), v)))
    | _ => Err DomainErr
    end.
  Definition seq_ids (n : nat) : list rid := map (fun k => Some (Z.of_nat k)) (seq 1 n).

  Definition m1 (s : tds) : res (list action) :=
    let mk (id ty : str) := mkci id ty false [] in
    let a1 := if has T_ATTACHMENTS (t_data s) then [] else
              [AddTable T_ATTACHMENTS [mk (zs "fileIdent") (zs "Text"); mk (zs "fileName") (zs "Text");
                                       mk (zs "fileType") (zs "Text"); mk (zs "fileSize") (zs "Int");
                                       mk (zs "timeUploaded") (zs "DateTime")]] in
    let a2 := if has T_TABITEMS (t_data s) then [] else
              [AddTable T_TABITEMS [mk (zs "tableRef") (zs "Ref:_grist_Tables"); mk (zs "viewRef") (zs "Ref:_grist_Views")]] in
    bind (has_col T_DOCINFO (zs "schemaVersion") s) (fun hv =>
    let a3 := if hv then [] else [add_column T_DOCINFO (zs "schemaVersion") (zs "Int")] in
    let a4 := [add_column T_ATTACHMENTS (zs "imageHeight") (zs "Int"); add_column T_ATTACHMENTS (zs "imageWidth") (zs "Int")] in
    bind (table_records T_SECTIONS s) (fun secs =>
    bind (mapM (fun sec => bind (fld (zs "tableRef") sec) (fun a => bind (hash_key a) (fun a =>
                           bind (fld (zs "parentId") sec) (fun b => bind (hash_key b) (fun b => Ok (VList [a; b])))))) secs) (fun pairs =>
    bind (mapM num_pair_key (dedup_vals pairs [])) (fun keyed =>
    let rows := sort_by pair_lt keyed in
    Ok (a1 ++ a2 ++ a3 ++ a4 ++
        match rows with
        | [] => []
        | _ => [ReplaceTableData T_TABITEMS (seq_ids (length rows))
                  [(zs "tableRef", map (fun p => match p with VList [a; _] => a | _ => VNull end) rows);
                   (zs "viewRef", map (fun p => match p with VList [_; b] => b | _ => VNull end) rows)]]
        end))))).

  (* ---- migration 2: TabBar, TableViews, primaryViewId ---- *)
  Definition T_TABLEVIEWS := zs "_grist_TableViews".
  Definition val_rid (v : val) : res rid :=
    match v with VInt z => Ok (Some z) | VNull => Ok None | _ => Err DomainErr end.
  Definition sort_nums (l : list val) : res (list val) :=
    bind (mapM (fun v => bind (val_num v) (fun k => Ok (k, v))) l) (fun keyed => Ok (sort_by numv_lt keyed)).

  Fixpoint m2_scan (secs : list record) (pv vt : list (val * val)) : res (list (val * val) * list (val * val)) :=
    match secs with
    | [] => Ok (pv, vt)
    | sec :: rest =>
        bind (fld (zs "tableRef") sec) (fun tr => bind (hash_key tr) (fun tr =>
        bind (match pd_get tr pv with
              | Some _ => Ok pv
              | None => bind (fld (zs "parentKey") sec) (fun pk =>
                        if py_eq pk (VStr (zs "record")) then bind (fld (zs "parentId") sec) (fun p => Ok (pd_set tr p pv))
                        else Ok pv)
              end) (fun pv' =>
        bind (fld (zs "parentId") sec) (fun p => bind (hash_key p) (fun p =>
        m2_scan rest pv' (match pd_get p vt with Some _ => vt | None => pd_set p tr vt end))))))
    end.

  Definition m2 (s : tds) : res (list action) :=
    let mk (id ty : str) := mkci id ty false [] in
    bind (table_records T_SECTIONS s) (fun secs =>
    bind (m2_scan secs [] []) (fun r =>
    let '(pv, vt) := r in
    bind (sort_nums (map fst pv)) (fun pkeys =>
    bind (mapM val_rid pkeys) (fun prids =>
    bind (sort_nums (map fst vt)) (fun vkeys =>
    bind (mapM hash_key (map snd pv)) (fun pvals =>
    bind (sort_nums (filter (fun v => negb (pset_mem v pvals)) (map fst vt))) (fun related =>
    Ok [AddTable T_TABBAR [mk (zs "viewRef") (zs "Ref:_grist_Views")];
        AddTable T_TABLEVIEWS [mk (zs "tableRef") (zs "Ref:_grist_Tables"); mk (zs "viewRef") (zs "Ref:_grist_Views")];
        add_column T_TABLES (zs "primaryViewId") (zs "Ref:_grist_Views");
        BulkUpdateRecord T_TABLES prids
          [(zs "primaryViewId", map (fun k => match pd_get k pv with Some v => v | None => VNull end) pkeys)];
        ReplaceTableData T_TABBAR (seq_ids (length vkeys)) [(zs "viewRef", vkeys)];
        ReplaceTableData T_TABLEVIEWS (seq_ids (length related))
          [(zs "tableRef", map (fun k => match pd_get k vt with Some v => v | None => VNull end) related);
           (zs "viewRef", related)]]))))))).

  (* ---- migration 20: pages from the views ---- *)
  Definition T_PAGES := zs "_grist_Pages".
  Definition view_key_lt (a b : str * numv) : bool :=
    if seqb (fst a) (fst b) then numv_lt (snd a) (snd b) else str_lt (fst a) (fst b).

  Definition m20 (s : tds) : res (list action) :=
    let mk (id ty : str) := mkci id ty false [] in
    bind (table_records T_TABLES s) (fun tables =>
    let table_map := fold_left (fun acc t => pd_set (rid_val (fst t)) t acc) tables [] in
    bind (table_records T_TABLEVIEWS s) (fun tvs =>
    bind ((fix go (tvs : list record) (acc : list (val * val)) : res (list (val * val)) :=
             match tvs with
             | [] => Ok acc
             | tv :: rest =>
                 bind (fld (zs "tableRef") tv) (fun tr => bind (hash_key tr) (fun tr =>
                 match pd_get tr table_map with
                 | None => go rest acc
                 | Some t => bind (fld (zs "viewRef") tv) (fun vr => bind (hash_key vr) (fun vr =>
                             bind (fld (zs "tableId") t) (fun tid => go rest (pd_set vr tid acc))))
                 end))
             end) tvs []) (fun tvmap =>
    bind (table_records T_VIEWS s) (fun views =>
    bind (mapM (fun v => match pd_get (rid_val (fst v)) tvmap with
                         | Some tid => bind (as_str TypeErr tid) (fun n => bind (val_num (rid_val (fst v))) (fun k => Ok ((n, k), v)))
                         | None => bind (fld (zs "name") v) (fun nm => bind (as_str TypeErr nm) (fun n => Ok ((n, NFin (-1) 0), v)))
                         end) views) (fun keyed =>
    let sorted := sort_by view_key_lt keyed in
    let ids := seq_ids (length sorted) in
    Ok [AddTable T_PAGES [mk (zs "viewRef") (zs "Ref:_grist_Views"); mk (zs "pagePos") (zs "PositionNumber");
                          mk (zs "indentation") (zs "Int")];
        ReplaceTableData T_PAGES ids
          [(zs "viewRef", map (fun v => rid_val (fst v)) sorted); (zs "pagePos", map rid_val ids);
           (zs "indentation", map (fun v => VInt (match pd_get (rid_val (fst v)) tvmap with Some _ => 1 | None => 0 end)) sorted)]]))))).
  (* ---- migration 3: Derived -> Any, lookupOrAddDerived arguments by keyword ---- *)
  Definition M3_PATTERN : str :=
    [40; 92; 119; 43; 41] ++ zs ".lookupOrAddDerived" ++ [92; 40; 40; 46; 42; 63; 41; 92; 41].   (* (\w+).lookupOrAddDerived\((.*?)\) *)

  Definition table_name_of (tables_map : list (val * record)) (c : record) : res str :=
    bind (fld (zs "parentId") c) (fun p => bind (hash_key p) (fun p =>
    match pd_get p tables_map with
    | Some t => bind (fld (zs "tableId") t) (as_str DomainErr)
    | None => Err KeyErr
    end)).

  Definition modify_cols (tables_map : list (val * record)) (key : str) (cs : list (record * val)) : res (list action) :=
    mapM (fun cv => bind (table_name_of tables_map (fst cv)) (fun tn =>
                    bind (fld (zs "colId") (fst cv)) (fun cid => bind (as_str DomainErr cid) (fun cid =>
                    Ok (ModifyColumn tn cid [(key, snd cv)]))))) cs.

  Definition retype (tables_map : list (val * record)) (columns : list record) (old new : str) : res (list action) :=
    bind (filterM (fun c => bind (fld (zs "type") c) (fun t => Ok (py_eq t (VStr old)))) columns) (fun affected =>
    match affected with
    | [] => Ok []
    | _ => bind (modify_cols tables_map (zs "type") (map (fun c => (c, VStr new)) affected)) (fun mods =>
           Ok (mods ++ [BulkUpdateRecord T_COLUMNS (map fst affected) [(zs "type", map (fun _ => VStr new) affected)]]))
    end).

  Definition m3 (s : tds) : res (list action) :=
    bind (table_records T_TABLES s) (fun tables =>
    let tables_map := fold_left (fun acc t => pd_set (rid_val (fst t)) t acc) tables [] in
    bind (table_records T_COLUMNS s) (fun columns =>
    bind (retype tables_map columns (zs "Derived") (zs "Any")) (fun part1 =>
    bind (mapM (fun c => bind (fld (zs "formula") c) (fun f =>
                         if negb (val_truthy f) then Ok [] else
                         match f with
                         | VStr txt => let nf := re_sub M3_PATTERN [] txt in
                                       Ok (if seqb nf txt then [] else [(c, VStr nf)])
                         | _ => Err TypeErr
                         end)) columns) (fun ups =>
    let ups := concat ups in
    match ups with
    | [] => Ok part1
    | _ => bind (modify_cols tables_map (zs "formula") ups) (fun mods =>
           Ok (part1 ++ mods ++ [BulkUpdateRecord T_COLUMNS (map (fun u => fst (fst u)) ups) [(zs "formula", map snd ups)]]))
    end)))).

  (* ---- migration 17: Image columns become Attachments ---- *)
  Definition conv_image (v : val) : val :=
    match v with
    | VInt z => if Z.ltb 0 z then VList [v] else VList []
    | VBool true => VList [v]            (* isinstance(True, int) and True > 0 *)
    | _ => VList []
    end.

  Definition m17 (s : tds) : res (list action) :=
    bind (table_records T_TABLES s) (fun tables =>
    let tables_map := fold_left (fun acc t => pd_set (rid_val (fst t)) t acc) tables [] in
    bind (table_records T_COLUMNS s) (fun columns =>
    bind (filterM (fun c => bind (fld (zs "type") c) (fun t => Ok (py_eq t (VStr (zs "Image"))))) columns) (fun affected =>
    match affected with
    | [] => Ok []
    | _ =>
        bind (modify_cols tables_map (zs "type") (map (fun c => (c, VStr (zs "Attachments"))) affected)) (fun mods =>
        bind (mapM (fun c => bind (fld (zs "isFormula") c) (fun isf =>
                             if val_truthy isf then Ok [] else
                             bind (table_name_of tables_map c) (fun tn =>
                             match lookup tn (t_data s) with
                             | None => Err KeyErr
                             | Some td => bind (fld (zs "colId") c) (fun cid => bind (hash_key cid) (fun cid =>
                                          match cid with
                                          | VStr cn => match lookup cn (snd td) with
                                                       | Some vals => Ok [BulkUpdateRecord tn (fst td) [(cn, map conv_image vals)]]
                                                       | None => Err KeyErr
                                                       end
                                          | _ => Err KeyErr
                                          end))
                             end))) affected) (fun datas =>
        Ok (mods ++ [BulkUpdateRecord T_COLUMNS (map fst affected) [(zs "type", map (fun _ => VStr (zs "Attachments")) affected)]]
                 ++ concat datas)))
    end))).

  (* ---- migration 31: new-style names for summary tables ---- *)
  Definition T_ACLRESOURCES := zs "_grist_ACLResources".

  Definition m31_table (tables_by_ref : list (val * record)) (columns : list record)
             (st : list val * list (record * str)) (t : record) : res (list val * list (record * str)) :=
    let '(names, renames) := st in
    bind (fld (zs "summarySourceTable") t) (fun sst =>
    if negb (val_truthy sst) then Ok st else
    bind (hash_key sst) (fun sst =>
    match pd_get sst tables_by_ref with
    | None => Err KeyErr
    | Some src =>
        bind (filterM (fun c => bind (fld (zs "parentId") c) (fun p => Ok (py_eq p (rid_val (fst t))))) columns) (fun own =>
        bind (filterM (fun c => bind (fld (zs "summarySourceCol") c) (fun x => Ok (val_truthy x))) own) (fun gb =>
        bind (mapM (fun c => fld (zs "colId") c) gb) (fun idvals =>
        bind (fld (zs "tableId") src) (fun stid => bind (as_str TypeErr stid) (fun sname =>
        bind (mapM (as_str TypeErr) idvals) (fun ids =>
        let new0 := encode_summary_name sname ids in
        bind (fld (zs "tableId") t) (fun tid =>
        if py_eq (VStr new0) tid then Ok st else
        bind (mapM (as_str AttrErr) names) (fun avoid =>
        let new_name := pick_table new0 avoid in
        Ok (names ++ [VStr new_name], renames ++ [(t, new_name)])))))))))
    end)).

  Fixpoint m31_loop tables_by_ref columns (ts : list record) st :=
    match ts with
    | [] => Ok st
    | t :: rest => bind (m31_table tables_by_ref columns st t) (m31_loop tables_by_ref columns rest)
    end.

  Definition m31 (s : tds) : res (list action) :=
    bind (table_records T_COLUMNS s) (fun columns =>
    bind (table_records T_TABLES s) (fun tables =>
    bind (table_records T_ACLRESOURCES s) (fun resources =>
    let tables_by_ref := fold_left (fun acc t => pd_set (rid_val (fst t)) t acc) tables [] in
    bind (mapM (fun c => bind (fld (zs "parentId") c) hash_key) columns) (fun _ =>
    bind (mapM (fun t => bind (fld (zs "tableId") t) hash_key) tables) (fun names0 =>
    bind (m31_loop tables_by_ref columns (map snd tables_by_ref) (dedup_vals names0 [], [])) (fun st =>
    let renames := snd st in
    bind (mapM (fun tr => bind (fld (zs "tableId") (fst tr)) (fun n => bind (as_str DomainErr n) (fun n => Ok (n, snd tr)))) renames) (fun rn =>
    let part1 := map (fun p => RenameTable (fst p) (snd p)) rn ++
                 match renames with
                 | [] => []
                 | _ => [BulkUpdateRecord T_TABLES (map (fun tr => fst (fst tr)) renames) [(zs "tableId", map (fun tr => VStr (snd tr)) renames)]]
                 end in
    bind (mapM (fun c => bind (fld (zs "formula") c) (fun f =>
                         match f with
                         | VStr txt =>
                             if negb (is_substring (zs "GristSummary_") txt) then Ok [] else
                             Ok [UpdateRecord T_COLUMNS (fst c)
                                   [(zs "formula", VStr (fold_left (fun acc p => re_sub ([92; 98] ++ fst p ++ [92; 98]) (snd p) acc) rn txt))]]
                         | _ => Err TypeErr
                         end)) columns) (fun part2 =>
    bind (mapM (fun r => bind (fld (zs "tableId") r) (fun tid => bind (hash_key tid) (fun tid =>
                         match find (fun p => py_eq tid (VStr (fst p))) (rev rn) with
                         | Some p => Ok (match snd p with [] => [] | _ => [UpdateRecord T_ACLRESOURCES (fst r) [(zs "tableId", VStr (snd p))]] end)
                         | None => Ok []
                         end))) resources) (fun part3 =>
    Ok (part1 ++ concat part2 ++ concat part3)))))))))).
End Bodies.










(* ---------- the hypotheses of each totality theorem as one decidable check ---------- *)
Definition pre15 (s : tds) : bool :=
  J_b s && has_table_b T_SECTIONS s && has_table_b T_FIELDS s &&
  col_ok_b is_text T_SECTIONS (zs "filterSpec") s &&
  col_ok_b hashable T_FIELDS (zs "parentId") s && col_ok_b strable T_FIELDS (zs "colRef") s.
Definition pre16 (s : tds) : bool :=
  J_b s && has_table_b T_TABLES s && has_table_b T_COLUMNS s && has_table_b T_FIELDS s &&
  col_ok_b hashable T_TABLES (zs "tableId") s &&
  col_ok_b hashable T_COLUMNS (zs "parentId") s && col_ok_b hashable T_COLUMNS (zs "colId") s &&
  col_ok_b is_text T_COLUMNS (zs "type") s && col_ok_b any_val T_COLUMNS (zs "widgetOptions") s &&
  col_ok_b hashable T_FIELDS (zs "colRef") s && col_ok_b any_val T_FIELDS (zs "widgetOptions") s.
Definition m29_col_pre_b (parse : str -> option json) (r : record) : bool :=
  match fld (zs "rules") r with Ok v => falsy_or_text v | Err _ => false end &&
  match fld (zs "parentId") r with Ok _ => true | Err _ => false end &&
  match fld (zs "widgetOptions") r with Ok v => falsy_or_text v | Err _ => false end &&
  match fld (zs "rules") r with
  | Ok (VStr txt) => match parse txt with
                     | Some (JArr l) => forallb (fun x => hashable (json_to_val x)) l
                     | _ => true
                     end
  | _ => true
  end.
Definition pre29 (parse : str -> option json) (s : tds) : bool :=
  J_b s && has_table_b T_TABLES s && has_table_b T_COLUMNS s && forallb (m29_col_pre_b parse) (recs T_COLUMNS s).
Definition pre34 (s : tds) : bool :=
  J_b s && has_table_b T_TABLES s && has_table_b T_SECTIONS s && has_table_b T_FILTERS s &&
  col_ok_b hashable T_TABLES (zs "rawViewSectionRef") s && col_ok_b is_text T_SECTIONS (zs "options") s &&
  col_ok_b hashable T_FILTERS (zs "viewSectionRef") s.
Definition pre35 (s : tds) : bool :=
  J_b s && has_table_b T_ACLRULES s && col_ok_b is_text T_ACLRULES (zs "aclFormulaParsed") s.
Definition pre45 (s : tds) : bool :=
  J_b s && has_table_b T_CELLS s && col_ok_b is_text T_CELLS (zs "content") s.

(* ---------- migrations that emit a CONSTANT list of actions (translated from the source into
              coq/gen/MigrateConst_gen.v on every run): what such a list needs from the document ---------- *)
Definition smem (t : str) (l : list str) : bool := existsb (seqb t) l.
Definition ci_typed_b (ci : colinfo) : bool := match lookup (zs "type") ci with Some (VStr _) => true | _ => false end.
Definition ci_wf_b (ci : colinfo) : bool :=
  ci_typed_b ci && match lookup (zs "id") ci with Some (VStr _) => true | _ => false end.

(* only schema actions and updates of existing records, all well formed *)
Fixpoint const_ok (created : list str) (acts : list action) : bool :=
  match acts with
  | [] => true
  | AddColumn t c ci :: r => ci_typed_b ci && const_ok created r
  | RemoveColumn t c :: r => const_ok created r
  | AddTable t cols :: r => forallb ci_wf_b cols && const_ok (t :: created) r
  | UpdateRecord t rid cols :: r => negb (smem t created) && const_ok created r
  | _ => false
  end.

(* the tables the list expects to find *)
Fixpoint const_needs (created : list str) (acts : list action) : list str :=
  match acts with
  | [] => []
  | AddColumn t _ _ :: r | RemoveColumn t _ :: r | UpdateRecord t _ _ :: r =>
      if smem t created then const_needs created r else t :: const_needs created r
  | AddTable t _ :: r => const_needs (t :: created) r
  | _ :: r => const_needs created r
  end.

(* the records it expects to find *)
Fixpoint const_row_needs (acts : list action) : list (str * rid) :=
  match acts with
  | [] => []
  | UpdateRecord t rid _ :: r => (t, rid) :: const_row_needs r
  | _ :: r => const_row_needs r
  end.

(* migration 10: user tables exist for every _grist_Tables record, the column row ids are ints, every column
   record has a string type, a displayCol, a printable colId and a parentId that names a table record; every
   column of _grist_Tables_column has a typed schema entry (so AddRecord can default it) *)
Definition tables_map_of (tables : list record) : list (val * val) :=
  fold_left (fun acc t => pd_set (rid_val (fst t))
                                 (match fld (zs "tableId") t with Ok n => n | Err _ => VNull end) acc) tables [].
Definition col_pre10_b (s : tds) (tm : list (val * val)) (c : record) : bool :=
  match fld (zs "type") c with Ok (VStr _) => true | _ => false end &&
  match fld (zs "displayCol") c with Ok _ => true | _ => false end &&
  match fld (zs "colId") c with Ok v => strable v | _ => false end &&
  match fld (zs "parentId") c with
  | Ok p => hashable p && match pd_get p tm with Some (VStr n) => has n (t_data s) | _ => false end
  | _ => false
  end.
Definition typed_table_b (t : str) (s : tds) : bool :=
  match lookup t (t_data s), lookup t (t_schema s) with
  | Some td, Some sc =>
      forallb (fun cv => match lookup (fst cv) sc with Some ci => ci_typed_b ci | None => false end) (snd td)
  | _, _ => false
  end.
Definition pre10 (s : tds) : bool :=
  J_b s && has_table_b T_TABLES s && has_table_b T_COLUMNS s && typed_table_b T_COLUMNS s &&
  forallb (fun t => match fld (zs "tableId") t with Ok (VStr n) => has n (t_data s) | _ => false end) (recs T_TABLES s) &&
  forallb (fun r : rid => match r with Some _ => true | None => false end) (rows_of_model T_COLUMNS s) &&
  forallb (col_pre10_b s (tables_map_of (recs T_TABLES s))) (recs T_COLUMNS s).

(* migration 7.  Every table record has a string tableId; every column record has a hashable parentId naming a
   table record with a string tableId, a string colId, a formula, an isFormula and only hashable cells; and for
   every table whose name the summary regex matches with an existing source table: the column refs in the name
   parse (THIS excludes names like Summary_Foo that carry no refs) and each names a column record. *)
Definition tables_by_id (s : tds) : list (val * record) :=
  fold_left (fun acc t => pd_set (rid_val (fst t)) t acc) (recs T_TABLES s) [].
Definition cols_by_id (s : tds) : list (val * record) :=
  fold_left (fun acc c => pd_set (rid_val (fst c)) c acc) (recs T_COLUMNS s) [].
Definition name_to_ref_of (s : tds) : list (val * rid) :=
  match index_by (fld (zs "tableId")) (fun t => fst t) (map snd (tables_by_id s)) [] with Ok m => m | Err _ => [] end.

Definition table_pre7 (sm : str -> option (str * str)) (s : tds) (t : record) : bool :=
  match fld (zs "tableId") t with
  | Ok (VStr name) =>
      match sm name with
      | None => true
      | Some (g1, g2) =>
          match pd_get (VStr g1) (name_to_ref_of s) with
          | None => true
          | Some _ =>
              match parse_refs g2 with
              | Ok refs => forallb (fun z => match pd_get (VInt z) (cols_by_id s) with
                                             | Some c => match fld (zs "colId") c with Ok (VStr _) => true | _ => false end
                                             | None => false
                                             end) refs
              | Err _ => false
              end
          end
      end
  | _ => false
  end.
Definition col_pre7 (s : tds) (c : record) : bool :=
  match fld (zs "parentId") c with
  | Ok p => hashable p && match pd_get p (tables_by_id s) with
                          | Some t => match fld (zs "tableId") t with Ok (VStr _) => true | _ => false end
                          | None => false
                          end
  | _ => false
  end &&
  match fld (zs "colId") c with Ok (VStr _) => true | _ => false end &&
  match fld (zs "formula") c with Ok _ => true | _ => false end &&
  match fld (zs "isFormula") c with Ok _ => true | _ => false end &&
  forallb (fun kv => hashable (snd kv)) (snd c).
Definition pre7 (sm : str -> option (str * str)) (s : tds) : bool :=
  has_table_b T_TABLES s && has_table_b T_COLUMNS s &&
  forallb (table_pre7 sm s) (recs T_TABLES s) && forallb (col_pre7 s) (recs T_COLUMNS s).

Definition pre4 (s : tds) : bool := J_b s && has_table_b T_TABBAR s.
Definition pre39 (s : tds) : bool := J_b s && has_table_b T_TRIGGERS s && has_table_b T_SECTIONS s.

(* migrations 26 / 30 / 40 (a new view section per table) *)
Definition is_some_rid (r : rid) : bool := match r with Some _ => true | None => false end.
Definition has_fld (c : str) (r : record) : bool := match fld c r with Ok _ => true | Err _ => false end.
Definition col_pre_sec (c : record) : bool :=
  has_fld (zs "parentId") c &&
  match fld (zs "colId") c with Ok (VStr _) => true | _ => false end &&
  match fld (zs "parentPos") c with Ok v => match val_num v with Ok _ => true | Err _ => false end | _ => false end.
Definition pre_sec_common (s : tds) : bool :=
  J_b s && has_table_b T_TABLES s && has_table_b T_COLUMNS s && typed_table_b T_SECTIONS s && typed_table_b T_FIELDS s &&
  forallb is_some_rid (rows_of_model T_SECTIONS s) &&
  forallb (fun t => match fld (zs "tableId") t with Ok (VStr _) => true | _ => false end) (recs T_TABLES s) &&
  forallb col_pre_sec (recs T_COLUMNS s).
Definition pre26 (s : tds) : bool :=
  pre_sec_common s && has_table_b T_VIEWS s &&
  forallb (fun t => match fld (zs "primaryViewId") t with Ok v => hashable v | _ => false end) (recs T_TABLES s) &&
  forallb (has_fld (zs "name")) (recs T_VIEWS s).
Definition pre30 (s : tds) : bool :=
  pre_sec_common s && forallb (has_fld (zs "summarySourceTable")) (recs T_TABLES s).
Definition pre40 (s : tds) : bool :=
  pre_sec_common s && forallb (fun t => has_fld (zs "rawViewSectionRef") t && has_fld (zs "summarySourceTable") t) (recs T_TABLES s).

(* migration 25 *)
Definition pre25 (s : tds) : bool :=
  J_b s && has_table_b T_FIELDS s && col_ok_b any_val T_FIELDS (zs "filter") s &&
  col_ok_b any_val T_FIELDS (zs "colRef") s && col_ok_b any_val T_FIELDS (zs "parentId") s.

(* migration 28: for every (table, column of it) of type Attachments the user table's schema has the column *)
Definition schema_has (t c : str) (s : tds) : bool :=
  match lookup t (t_schema s) with Some sc => has c sc | None => false end.
Definition pair_pre28 (s : tds) (table col : record) : bool :=
  match fld (zs "parentId") col with
  | Ok p => if negb (py_eq (rid_val (fst table)) p) then true else
            match fld (zs "type") col with
            | Ok ty => if negb (py_eq ty (VStr (zs "Attachments"))) then true else
                       match fld (zs "tableId") table, fld (zs "colId") col with
                       | Ok (VStr tn), Ok (VStr cn) => schema_has tn cn s
                       | _, _ => false
                       end
            | Err _ => false
            end
  | Err _ => false
  end.
Definition pre28 (s : tds) : bool :=
  J_b s && has_table_b T_ATTACHMENTS s && has_table_b T_TABLES s && has_table_b T_COLUMNS s &&
  forallb (fun t => forallb (pair_pre28 s t) (recs T_COLUMNS s)) (recs T_TABLES s).

(* migration 20 *)
Definition fld_is (P : val -> bool) (c : str) (r : record) : bool := match fld c r with Ok v => P v | Err _ => false end.
Definition pre20 (s : tds) : bool :=
  J_b s && has_table_b T_TABLES s && has_table_b T_TABLEVIEWS s && has_table_b T_VIEWS s &&
  forallb (fld_is is_text (zs "tableId")) (recs T_TABLES s) &&
  forallb (fun tv => fld_is hashable (zs "tableRef") tv && fld_is hashable (zs "viewRef") tv) (recs T_TABLEVIEWS s) &&
  forallb (fun v => fld_is is_text (zs "name") v && is_some_rid (fst v)) (recs T_VIEWS s).

(* migrations 3 and 17: a column that gets a ModifyColumn names a table record with a string tableId, has a string
   colId, and the table's schema has the column; 17 also needs the user table's data column *)
Definition col_named (s : tds) (c : record) : bool :=
  match fld (zs "parentId") c with
  | Ok p => hashable p && match pd_get p (tables_by_id s) with
                          | Some t => match fld (zs "tableId") t, fld (zs "colId") c with
                                      | Ok (VStr tn), Ok (VStr cn) => schema_has tn cn s
                                      | _, _ => false
                                      end
                          | None => false
                          end
  | Err _ => false
  end.
Definition pre3 (s : tds) : bool :=
  J_b s && has_table_b T_TABLES s && has_table_b T_COLUMNS s &&
  forallb (fun c => has_fld (zs "type") c && fld_is falsy_or_text (zs "formula") c &&
                    (if fld_is (fun t => py_eq t (VStr (zs "Derived"))) (zs "type") c || fld_is val_truthy (zs "formula") c
                     then col_named s c else true)) (recs T_COLUMNS s).
Definition col_data17 (s : tds) (c : record) : bool :=
  match fld (zs "parentId") c with
  | Ok p => match pd_get p (tables_by_id s) with
            | Some t => match fld (zs "tableId") t, fld (zs "colId") c with
                        | Ok (VStr tn), Ok (VStr cn) =>
                            match lookup tn (t_data s) with Some td => has cn (snd td) | None => false end
                        | _, _ => false
                        end
            | None => false
            end
  | Err _ => false
  end.
Definition pre17 (s : tds) : bool :=
  J_b s && has_table_b T_TABLES s && has_table_b T_COLUMNS s &&
  forallb (fun c => has_fld (zs "type") c &&
                    (if fld_is (fun t => py_eq t (VStr (zs "Image"))) (zs "type") c
                     then col_named s c && has_fld (zs "isFormula") c &&
                          (if fld_is val_truthy (zs "isFormula") c then true else col_data17 s c)
                     else true)) (recs T_COLUMNS s).

(* migration 2: every section has hashable numeric tableRef / parentId cells and a parentKey; a 'record' section's
   tableRef is the (int) id of a _grist_Tables record *)
Definition is_num (v : val) : bool := match val_num v with Ok _ => true | Err _ => false end.
Definition sec_pre2 (s : tds) (sec : record) : bool :=
  fld_is (fun v => hashable v && is_num v) (zs "tableRef") sec && has_fld (zs "parentKey") sec &&
  fld_is (fun v => hashable v && is_num v) (zs "parentId") sec &&
  (if fld_is (fun k => py_eq k (VStr (zs "record"))) (zs "parentKey") sec
   then fld_is (fun v => match v with VInt z => rid_mem (Some z) (rows_of_model T_TABLES s) | _ => false end) (zs "tableRef") sec
   else true).
Definition pre2 (s : tds) : bool :=
  J_b s && has_table_b T_SECTIONS s && has_table_b T_TABLES s && forallb (sec_pre2 s) (recs T_SECTIONS s).

(* migration 1: the sections have hashable numeric tableRef / parentId cells; _grist_DocInfo exists; tables that
   already exist (Attachments, TabItems) have typed schemas *)
Definition pre1 (s : tds) : bool :=
  J_b s && has_table_b T_SECTIONS s && has_table_b T_DOCINFO s &&
  (if has T_ATTACHMENTS (t_data s) then true else true) &&
  (if has T_TABITEMS (t_data s) then typed_table_b T_TABITEMS s else true) &&
  forallb (fun sec => fld_is (fun v => hashable v && is_num v) (zs "tableRef") sec &&
                      fld_is (fun v => hashable v && is_num v) (zs "parentId") sec) (recs T_SECTIONS s).

(* migration 31 (body): string tableIds; a truthy summarySourceTable is hashable and names a table record; the
   columns have a hashable parentId, a string colId, a string formula and a summarySourceCol; the ACL
   resources have a hashable tableId *)
Definition pre31 (s : tds) : bool :=
  has_table_b T_COLUMNS s && has_table_b T_TABLES s && has_table_b T_ACLRESOURCES s &&
  forallb (fun t => fld_is is_text (zs "tableId") t &&
                    fld_is (fun v => negb (val_truthy v) ||
                                     (hashable v && match pd_get v (tables_by_id s) with Some _ => true | None => false end))
                           (zs "summarySourceTable") t) (recs T_TABLES s) &&
  forallb (fun c => fld_is hashable (zs "parentId") c && fld_is is_text (zs "colId") c &&
                    fld_is is_text (zs "formula") c && has_fld (zs "summarySourceCol") c) (recs T_COLUMNS s) &&
  forallb (fld_is hashable (zs "tableId")) (recs T_ACLRESOURCES s).

(* ---------- oracle tables and the check used by the generated cases ---------- *)
Definition jnum_eqb (a b : jnum) : bool :=
  match a, b with
  | JInt x, JInt y => Z.eqb x y
  | JFlt x, JFlt y => Z.eqb x y
  | _, _ => false
  end.

Fixpoint json_eqb (a b : json) : bool :=
  match a, b with
  | JNull, JNull => true
  | JBool x, JBool y => Bool.eqb x y
  | JNum x, JNum y => jnum_eqb x y
  | JStr x, JStr y => seqb x y
  | JArr x, JArr y =>
      (fix go (l1 l2 : list json) : bool :=
         match l1, l2 with
         | [], [] => true
         | u :: l1', v :: l2' => json_eqb u v && go l1' l2'
         | _, _ => false
         end) x y
  | JObj x, JObj y =>
      (fix go (l1 l2 : list (str * json)) : bool :=
         match l1, l2 with
         | [], [] => true
         | (k, u) :: l1', (k', v) :: l2' => seqb k k' && json_eqb u v && go l1' l2'
         | _, _ => false
         end) x y
  | _, _ => false
  end.

Definition MISSING : str := zs "<<oracle table has no entry>>".

Definition tbl_parse (t : list (str * option json)) (s : str) : option json :=
  match lookup s t with Some o => o | None => None end.
Definition tbl_dumps (t : list (json * str)) (j : json) : str :=
  match find (fun p => json_eqb (fst p) j) t with Some p => snd p | None => MISSING end.
Definition tbl_secs (t : list (jnum * res Z)) (n : jnum) : res Z :=
  match find (fun p => jnum_eqb (fst p) n) t with Some p => snd p | None => Err 98 end.

Record oracles := mkOracles {
  o_parse : list (str * option json);
  o_dumps : list (json * str);
  o_dumps_compact : list (json * str);
  o_secs : list (jnum * res Z);
  o_pick_col : list (list str * str);          (* avoid set (any order) -> picked id *)
  o_strj : list (json * str);
  o_summary : list (str * option (str * str));          (* table name -> summary_re.match groups *)
  o_pick_table : list ((str * list str) * str);         (* (suggested name, avoid set) -> picked table id *)
  o_resub : list ((str * str * str) * str)              (* (pattern, replacement, text) -> re.sub result *)
}.

Definition set_eqb (a b : list str) : bool := forallb (fun x => smem x b) a && forallb (fun x => smem x a) b.
Definition tbl_pick (t : list (list str * str)) (avoid : list str) : str :=
  match find (fun p => set_eqb (fst p) avoid) t with Some p => snd p | None => MISSING end.
Definition tbl_summary (t : list (str * option (str * str))) (name : str) : option (str * str) :=
  match lookup name t with Some o => o | None => None end.
Definition tbl_resub (t : list ((str * str * str) * str)) (pat repl text : str) : str :=
  match find (fun p => let '(a, b, c) := fst p in seqb a pat && seqb b repl && seqb c text) t with
  | Some p => snd p | None => MISSING end.
Definition tbl_pick_table (t : list ((str * list str) * str)) (name : str) (avoid : list str) : str :=
  match find (fun p => seqb (fst (fst p)) name && set_eqb (snd (fst p)) avoid) t with Some p => snd p | None => MISSING end.

(* the modelled bodies, by version *)
Definition body_of (o : oracles) (v : Z) : option (tds -> res (list action)) :=
  let parse := tbl_parse (o_parse o) in
  let dumps := tbl_dumps (o_dumps o) in
  if Z.eqb v 34 then Some (m34 parse)
  else if Z.eqb v 15 then Some (m15 parse dumps)
  else if Z.eqb v 35 then Some (m35 parse)
  else if Z.eqb v 45 then Some (m45 parse dumps (tbl_secs (o_secs o)))
  else if Z.eqb v 16 then Some (m16 parse (tbl_dumps (o_dumps_compact o)))
  else if Z.eqb v 29 then Some (m29 parse dumps)
  else if Z.eqb v 10 then Some (m10 parse (tbl_pick (o_pick_col o)) (tbl_dumps (o_strj o)))
  else if Z.eqb v 7 then Some (m7 (tbl_summary (o_summary o)) (tbl_pick_table (o_pick_table o)))
  else if Z.eqb v 4 then Some m4
  else if Z.eqb v 3 then Some (m3 (tbl_resub (o_resub o)))
  else if Z.eqb v 17 then Some m17
  else if Z.eqb v 31 then Some (m31 (tbl_pick_table (o_pick_table o)) (tbl_resub (o_resub o)))
  else if Z.eqb v 1 then Some m1
  else if Z.eqb v 2 then Some m2
  else if Z.eqb v 20 then Some m20
  else if Z.eqb v 26 then Some m26
  else if Z.eqb v 30 then Some m30
  else if Z.eqb v 40 then Some m40
  else if Z.eqb v 28 then Some m28
  else if Z.eqb v 25 then Some m25
  else if Z.eqb v 39 then Some m39
  else None.

Definition pre_of (o : oracles) (v : Z) : tds -> bool :=
  if Z.eqb v 15 then pre15 else if Z.eqb v 16 then pre16 else if Z.eqb v 29 then pre29 (tbl_parse (o_parse o))
  else if Z.eqb v 34 then pre34 else if Z.eqb v 35 then pre35 else if Z.eqb v 45 then pre45
  else if Z.eqb v 10 then pre10 else if Z.eqb v 7 then pre7 (tbl_summary (o_summary o))
  else if Z.eqb v 4 then pre4 else if Z.eqb v 39 then pre39
  else if Z.eqb v 26 then pre26 else if Z.eqb v 30 then pre30 else if Z.eqb v 40 then pre40
  else if Z.eqb v 25 then pre25 else if Z.eqb v 28 then pre28
  else if Z.eqb v 20 then pre20 else if Z.eqb v 3 then pre3 else if Z.eqb v 17 then pre17
  else if Z.eqb v 2 then pre2 else if Z.eqb v 1 then pre1 else if Z.eqb v 31 then pre31
  else fun _ => true.

(* versions whose modelled body does not reproduce the recorded actions on the state it ran on (v), or whose
   totality theorem's hypotheses the state does not satisfy (-v); 0 when the recorded actions do not apply *)
Definition body_with (cb : list (Z * list action)) (o : oracles) (v : Z) : option (tds -> res (list action)) :=
  match body_of o v with
  | Some f => Some f
  | None => match find (fun p => Z.eqb (fst p) v) cb with
            | Some p => Some (fun _ => Ok (snd p))
            | None => None
            end
  end.

Fixpoint walk_bad (cb : list (Z * list action)) (o : oracles) (rec : list (Z * list action)) (s : tds) : list Z :=
  match rec with
  | [] => []
  | (v, acts) :: rest =>
      (match body_with cb o v with
       | None => []
       | Some f => match f s with
                   | Ok a => if list_eqb action_eqb a acts then [] else [v]
                   | Err _ => [v]
                   end ++ (if pre_of o v s then [] else [- v])
       end) ++
      match tds_apply_all acts s with
      | Ok s' => walk_bad cb o rest s'
      | Err _ => [0]
      end
  end.

Definition check_bodies (cb : list (Z * list action)) (o : oracles) (T0 : tds) (rec : list (Z * list action)) : bool :=
  match walk_bad cb o rec T0 with [] => true | _ => false end.
Definition check_body_at (cb : list (Z * list action)) (v : Z) (o : oracles) (T0 : tds) (rec : list (Z * list action)) : bool :=
  negb (existsb (Z.eqb v) (walk_bad cb o rec T0)).
