(* C08 -- the engine schema and the metadata tables that describe it.

   Code modelled (sandbox/grist):
     schema.build_schema / get_reverse_col_id_lookup_func   (sort by (parentId, parentPos), itertools.groupby,
                                                             dict of groups, OrderedDicts, reverseCol -> reverseColId)
     docactions.DocActions.{AddColumn,RemoveColumn,RenameColumn,ModifyColumn,AddTable,RemoveTable,RenameTable}
                                                             (their effect on Engine.schema, assertions included)
     docactions.DocActions.Bulk{Add,Remove,Update}Record on _grist_Tables and _grist_Tables_column
     useractions.UserActions.doAddColumn, doAddTable, doRemoveColumns, _removeTableRecords, _updateColumnRecords,
       _updateTableRecords, doModifyColumn (the schema part): the COUPLED steps, each deriving its schema doc
       actions from the metadata change the way the code does.

   Strings are lists of code points.  parentPos (a float) enters as an order-preserving integer key computed by the
   harness.  Only the metadata fields build_schema reads are kept. *)
From Coq Require Import ZArith List Bool Lia.
Import ListNotations.
Open Scope Z_scope.

Definition str := list Z.

Fixpoint str_eqb (a b : str) : bool :=
  match a, b with
  | [], [] => true
  | x :: a', y :: b' => Z.eqb x y && str_eqb a' b'
  | _, _ => false
  end.

Definition ostr_eqb (a b : option str) : bool :=
  match a, b with
  | None, None => true
  | Some x, Some y => str_eqb x y
  | _, _ => false
  end.

Inductive res (A : Type) : Type :=
| Ok (a : A)
| Err (why : nat).
Arguments Ok {A} a.
Arguments Err {A} why.

(* why an operation fails (what the code raises) *)
Definition E_no_table : nat := 1.       (* KeyError: engine.tables[table_id] / assertion "Table doesn't exist" *)
Definition E_no_column : nat := 2.      (* assertion "Column not in table" / KeyError in get_column *)
Definition E_column_exists : nat := 3.  (* assertion "Column already exists" *)
Definition E_table_exists : nat := 4.   (* assertion "Table already exists" *)
Definition E_row_exists : nat := 5.     (* assertion "AddRecord for existing record" *)
Definition E_no_row : nat := 6.         (* assertion "UpdateRecord for non-existent record" / get_record *)
Definition E_key_error : nat := 7.      (* build_schema: coldict[t.id] for a table without column records *)
Definition E_not_a_dict : nat := 8.     (* an update given with the same row twice (col_updates is a dict) *)
Definition E_bad_id : nat := 9.         (* row ids are allocated from 1 upwards *)

(* ---------------------------------------------------------------- ordered dicts keyed by strings *)
Section OD.
  Context {A : Type}.
  Fixpoint od_get (k : str) (d : list (str * A)) : option A :=
    match d with
    | [] => None
    | (k', v) :: t => if str_eqb k' k then Some v else od_get k t
    end.
  (* d[k] = v : the value is replaced in place, a new key goes to the end *)
  Fixpoint od_set (k : str) (v : A) (d : list (str * A)) : list (str * A) :=
    match d with
    | [] => [(k, v)]
    | (k', v') :: t => if str_eqb k' k then (k', v) :: t else (k', v') :: od_set k v t
    end.
  (* d.pop(k) *)
  Definition od_del (k : str) (d : list (str * A)) : list (str * A) :=
    filter (fun p => negb (str_eqb (fst p) k)) d.
End OD.

(* ---------------------------------------------------------------- the engine schema *)
Record colinfo := { ci_type : str; ci_isf : bool; ci_formula : str; ci_rev : option str }.
Definition scols := list (str * colinfo).
Definition schema := list (str * scols).

Definition colinfo_eqb (a b : colinfo) : bool :=
  str_eqb (ci_type a) (ci_type b) && Bool.eqb (ci_isf a) (ci_isf b) && str_eqb (ci_formula a) (ci_formula b)
  && ostr_eqb (ci_rev a) (ci_rev b).

(* the col_info dict of a ModifyColumn doc action: every key optional; reverseColId may be given as None *)
Record colpatch := { p_type : option str; p_isf : option bool; p_formula : option str; p_rev : option (option str) }.

Definition patch_info (p : colpatch) (old : colinfo) : colinfo :=
  {| ci_type := match p_type p with Some x => x | None => ci_type old end;
     ci_isf := match p_isf p with Some x => x | None => ci_isf old end;
     ci_formula := match p_formula p with Some x => x | None => ci_formula old end;
     ci_rev := match p_rev p with Some x => x | None => ci_rev old end |}.

Definition patch_empty (p : colpatch) : bool :=
  match p_type p, p_isf p, p_formula p, p_rev p with
  | None, None, None, None => true
  | _, _, _, _ => false
  end.

Inductive sev : Type :=
| SAddColumn (t c : str) (i : colinfo)
| SRemoveColumn (t c : str)
| SRenameColumn (t c c' : str)
| SModifyColumn (t c : str) (p : colpatch)
| SAddTable (t : str) (cols : list (str * colinfo))
| SRemoveTable (t : str)
| SRenameTable (t t' : str).

Definition od_of_list {A} (l : list (str * A)) : list (str * A) :=
  fold_left (fun d kv => od_set (fst kv) (snd kv) d) l [].

Definition apply_s (e : sev) (s : schema) : res schema :=
  match e with
  | SAddColumn t c i =>
      match od_get t s with
      | None => Err E_no_table
      | Some cols => match od_get c cols with
                     | Some _ => Err E_column_exists
                     | None => Ok (od_set t (od_set c i cols) s)
                     end
      end
  | SRemoveColumn t c =>
      match od_get t s with
      | None => Err E_no_table
      | Some cols => match od_get c cols with
                     | None => Err E_no_column
                     | Some _ => Ok (od_set t (od_del c cols) s)
                     end
      end
  | SRenameColumn t c c' =>
      match od_get t s with
      | None => Err E_no_table
      | Some cols => match od_get c cols, od_get c' cols with
                     | None, _ => Err E_no_column
                     | Some _, Some _ => Err E_column_exists
                     | Some i, None => Ok (od_set t (od_set c' i (od_del c cols)) s)
                     end
      end
  | SModifyColumn t c p =>
      match od_get t s with
      | None => Err E_no_table
      | Some cols => match od_get c cols with
                     | None => Err E_no_column
                     | Some old =>
                         let new := patch_info p old in
                         if colinfo_eqb new old then Ok s
                         else Ok (od_set t (od_set c new (od_del c cols)) s)
                     end
      end
  | SAddTable t cols =>
      match od_get t s with
      | Some _ => Err E_table_exists
      | None => Ok (od_set t (od_of_list cols) s)
      end
  | SRemoveTable t =>
      match od_get t s with
      | None => Err E_no_table
      | Some _ => Ok (od_del t s)
      end
  | SRenameTable t t' =>
      match od_get t s, od_get t' s with
      | None, _ => Err E_no_table
      | Some _, Some _ => Err E_table_exists
      | Some cols, None => Ok (od_set t' cols (od_del t s))
      end
  end.

(* ---------------------------------------------------------------- the metadata *)
Record trec := { t_id : Z; t_tableId : str }.
Record crec := { c_id : Z; c_parent : Z; c_pos : Z; c_colId : str; c_type : str; c_isf : bool; c_formula : str;
                 c_rev : Z }.
Record meta := { m_tables : list trec; m_cols : list crec }.

Record cpatch := { u_parent : option Z; u_pos : option Z; u_colId : option str; u_type : option str;
                   u_isf : option bool; u_formula : option str; u_rev : option Z }.

Definition patch_crec (u : cpatch) (r : crec) : crec :=
  {| c_id := c_id r;
     c_parent := match u_parent u with Some x => x | None => c_parent r end;
     c_pos := match u_pos u with Some x => x | None => c_pos r end;
     c_colId := match u_colId u with Some x => x | None => c_colId r end;
     c_type := match u_type u with Some x => x | None => c_type r end;
     c_isf := match u_isf u with Some x => x | None => c_isf r end;
     c_formula := match u_formula u with Some x => x | None => c_formula r end;
     c_rev := match u_rev u with Some x => x | None => c_rev r end |}.

Definition find_col (k : Z) (cols : list crec) : option crec := find (fun r => c_id r =? k) cols.
Definition find_table (k : Z) (ts : list trec) : option trec := find (fun t => t_id t =? k) ts.

(* rows are kept in row-id order, as fetch_table reports them *)
Fixpoint ins_c (r : crec) (l : list crec) : list crec :=
  match l with
  | [] => [r]
  | x :: t => if c_id r <? c_id x then r :: l else x :: ins_c r t
  end.
Fixpoint ins_t (r : trec) (l : list trec) : list trec :=
  match l with
  | [] => [r]
  | x :: t => if t_id r <? t_id x then r :: l else x :: ins_t r t
  end.

Definition mem_z (k : Z) (l : list Z) : bool := existsb (Z.eqb k) l.

Inductive mev : Type :=
| MAddTables (l : list trec)
| MRemoveTables (ids : list Z)
| MUpdateTables (l : list (Z * option str))
| MAddCols (l : list crec)
| MRemoveCols (ids : list Z)
| MUpdateCols (l : list (Z * cpatch)).

Fixpoint add_tables (l : list trec) (ts : list trec) : res (list trec) :=
  match l with
  | [] => Ok ts
  | r :: rest => match find_table (t_id r) ts with
                 | Some _ => Err E_row_exists
                 | None => add_tables rest (ins_t r ts)
                 end
  end.
Fixpoint add_cols (l : list crec) (cs : list crec) : res (list crec) :=
  match l with
  | [] => Ok cs
  | r :: rest => match find_col (c_id r) cs with
                 | Some _ => Err E_row_exists
                 | None => add_cols rest (ins_c r cs)
                 end
  end.

Definition upd_table (k : Z) (n : option str) (ts : list trec) : list trec :=
  map (fun t => if t_id t =? k then {| t_id := t_id t; t_tableId := match n with Some x => x | None => t_tableId t end |}
                else t) ts.
Definition upd_col (k : Z) (u : cpatch) (cs : list crec) : list crec :=
  map (fun r => if c_id r =? k then patch_crec u r else r) cs.

Definition upd_tables (l : list (Z * option str)) (ts : list trec) : list trec :=
  fold_left (fun acc kn => upd_table (fst kn) (snd kn) acc) l ts.
Definition upd_cols (l : list (Z * cpatch)) (cs : list crec) : list crec :=
  fold_left (fun acc ku => upd_col (fst ku) (snd ku) acc) l cs.

Definition apply_m (e : mev) (m : meta) : res meta :=
  match e with
  | MAddTables l => match add_tables l (m_tables m) with
                    | Ok ts => Ok {| m_tables := ts; m_cols := m_cols m |}
                    | Err x => Err x
                    end
  | MRemoveTables ids =>
      Ok {| m_tables := filter (fun t => negb (mem_z (t_id t) ids)) (m_tables m); m_cols := m_cols m |}
  | MUpdateTables l =>
      if forallb (fun kn => match find_table (fst kn) (m_tables m) with Some _ => true | None => false end) l
      then Ok {| m_tables := upd_tables l (m_tables m); m_cols := m_cols m |}
      else Err E_no_row
  | MAddCols l => match add_cols l (m_cols m) with
                  | Ok cs => Ok {| m_tables := m_tables m; m_cols := cs |}
                  | Err x => Err x
                  end
  | MRemoveCols ids =>
      Ok {| m_tables := m_tables m; m_cols := filter (fun r => negb (mem_z (c_id r) ids)) (m_cols m) |}
  | MUpdateCols l =>
      if forallb (fun ku => match find_col (fst ku) (m_cols m) with Some _ => true | None => false end) l
      then Ok {| m_tables := m_tables m; m_cols := upd_cols l (m_cols m) |}
      else Err E_no_row
  end.

(* ---------------------------------------------------------------- schema.build_schema *)
Definition key_le (a b : crec) : bool :=
  (c_parent a <? c_parent b) || ((c_parent a =? c_parent b) && (c_pos a <=? c_pos b)).

(* sorted(..., key=(parentId, parentPos)): stable *)
Fixpoint insert_sorted (x : crec) (l : list crec) : list crec :=
  match l with
  | [] => [x]
  | y :: t => if key_le x y then x :: l else y :: insert_sorted x t
  end.
Definition sort_cols (l : list crec) : list crec := fold_right insert_sorted [] l.

(* itertools.groupby(collist, parentId): runs of consecutive equal keys *)
Fixpoint groupby (l : list crec) : list (Z * list crec) :=
  match l with
  | [] => []
  | x :: t => match groupby t with
              | (k, g) :: rest => if k =? c_parent x then (k, x :: g) :: rest else (c_parent x, [x]) :: (k, g) :: rest
              | [] => [(c_parent x, [x])]
              end
  end.

(* {t: list(cols) for t, cols in groupby}: a later group with the same key replaces an earlier one *)
Fixpoint dict_last (k : Z) (g : list (Z * list crec)) : option (list crec) :=
  match g with
  | [] => None
  | (k', v) :: t => match dict_last k t with
                    | Some x => Some x
                    | None => if k' =? k then Some v else None
                    end
  end.

(* {c.id: c.colId for c in collist}.get(ref) *)
Fixpoint refmap_get (r : Z) (l : list crec) : option str :=
  match l with
  | [] => None
  | x :: t => match refmap_get r t with
              | Some y => Some y
              | None => if c_id x =? r then Some (c_colId x) else None
              end
  end.

Definition mkinfo (collist : list crec) (c : crec) : colinfo :=
  {| ci_type := c_type c; ci_isf := c_isf c; ci_formula := c_formula c; ci_rev := refmap_get (c_rev c) collist |}.

Definition build_cols (collist cols : list crec) : scols :=
  fold_left (fun d c => od_set (c_colId c) (mkinfo collist c) d) cols [].

Definition build_schema (base : schema) (m : meta) : res schema :=
  let collist := sort_cols (m_cols m) in
  let coldict := groupby collist in
  fold_left (fun acc t =>
               match acc with
               | Err e => Err e
               | Ok sch => match dict_last (t_id t) coldict with
                           | None => Err E_key_error
                           | Some cols => Ok (od_set (t_tableId t) (build_cols collist cols) sch)
                           end
               end) (m_tables m) (Ok base).

(* ---------------------------------------------------------------- state, events *)
Record state := { st_schema : schema; st_meta : meta }.

Inductive ev : Type :=
| ES (e : sev)
| EM (e : mev).

Definition apply_ev (e : ev) (s : state) : res state :=
  match e with
  | ES x => match apply_s x (st_schema s) with
            | Ok sch => Ok {| st_schema := sch; st_meta := st_meta s |}
            | Err w => Err w
            end
  | EM x => match apply_m x (st_meta s) with
            | Ok m => Ok {| st_schema := st_schema s; st_meta := m |}
            | Err w => Err w
            end
  end.

Fixpoint run_events (l : list ev) (s : state) : res state :=
  match l with
  | [] => Ok s
  | e :: t => match apply_ev e s with
              | Ok s' => run_events t s'
              | Err w => Err w
              end
  end.

(* ---------------------------------------------------------------- useractions.doModifyColumn, schema part *)
Definition filter_patch (old : colinfo) (p : colpatch) : colpatch :=
  {| p_type := match p_type p with Some x => if str_eqb x (ci_type old) then None else Some x | None => None end;
     p_isf := match p_isf p with Some x => if Bool.eqb x (ci_isf old) then None else Some x | None => None end;
     p_formula := match p_formula p with
                  | Some x => if str_eqb x (ci_formula old) then None else Some x
                  | None => None
                  end;
     p_rev := match p_rev p with Some x => if ostr_eqb x (ci_rev old) then None else Some x | None => None end |}.

Definition do_modify (tid c : str) (p : colpatch) (sch : schema) : res (schema * list sev) :=
  match od_get tid sch with
  | None => Err E_no_table
  | Some cols =>
    match od_get c cols with
    | None => Err E_no_column
    | Some old =>
      let p' := filter_patch old p in
      if patch_empty p' then Ok (sch, [])
      else match apply_s (SModifyColumn tid c p') sch with
           | Ok sch' => Ok (sch', [SModifyColumn tid c p'])
           | Err e => Err e
           end
    end
  end.

(* ---------------------------------------------------------------- the coupled steps *)
Inductive cop : Type :=
| CAddColumn (id parent pos : Z) (colId type : str) (isf : bool) (formula : str)   (* doAddColumn *)
| CAddTable (t : trec) (cols : list crec)                                       (* doAddTable *)
| CRemoveColumns (ids : list Z)                                                 (* doRemoveColumns *)
| CRemoveTables (ids : list Z)                                                  (* _removeTableRecords *)
| CUpdateColumns (upds : list (Z * cpatch))                                     (* _updateColumnRecords *)
| CUpdateTables (tupds : list (Z * option str)) (cupds : list (Z * cpatch))     (* _updateTableRecords *)
| CRaw (e : ev).                  (* a doc action applied on its own (ApplyDocActions / ApplyUndoActions, or a
                                     direct record action on a metadata table): NOT a coupled step *)

Fixpoint assoc {A} (k : Z) (l : list (Z * A)) : option A :=
  match l with
  | [] => None
  | (k', v) :: t => if k' =? k then Some v else assoc k t
  end.

Fixpoint nodup_keys {A} (l : list (Z * A)) : bool :=
  match l with
  | [] => true
  | (k, _) :: t => match assoc k t with Some _ => false | None => nodup_keys t end
  end.

(* reverse_updates.get('colId', reverse_col.colId) *)
Definition new_colId_of (cs : list crec) (all : list (Z * cpatch)) (x : Z) : res str :=
  match find_col x cs with
  | None => Err E_no_row
  | Some rx => Ok (match assoc x all with
                   | Some ux => match u_colId ux with Some n => n | None => c_colId rx end
                   | None => c_colId rx
                   end)
  end.

Definition rev_patch (cs : list crec) (all : list (Z * cpatch)) (u : cpatch) : res (option (option str)) :=
  match u_rev u with
  | None => Ok None
  | Some x => if x =? 0 then Ok (Some None)
              else match new_colId_of cs all x with
                   | Ok n => Ok (Some (Some n))
                   | Err e => Err e
                   end
  end.

Definition schema_patch_of (u : cpatch) (prev : option (option str)) : colpatch :=
  {| p_type := u_type u; p_isf := u_isf u; p_formula := u_formula u; p_rev := prev |}.

(* the loop `for c, values in update_pairs:` of _updateColumnRecords: ModifyColumn, then RenameColumn *)
Fixpoint upd_loop (m : meta) (all l : list (Z * cpatch)) (sch : schema) (log : list sev) : res (schema * list sev) :=
  match l with
  | [] => Ok (sch, log)
  | (k, u) :: rest =>
    match find_col k (m_cols m) with
    | None => Err E_no_row
    | Some r =>
      match find_table (c_parent r) (m_tables m) with
      | None => Err E_no_table
      | Some t =>
        let tid := t_tableId t in
        match rev_patch (m_cols m) all u with
        | Err e => Err e
        | Ok prev =>
          let p := schema_patch_of u prev in
          match (if patch_empty p then Ok (sch, []) else do_modify tid (c_colId r) p sch) with
          | Err e => Err e
          | Ok (sch1, l1) =>
            match (match u_colId u with
                   | None => Ok (sch1, [])
                   | Some n => if str_eqb n (c_colId r) then Ok (sch1, [])
                               else match apply_s (SRenameColumn tid (c_colId r) n) sch1 with
                                    | Ok s2 => Ok (s2, [SRenameColumn tid (c_colId r) n])
                                    | Err e => Err e
                                    end
                   end) with
            | Err e => Err e
            | Ok (sch2, l2) => upd_loop m all rest sch2 (log ++ l1 ++ l2)
            end
          end
        end
      end
    end
  end.

(* doModifyColumn(col.tableId, col.colId, patch) for a list of columns, the patch computed by f *)
Fixpoint mod_loop (m : meta) (f : cpatch -> option colpatch) (l : list (Z * cpatch)) (sch : schema) (log : list sev)
  : res (schema * list sev) :=
  match l with
  | [] => Ok (sch, log)
  | (k, u) :: rest =>
    match f u with
    | None => mod_loop m f rest sch log
    | Some p =>
      match find_col k (m_cols m) with
      | None => Err E_no_row
      | Some r =>
        match find_table (c_parent r) (m_tables m) with
        | None => Err E_no_table
        | Some t =>
          match do_modify (t_tableId t) (c_colId r) p sch with
          | Err e => Err e
          | Ok (sch1, l1) => mod_loop m f rest sch1 (log ++ l1)
          end
        end
      end
    end
  end.

Definition type_Int : str := [73; 110; 116].

Definition pre_int (u : cpatch) : option colpatch :=
  match u_type u with
  | Some _ => Some {| p_type := Some type_Int; p_isf := None; p_formula := None; p_rev := None |}
  | None => None
  end.
Definition post_patch (u : cpatch) : option colpatch :=
  Some {| p_type := u_type u; p_isf := u_isf u; p_formula := u_formula u; p_rev := None |}.

Fixpoint rename_tables (ts : list trec) (l : list (Z * option str)) (sch : schema) (log : list sev)
  : res (schema * list sev) :=
  match l with
  | [] => Ok (sch, log)
  | (k, None) :: rest => rename_tables ts rest sch log
  | (k, Some n) :: rest =>
    match find_table k ts with
    | None => Err E_no_row
    | Some t => if str_eqb n (t_tableId t) then rename_tables ts rest sch log
                else match apply_s (SRenameTable (t_tableId t) n) sch with
                     | Ok s' => rename_tables ts rest s' (log ++ [SRenameTable (t_tableId t) n])
                     | Err e => Err e
                     end
    end
  end.

Fixpoint run_s (l : list sev) (sch : schema) : res schema :=
  match l with
  | [] => Ok sch
  | e :: t => match apply_s e sch with Ok s' => run_s t s' | Err w => Err w end
  end.

Definition info_of_rec (c : crec) : colinfo :=
  {| ci_type := c_type c; ci_isf := c_isf c; ci_formula := c_formula c; ci_rev := None |}.

Definition table_has_cols (cs : list crec) (t : trec) : bool := existsb (fun c => c_parent c =? t_id t) cs.

(* a coupled step: the new state and the doc actions it applied, in order *)
Definition coupled (op : cop) (s : state) : res (state * list ev) :=
  let sch := st_schema s in
  let m := st_meta s in
  match op with
  | CAddColumn id parent pos colId type isf formula =>
      if negb (0 <? id) then Err E_bad_id else
      match find_table parent (m_tables m) with
      | None => Err E_no_row                       (* get_table_rec *)
      | Some t =>
        let r := {| c_id := id; c_parent := parent; c_pos := pos; c_colId := colId; c_type := type; c_isf := isf;
                    c_formula := formula; c_rev := 0 |} in
        let e1 := SAddColumn (t_tableId t) colId (info_of_rec r) in
        match apply_s e1 sch with
        | Err w => Err w
        | Ok sch' =>
          match apply_m (MAddCols [r]) m with
          | Err w => Err w
          | Ok m' => Ok ({| st_schema := sch'; st_meta := m' |}, [ES e1; EM (MAddCols [r])])
          end
        end
      end
  | CAddTable t cols =>
      if negb (0 <? t_id t) then Err E_bad_id else
      if negb (forallb (fun c => (0 <? c_id c) && (c_parent c =? t_id t) && (c_rev c =? 0)) cols) then Err E_bad_id else
      match cols with
      | [] => Err E_key_error            (* the consistency assertion of the user action: KeyError in build_schema *)
      | _ =>
        let e1 := SAddTable (t_tableId t) (map (fun c => (c_colId c, info_of_rec c)) cols) in
        match apply_s e1 sch with
        | Err w => Err w
        | Ok sch' =>
          match apply_m (MAddTables [t]) m with
          | Err w => Err w
          | Ok m1 =>
            match apply_m (MAddCols cols) m1 with
            | Err w => Err w
            | Ok m2 => Ok ({| st_schema := sch'; st_meta := m2 |}, [ES e1; EM (MAddTables [t]); EM (MAddCols cols)])
            end
          end
        end
      end
  | CRemoveColumns ids =>
      (* removals = [RemoveColumn(c.parentId.tableId, c.colId) for c in all_removals], prepared first *)
      let removals :=
        flat_map (fun k => match find_col k (m_cols m) with
                           | Some r => match find_table (c_parent r) (m_tables m) with
                                       | Some t => [SRemoveColumn (t_tableId t) (c_colId r)]
                                       | None => [SRemoveColumn [] (c_colId r)]
                                       end
                           | None => []
                           end) ids in
      if negb (forallb (fun k => match find_col k (m_cols m) with Some _ => true | None => false end) ids)
      then Err E_no_row else
      match apply_m (MRemoveCols ids) m with
      | Err w => Err w
      | Ok m' =>
        match run_s removals sch with
        | Err w => Err w
        | Ok sch' =>
          if forallb (table_has_cols (m_cols m')) (m_tables m')
          then Ok ({| st_schema := sch'; st_meta := m' |}, EM (MRemoveCols ids) :: map ES removals)
          else Err E_key_error         (* the consistency assertion: KeyError in build_schema *)
        end
      end
  | CRemoveTables ids =>
      if negb (forallb (fun k => match find_table k (m_tables m) with Some _ => true | None => false end) ids)
      then Err E_no_row else
      let tids := flat_map (fun k => match find_table k (m_tables m) with Some t => [t_tableId t] | None => [] end) ids in
      let colids := map c_id (filter (fun c => mem_z (c_parent c) ids) (m_cols m)) in
      match apply_m (MRemoveCols colids) m with
      | Err w => Err w
      | Ok m1 =>
        match apply_m (MRemoveTables ids) m1 with
        | Err w => Err w
        | Ok m2 =>
          match run_s (map SRemoveTable tids) sch with
          | Err w => Err w
          | Ok sch' => Ok ({| st_schema := sch'; st_meta := m2 |},
                           EM (MRemoveCols colids) :: EM (MRemoveTables ids) :: map (fun x => ES (SRemoveTable x)) tids)
          end
        end
      end
  | CUpdateColumns upds =>
      if negb (nodup_keys upds) then Err E_not_a_dict else
      match upd_loop m upds upds sch [] with
      | Err w => Err w
      | Ok (sch', log) =>
        match apply_m (MUpdateCols upds) m with
        | Err w => Err w
        | Ok m' => Ok ({| st_schema := sch'; st_meta := m' |}, map ES log ++ [EM (MUpdateCols upds)])
        end
      end
  | CUpdateTables tupds cupds =>
      if negb (nodup_keys tupds && nodup_keys cupds) then Err E_not_a_dict else
      match mod_loop m pre_int cupds sch [] with
      | Err w => Err w
      | Ok (sch1, l1) =>
        match rename_tables (m_tables m) tupds sch1 [] with
        | Err w => Err w
        | Ok (sch2, l2) =>
          match apply_m (MUpdateTables tupds) m with
          | Err w => Err w
          | Ok m1 =>
            match mod_loop m1 post_patch cupds sch2 [] with
            | Err w => Err w
            | Ok (sch3, l3) =>
              match apply_m (MUpdateCols cupds) m1 with
              | Err w => Err w
              | Ok m2 => Ok ({| st_schema := sch3; st_meta := m2 |},
                             map ES (l1 ++ l2) ++ [EM (MUpdateTables tupds)] ++ map ES l3 ++ [EM (MUpdateCols cupds)])
              end
            end
          end
        end
      end
  | CRaw e => match apply_ev e s with
              | Ok s' => Ok (s', [e])
              | Err w => Err w
              end
  end.

Definition step (op : cop) (s : state) : res state :=
  match coupled op s with
  | Ok (s', _) => Ok s'
  | Err w => Err w
  end.

(* what the code's earlier phases establish before the coupled step is reached (checked on every recorded step):
   - a column update does not move a column to another table, and every column whose reverse column is renamed is
     itself in the update with its reverseCol given (the loop "tag their reverse column as changing");
   - a removed column is no longer the reverse column of a remaining one (cleared through the back-reference
     update of doBulkRemoveRecord / the reverseCol=0 update of _removeTableRecords);
   - the column updates of a table rename touch type, formula and isFormula only;
   - the column ids of a new table are distinct. *)
Fixpoint nodupb {A} (e : A -> A -> bool) (l : list A) : bool :=
  match l with
  | [] => true
  | x :: t => negb (existsb (e x) t) && nodupb e t
  end.

Definition renamed_in (cs : list crec) (upds : list (Z * cpatch)) (x : Z) : bool :=
  match assoc x upds, find_col x cs with
  | Some ux, Some rx => match u_colId ux with Some n => negb (str_eqb n (c_colId rx)) | None => false end
  | _, _ => false
  end.

Definition rev_after (upds : list (Z * cpatch)) (r : crec) : Z :=
  match assoc (c_id r) upds with
  | Some u => match u_rev u with Some x => x | None => c_rev r end
  | None => c_rev r
  end.

Definition cop_pre (op : cop) (s : state) : bool :=
  let cs := m_cols (st_meta s) in
  match op with
  | CUpdateColumns upds =>
      forallb (fun ku => match u_parent (snd ku) with None => true | Some _ => false end) upds &&
      forallb (fun r =>
                 let x := rev_after upds r in
                 (* the reverse pointer resolves after the update *)
                 ((x =? 0) || match find_col x cs with Some _ => true | None => false end) &&
                 (* and if its target is renamed, this column's reverseColId is rewritten *)
                 (negb (renamed_in cs upds x) ||
                  match assoc (c_id r) upds with
                  | Some u => match u_rev u with Some _ => true | None => false end
                  | None => false
                  end)) cs
  | CRemoveColumns ids =>
      forallb (fun r => mem_z (c_id r) ids || negb (mem_z (c_rev r) ids)) cs
  | CRemoveTables ids =>
      let gone := map c_id (filter (fun c => mem_z (c_parent c) ids) cs) in
      forallb (fun r => mem_z (c_id r) gone || negb (mem_z (c_rev r) gone)) cs
  | CUpdateTables tupds cupds =>
      forallb (fun ku => let u := snd ku in
                 match u_parent u, u_colId u, u_rev u with None, None, None => true | _, _, _ => false end) cupds
  | CAddTable t cols => nodupb str_eqb (map c_colId cols)     (* pick_col_ident_list de-duplicates the ids *)
  | CRaw _ => false
  | _ => true
  end.

(* ---------------------------------------------------------------- schema equivalence (as dicts, order ignored) *)
Definition cols_equiv (a b : scols) : Prop := forall c, od_get c a = od_get c b.
Definition schema_equiv (s1 s2 : schema) : Prop :=
  forall t, match od_get t s1, od_get t s2 with
            | Some a, Some b => cols_equiv a b
            | None, None => True
            | _, _ => False
            end.

(* boolean versions for the correspondence cases *)
Definition cols_sub (a b : scols) : bool :=
  forallb (fun kv => match od_get (fst kv) a, od_get (fst kv) b with
                     | Some x, Some y => colinfo_eqb x y
                     | _, _ => false
                     end) a.
Definition cols_equivb (a b : scols) : bool := cols_sub a b && cols_sub b a.
Definition schema_sub (s1 s2 : schema) : bool :=
  forallb (fun kv => match od_get (fst kv) s1, od_get (fst kv) s2 with
                     | Some a, Some b => cols_equivb a b
                     | _, _ => false
                     end) s1.
Definition schema_equivb (s1 s2 : schema) : bool := schema_sub s1 s2 && schema_sub s2 s1.

(* ordered comparison (build_schema's output order is part of the correspondence check) *)
Fixpoint list_eqb {A} (e : A -> A -> bool) (l m : list A) : bool :=
  match l, m with
  | [], [] => true
  | x :: l', y :: m' => e x y && list_eqb e l' m'
  | _, _ => false
  end.
Definition scols_eqb : scols -> scols -> bool :=
  list_eqb (fun a b => str_eqb (fst a) (fst b) && colinfo_eqb (snd a) (snd b)).
Definition schema_eqb : schema -> schema -> bool :=
  list_eqb (fun a b => str_eqb (fst a) (fst b) && scols_eqb (snd a) (snd b)).

Definition trec_eqb (a b : trec) : bool := (t_id a =? t_id b) && str_eqb (t_tableId a) (t_tableId b).
Definition crec_eqb (a b : crec) : bool :=
  (c_id a =? c_id b) && (c_parent a =? c_parent b) && (c_pos a =? c_pos b) && str_eqb (c_colId a) (c_colId b) &&
  str_eqb (c_type a) (c_type b) && Bool.eqb (c_isf a) (c_isf b) && str_eqb (c_formula a) (c_formula b) &&
  (c_rev a =? c_rev b).
Definition meta_eqb (a b : meta) : bool :=
  list_eqb trec_eqb (m_tables a) (m_tables b) && list_eqb crec_eqb (m_cols a) (m_cols b).

(* the stray-column check of assert_schema_consistent *)
Definition no_strayb (m : meta) : bool :=
  forallb (fun c => match find_table (c_parent c) (m_tables m) with Some _ => true | None => false end) (m_cols m).

Definition wfb (m : meta) : bool :=
  nodupb Z.eqb (map t_id (m_tables m)) && nodupb str_eqb (map t_tableId (m_tables m)) &&
  nodupb Z.eqb (map c_id (m_cols m)) &&
  forallb (fun c => 0 <? c_id c) (m_cols m) &&
  nodupb (fun a b => (fst a =? fst b) && str_eqb (snd a) (snd b)) (map (fun c => (c_parent c, c_colId c)) (m_cols m)) &&
  forallb (fun c => (c_rev c =? 0) || match find_col (c_rev c) (m_cols m) with Some _ => true | None => false end)
          (m_cols m).

Definition invb (base : schema) (s : state) : bool :=
  wfb (st_meta s) && no_strayb (st_meta s) &&
  match build_schema base (st_meta s) with
  | Ok sch => schema_equivb (st_schema s) sch
  | Err _ => false
  end.

(* ---------------------------------------------------------------- helpers for the trace tie (harness/props/c08.py) *)
Definition obool_eqb (a b : option bool) : bool :=
  match a, b with Some x, Some y => Bool.eqb x y | None, None => true | _, _ => false end.
Definition oostr_eqb (a b : option (option str)) : bool :=
  match a, b with Some x, Some y => ostr_eqb x y | None, None => true | _, _ => false end.
Definition colpatch_eqb (a b : colpatch) : bool :=
  ostr_eqb (p_type a) (p_type b) && obool_eqb (p_isf a) (p_isf b) && ostr_eqb (p_formula a) (p_formula b) &&
  oostr_eqb (p_rev a) (p_rev b).

Definition sev_eqb (a b : sev) : bool :=
  match a, b with
  | SAddColumn t c i, SAddColumn t' c' i' => str_eqb t t' && str_eqb c c' && colinfo_eqb i i'
  | SRemoveColumn t c, SRemoveColumn t' c' => str_eqb t t' && str_eqb c c'
  | SRenameColumn t c n, SRenameColumn t' c' n' => str_eqb t t' && str_eqb c c' && str_eqb n n'
  | SModifyColumn t c p, SModifyColumn t' c' p' => str_eqb t t' && str_eqb c c' && colpatch_eqb p p'
  | SAddTable t cols, SAddTable t' cols' => str_eqb t t' && scols_eqb cols cols'
  | SRemoveTable t, SRemoveTable t' => str_eqb t t'
  | SRenameTable t n, SRenameTable t' n' => str_eqb t t' && str_eqb n n'
  | _, _ => false
  end.

Definition proj_S (l : list ev) : list sev :=
  flat_map (fun e => match e with ES x => [x] | EM _ => [] end) l.

Definition is_raw (op : cop) : bool := match op with CRaw _ => true | _ => false end.

(* run a list of steps; the boolean tells whether every coupled step met its precondition *)
Fixpoint run_cops (ops : list cop) (s : state) (log : list ev) (pre : bool) : res (state * list ev * bool) :=
  match ops with
  | [] => Ok (s, log, pre)
  | op :: rest =>
    match coupled op s with
    | Err w => Err w
    | Ok (s', l) => run_cops rest s' (log ++ l) (pre && (is_raw op || cop_pre op s))
    end
  end.

(* one recorded user action: state before, parsed steps, recorded schema doc actions, state after *)
Definition tie_check (c : state * list cop * list sev * state) : bool :=
  match c with
  | (pre, ops, recS, post) =>
    match run_cops ops pre [] true with
    | Err _ => false
    | Ok (s', log, ok) =>
      ok && list_eqb sev_eqb (proj_S log) recS &&
      schema_eqb (st_schema s') (st_schema post) && meta_eqb (st_meta s') (st_meta post)
    end
  end.

(* build_schema against schema.build_schema: Some ordered schema, or None when the code raises KeyError *)
Definition build_check (c : meta * option schema) : bool :=
  match build_schema [] (fst c), snd c with
  | Ok s, Some s' => schema_eqb s s'
  | Err _, None => true
  | _, _ => false
  end.
