(* C20 -- executable model of /repo/sandbox/grist/relabeling.py (prepare_inserts and everything it calls)
   and the property's postcondition [Spec] with its boolean decision procedure [check].
   Hand-written; compared bit for bit with relabeling.prepare_inserts on every run (harness/props/c20.py).

   Floats are Lib/Fl64.fl (exact integer model of binary64).  sortedcontainers' SortedList /
   SortedListWithKey are plain lists kept sorted by key: add = insert after the elements with key <= the new
   key (bisect_right), bisect_key_left = number of leading elements with a smaller key, remove/discard =
   delete the first equal element, irange(a, b) = the elements x with a <= x <= b.
   Exceptions of the implementation are [Err code]:
     1 assert count_range(begin, end) > 0              (prep_inserts_at_index)
     2 assert is_valid_range(...) after the adjustment (prep_inserts_at_index)
     3 assert count_range(rbegin, rend) > 0            (_find_sparse_enough_range)
     4 ValueError("This isn't expected")               (_find_sparse_enough_range)
     5 OverflowError from math.ldexp                   (range_around_float)
     6 ValueError from SortedList.remove               (_do_adjust_range)
     7 assert count > 0                                (prep_inserts_at_index) *)
From Coq Require Import ZArith List Bool Sorted.
Import ListNotations.
Require Import Grist.Lib.Fl64.
Open Scope Z_scope.

Inductive res (A : Type) : Type := Ok (a : A) | Err (code : Z).
Arguments Ok {A} a.
Arguments Err {A} code.
Definition bind {A B} (r : res A) (f : A -> res B) : res B :=
  match r with Ok a => f a | Err c => Err c end.
Notation "x <- r ;; k" := (bind r (fun x => k)) (at level 61, r at next level, right associativity).

(* ---------------------------------------------------------------------------------------------- *)
(* generic list helpers *)

Definition nthZ {A} (l : list A) (i : Z) (d : A) : A := nth (Z.to_nat i) l d.
Definition lenZ {A} (l : list A) : Z := Z.of_nat (length l).
(* range(a, b) *)
Definition zrange (a b : Z) : list Z := map (fun k => a + Z.of_nat k) (seq 0 (Z.to_nat (b - a))).

(* list.sort / sorted(): stable, uses only "<" *)
Fixpoint insert_by {A} (lt : A -> A -> bool) (x : A) (l : list A) : list A :=
  match l with
  | [] => [x]
  | y :: t => if lt x y then x :: y :: t else y :: insert_by lt x t
  end.
Definition sort_by {A} (lt : A -> A -> bool) (l : list A) : list A :=
  fold_left (fun acc x => insert_by lt x acc) l [].

(* tuple comparison: first component that is not == decides *)
Definition pair_lt (p q : fl * Z) : bool :=
  flt (fst p) (fst q) || (feq (fst p) (fst q) && (snd p <? snd q)).
Definition bool_lt (a b : bool) : bool := negb a && b.
Definition triple_lt (p q : fl * bool * Z) : bool :=
  let '(k1, b1, i1) := p in
  let '(k2, b2, i2) := q in
  flt k1 k2 || (feq k1 k2 && (bool_lt b1 b2 || (Bool.eqb b1 b2 && (i1 <? i2)))).

(* ---------------------------------------------------------------------------------------------- *)
(* sorted containers *)

(* SortedList.bisect_left / SortedListWithKey.bisect_key_left on a list sorted by key *)
Fixpoint bkl (l : list fl) (key : fl) : Z :=
  match l with
  | [] => 0
  | x :: t => if flt x key then 1 + bkl t key else 0
  end.
(* SortedList.add *)
Fixpoint sl_add (v : fl) (l : list fl) : list fl :=
  match l with
  | [] => [v]
  | y :: t => if fle y v then y :: sl_add v t else v :: y :: t
  end.
(* SortedList.update(values) *)
Definition sl_update (l : list fl) (vs : list fl) : list fl := fold_left (fun acc v => sl_add v acc) vs l.
(* SortedList.remove(v): ValueError when absent *)
Fixpoint sl_remove (v : fl) (l : list fl) : option (list fl) :=
  match l with
  | [] => None
  | y :: t => if feq y v then Some t else option_map (cons y) (sl_remove v t)
  end.
(* SortedList.irange(a, b) *)
Definition sl_irange (l : list fl) (a b : fl) : list fl := filter (fun x => fle a x && fle x b) l.
(* SortedListWithKey(key = pair[1]).add / .discard for the (index, new_key) pairs *)
Fixpoint al_add (p : Z * fl) (l : list (Z * fl)) : list (Z * fl) :=
  match l with
  | [] => [p]
  | q :: t => if fle (snd q) (snd p) then q :: al_add p t else p :: q :: t
  end.
Fixpoint al_discard (p : Z * fl) (l : list (Z * fl)) : list (Z * fl) :=
  match l with
  | [] => []
  | q :: t => if (fst q =? fst p) && feq (snd q) (snd p) then t else q :: al_discard p t
  end.

(* bisect.bisect_left(a, x) where "a[mid] < x" is [p mid]: the loop of the C implementation *)
Fixpoint bsearch (fuel : nat) (p : Z -> bool) (lo hi : Z) : Z :=
  match fuel with
  | O => lo
  | S f => if lo <? hi
           then let mid := (lo + hi) / 2 in
                if p mid then bsearch f p (mid + 1) hi else bsearch f p lo mid
           else lo
  end.

(* ---------------------------------------------------------------------------------------------- *)
(* relabeling.py, module-level functions *)

Fixpoint all_distinct (l : list fl) : bool :=
  match l with
  | x :: ((y :: _) as t) => negb (feq x y) && all_distinct t
  | _ => true
  end.
Definition is_valid_range (b : fl) (l : list fl) (e : fl) : bool := all_distinct (b :: l ++ [e]).

Definition get_range (s e : fl) (count : Z) : list fl :=
  let step := fdiv (fsub e s) (of_Z (count + 1)) in
  let limit := prevfloat e in
  map (fun k => fmin (fadd s (fmul step (of_Z k))) limit) (zrange 1 (count + 1)).

(* range_around_float(x, i) for the only argument it is called with: begin, finite and >= 0 *)
Definition range_around_float (x : fl) (i : Z) : res (fl * fl) :=
  match x with
  | FFin _ u => match range_around u i with Some r => Ok r | None => Err 5 end
  | _ => Err 5
  end.

Definition f114 : fl := decode 4607812922747849277.     (* 1.14 = 0x3FF23D70A3D70A3D *)
Definition f130 : fl := decode 4608533498688228557.     (* 1.3  = 0x3FF4CCCCCCCCCCCD *)

(* ---------------------------------------------------------------------------------------------- *)
(* class ListWithAdjustments: [orig] are the keys of the underlying sorted list (never changed),
   [adjs] the SortedListWithKey of (index, new_key), [inss] the SortedList of new keys *)

Record wl : Type := mkwl { adjs : list (Z * fl); inss : list fl }.

Section WithOrig.
Variable orig : list fl.

Definition adj_bisect_key_left (w : wl) (key : fl) : Z :=
  let adj_index := bkl (map snd (adjs w)) key in
  let adj_next := if adj_index <? lenZ (adjs w) then fst (nthZ (adjs w) adj_index (0, FNaN)) else lenZ orig in
  let adj_prev := if 0 <? adj_index then fst (nthZ (adjs w) (adj_index - 1) (0, FNaN)) else -1 in
  let orig_index := bkl orig key in
  if (adj_prev <? orig_index) && (orig_index <? adj_next) then orig_index else adj_next.

Definition adj_get_key (w : wl) (index : Z) : fl :=
  let a := adjs w in
  let i := bsearch (S (length a)) (fun mid => fst (nthZ a mid (0, FNaN)) <? index) 0 (lenZ a) in
  if (i <? lenZ a) && (fst (nthZ a i (0, FNaN)) =? index) then snd (nthZ a i (0, FNaN))
  else nthZ orig index FNaN.

Definition count_range (w : wl) (b e : fl) : Z :=
  (adj_bisect_key_left w e - adj_bisect_key_left w b) + (bkl (inss w) e - bkl (inss w) b).

Definition adjust_step (r : res wl) (it : (fl * bool * Z) * fl) : res wl :=
  w <- r ;;
  let '((old_key, is_insert, i), new_key) := it in
  if is_insert then
    match sl_remove old_key (inss w) with
    | Some l => Ok (mkwl (adjs w) (sl_add new_key l))
    | None => Err 6
    end
  else Ok (mkwl (al_add (i, new_key) (al_discard (i, old_key) (adjs w))) (inss w)).

Definition do_adjust_range (w : wl) (adj_begin adj_end ins_begin ins_end : Z) (nb ne : fl) : res wl :=
  let count := (adj_end - adj_begin) + (ins_end - ins_begin) in
  let prev_keys :=
    map (fun i => (adj_get_key w i, false, i)) (zrange adj_begin adj_end) ++
    map (fun i => (nthZ (inss w) i FNaN, true, i)) (zrange ins_begin ins_end) in
  let new_keys := get_range nb ne count in
  fold_left adjust_step (combine (sort_by triple_lt prev_keys) new_keys) (Ok w).

Definition adjust_range (w : wl) (b e : fl) : res wl :=
  do_adjust_range w (adj_bisect_key_left w b) (adj_bisect_key_left w e)
                    (bkl (inss w) b) (bkl (inss w) e) b e.

Definition adjust_all (w : wl) : res wl :=
  let n := lenZ orig in
  let m := lenZ (inss w) in
  do_adjust_range w 0 n 0 m fzero (fadd (of_Z (n + m)) (of_Z 1)).

(* one pass of "for i in range(64)" for one frac; None = fall through to the next frac *)
Fixpoint sparse_loop (w : wl) (b e : fl) (frac thresh : fl) (is : list Z) : res (option (fl * fl)) :=
  match is with
  | [] => Ok None
  | i :: rest =>
      r <- range_around_float b i ;;
      let c := count_range w (fst r) (snd r) in
      if c <=? 0 then Err 3
      else if fle e (snd r) && flt (of_Z c) thresh then Ok (Some r)
      else sparse_loop w b e frac (fmul thresh frac) rest
  end.

Definition find_sparse_enough_range (w : wl) (b e : fl) : res (fl * fl) :=
  r1 <- sparse_loop w b e f114 (of_Z 1) (zrange 0 64) ;;
  match r1 with
  | Some r => Ok r
  | None =>
      r2 <- sparse_loop w b e f130 (of_Z 1) (zrange 0 64) ;;
      match r2 with Some r => Ok r | None => Err 4 end
  end.

Definition prep_inserts_at_index (w : wl) (index count : Z) : res wl :=
  if count <=? 0 then Err 7 else
  let b := if 0 <? index then adj_get_key w (index - 1) else fzero in
  let e := if index <? lenZ orig then adj_get_key w index else fadd (fadd b (of_Z count)) (of_Z 1) in
  if flt b fzero || fle e fzero || is_inf (fmax b e) then
    let v := if 0 <? index then b else fneginf in
    adjust_all (mkwl (adjs w) (sl_update (inss w) (repeat v (Z.to_nat count))))
  else
    let w1 := mkwl (adjs w) (sl_update (inss w) (get_range b e count)) in
    if is_valid_range b (sl_irange (inss w1) b e) e then Ok w1
    else
      if count_range w1 b e <=? 0 then Err 1 else
      r <- find_sparse_enough_range w1 b e ;;
      w2 <- adjust_range w1 (fst r) (snd r) ;;
      (* the neighbours may have been adjusted too: compare with their current keys *)
      let b2 := if 0 <? index then adj_get_key w2 (index - 1) else b in
      let e2 := if index <? lenZ orig then adj_get_key w2 index else e in
      if is_valid_range b2 (sl_irange (inss w2) b2 e2) e2 then Ok w2 else Err 2.

End WithOrig.

(* ---------------------------------------------------------------------------------------------- *)
(* _group_insertions / ungroup / prepare_inserts *)

(* itertools.groupby on the insertion index, with the group sizes *)
Fixpoint group_counts (l : list Z) : list (Z * Z) :=
  match l with
  | [] => []
  | x :: t =>
      match group_counts t with
      | (y, c) :: r => if x =? y then (y, c + 1) :: r else (x, 1) :: (y, c) :: r
      | [] => [(x, 1)]
      end
  end.

(* sorted((key, i) for i, key in enumerate(keys)) *)
Definition sorted_requests (keys : list fl) : list (fl * Z) :=
  sort_by pair_lt (combine keys (zrange 0 (lenZ keys))).
Definition ins_groups (orig keys : list fl) : list (Z * Z) :=
  group_counts (map (fun p => bkl orig (fst p)) (sorted_requests keys)).
(* ungroup(new_keys) = [key for _, key in sorted(zip(indices, new_keys))] *)
Definition idx_lt (p q : Z * fl) : bool :=
  (fst p <? fst q) || ((fst p =? fst q) && flt (snd p) (snd q)).
Definition ungroup (keys : list fl) (new_keys : list fl) : list fl :=
  map snd (sort_by idx_lt (combine (map snd (sorted_requests keys)) new_keys)).

Definition prepare_inserts_model (orig keys : list fl) : res (list (Z * fl) * list fl) :=
  w <- fold_left (fun r g => w <- r ;; prep_inserts_at_index orig w (fst g) (snd g))
                 (ins_groups orig keys) (Ok (mkwl [] [])) ;;
  Ok (adjs w, ungroup keys (inss w)).

(* ---------------------------------------------------------------------------------------------- *)
(* The path without renumbering, described without the work list: every group's new keys are get_range
   between its neighbours and pass the implementation's own validity test. *)
Definition group_begin (orig : list fl) (index : Z) : fl :=
  if 0 <? index then nthZ orig (index - 1) FNaN else fzero.
Definition group_end (orig : list fl) (index count : Z) : fl :=
  if index <? lenZ orig then nthZ orig index FNaN
  else fadd (fadd (group_begin orig index) (of_Z count)) (of_Z 1).
Definition group_range (orig : list fl) (g : Z * Z) : list fl :=
  get_range (group_begin orig (fst g)) (group_end orig (fst g) (snd g)) (snd g).
Definition plain_group (orig : list fl) (g : Z * Z) : bool :=
  let b := group_begin orig (fst g) in
  let e := group_end orig (fst g) (snd g) in
  negb (flt b fzero || fle e fzero || is_inf (fmax b e)) && flt b e &&
  is_valid_range b (group_range orig g) e.
Definition plain_path (orig keys : list fl) : bool := forallb (plain_group orig) (ins_groups orig keys).
Definition plain_result (orig keys : list fl) : list fl :=
  concat (map (group_range orig) (ins_groups orig keys)).

(* ---------------------------------------------------------------------------------------------- *)
(* The property.  [orig]: existing positions in row order (sorted); [keys]: requested positions;
   [adj]: (index into orig, new position) pairs; [ins]: the positions given to the new rows. *)

Definition Flt (a b : fl) : Prop := flt a b = true.
Definition Fle (a b : fl) : Prop := fle a b = true.

(* what the caller does with the adjustments (column.py / the test's ItemList.insert_items) *)
Fixpoint set_nth (i : nat) (v : fl) (l : list fl) : list fl :=
  match l, i with
  | [], _ => []
  | _ :: t, O => v :: t
  | x :: t, S j => x :: set_nth j v t
  end.
Definition apply_adj (orig : list fl) (adj : list (Z * fl)) : list fl :=
  fold_left (fun l p => set_nth (Z.to_nat (fst p)) (snd p) l) adj orig.

(* in-domain inputs: existing positions sorted (weakly: legacy duplicates are tolerated), no NaN anywhere *)
Definition Pre (orig keys : list fl) : Prop :=
  (forall i j, (i < j < length orig)%nat -> Fle (nth i orig FNaN) (nth j orig FNaN)) /\
  Forall (fun x => is_nan x = false) orig /\ Forall (fun x => is_nan x = false) keys.

Definition req_before (keys : list fl) (k1 k2 : nat) : Prop :=
  Flt (nth k1 keys FNaN) (nth k2 keys FNaN) \/
  (feq (nth k1 keys FNaN) (nth k2 keys FNaN) = true /\ (k1 < k2)%nat).

Record Spec (orig keys : list fl) (adj : list (Z * fl)) (ins : list fl) : Prop := {
  (* each adjustment names an existing row, no row twice (indexes strictly increasing), finite value *)
  sp_adj_wf : forall a, (a < length adj)%nat ->
      0 <= fst (nth a adj (0, FNaN)) < lenZ orig /\ is_finite (snd (nth a adj (0, FNaN))) = true /\
      forall b, (a < b < length adj)%nat -> fst (nth a adj (0, FNaN)) < fst (nth b adj (0, FNaN));
  (* existing rows keep their order: still sorted, and rows that were strictly apart stay strictly apart *)
  sp_order : forall i j, (i < j < length orig)%nat ->
      Fle (nth i (apply_adj orig adj) FNaN) (nth j (apply_adj orig adj) FNaN) /\
      (Flt (nth i orig FNaN) (nth j orig FNaN) ->
       Flt (nth i (apply_adj orig adj) FNaN) (nth j (apply_adj orig adj) FNaN));
  (* one finite position per request *)
  sp_len : length ins = length keys;
  sp_finite : Forall (fun x => is_finite x = true) ins;
  (* a new row lands where its requested position falls: after every existing row whose position was
     smaller than the request, before every other one (so before rows with an equal position) *)
  sp_place : forall k i, (k < length keys)%nat -> (i < length orig)%nat ->
      if flt (nth i orig FNaN) (nth k keys FNaN)
      then Flt (nth i (apply_adj orig adj) FNaN) (nth k ins FNaN)
      else Flt (nth k ins FNaN) (nth i (apply_adj orig adj) FNaN);
  (* new rows keep the order of their requested positions (equal requests: the order of the batch) *)
  sp_req_order : forall k1 k2, (k1 < length keys)%nat -> (k2 < length keys)%nat ->
      req_before keys k1 k2 -> Flt (nth k1 ins FNaN) (nth k2 ins FNaN)
}.

(* ---- the decision procedure *)

Fixpoint sortedb (le : fl -> fl -> bool) (l : list fl) : bool :=
  match l with
  | x :: ((y :: _) as t) => le x y && sortedb le t
  | _ => true
  end.
Definition no_nanb (l : list fl) : bool := forallb (fun x => negb (is_nan x)) l.
Definition check_pre (orig keys : list fl) : bool := sortedb fle orig && no_nanb orig && no_nanb keys.

Fixpoint adj_wfb (n : Z) (prev : Z) (adj : list (Z * fl)) : bool :=
  match adj with
  | [] => true
  | (i, v) :: t => (prev <? i) && (i <? n) && is_finite v && adj_wfb n i t
  end.
(* adjacent existing rows: still ordered, strictly if they were strictly apart *)
Fixpoint order_keptb (orig new : list fl) : bool :=
  match orig, new with
  | o1 :: ((o2 :: _) as ot), n1 :: ((n2 :: _) as nt) =>
      fle n1 n2 && (if flt o1 o2 then flt n1 n2 else true) && order_keptb ot nt
  | _, _ => true
  end.
Fixpoint place_oneb (orig new : list fl) (key v : fl) : bool :=
  match orig, new with
  | o :: ot, n :: nt => (if flt o key then flt n v else flt v n) && place_oneb ot nt key v
  | [], [] => true
  | _, _ => false
  end.
Fixpoint placeb (orig new keys ins : list fl) : bool :=
  match keys, ins with
  | k :: kt, v :: vt => place_oneb orig new k v && placeb orig new kt vt
  | [], [] => true
  | _, _ => false
  end.
(* request order: every earlier-listed pair (k1 < k2 in the batch) *)
Fixpoint req_one (k1 v1 : fl) (keys ins : list fl) : bool :=
  match keys, ins with
  | k2 :: kt, v2 :: vt =>
      (if flt k1 k2 || feq k1 k2 then flt v1 v2 else true) &&
      (if flt k2 k1 then flt v2 v1 else true) && req_one k1 v1 kt vt
  | _, _ => true
  end.
Fixpoint req_orderb (keys ins : list fl) : bool :=
  match keys, ins with
  | k :: kt, v :: vt => req_one k v kt vt && req_orderb kt vt
  | _, _ => true
  end.

Definition check (orig keys : list fl) (adj : list (Z * fl)) (ins : list fl) : bool :=
  let new := apply_adj orig adj in
  check_pre orig keys &&
  adj_wfb (lenZ orig) (-1) adj &&
  order_keptb orig new &&
  (length ins =? length keys)%nat &&
  forallb is_finite ins &&
  placeb orig new keys ins &&
  req_orderb keys ins.

(* ---- what the table holds afterwards, and histories *)

Definition positions_after (orig : list fl) (adj : list (Z * fl)) (ins : list fl) : list fl :=
  sort_by flt (apply_adj orig adj ++ ins).
Definition strictly_sorted (l : list fl) : Prop := StronglySorted Flt l.
Definition all_finite (l : list fl) : Prop := Forall (fun x => is_finite x = true) l.
Fixpoint remove_nth (i : nat) (l : list fl) : list fl :=
  match l, i with
  | [], _ => []
  | _ :: t, O => t
  | x :: t, S j => x :: remove_nth j t
  end.

(* One step of a table's history as the engine drives it.  Adding rows uses whatever prepare_inserts
   returned, here any result satisfying Spec; removing rows just drops positions.  Moving rows (an update of
   the position of existing rows) is an addition followed by a removal: column.py prepares the new positions
   against the current list, which still contains the moved rows, the adjustments are applied, and then the
   moved rows' old (possibly adjusted) positions disappear when their new positions are set. *)
Inductive step : list fl -> list fl -> Prop :=
| step_add : forall s keys adj ins, Forall (fun x => is_nan x = false) keys -> Spec s keys adj ins ->
    step s (positions_after s adj ins)
| step_remove : forall s i, step s (remove_nth i s).
Inductive reachable : list fl -> Prop :=
| reach_empty : reachable []
| reach_step : forall s s', reachable s -> step s s' -> reachable s'.

(* The same with the model in the loop: a step fails (None) unless the model returns a result that the
   certified checker accepts. *)
Definition model_add (s : list fl) (keys : list fl) : option (list fl) :=
  match prepare_inserts_model s keys with
  | Ok (adj, ins) => if check s keys adj ins then Some (positions_after s adj ins) else None
  | Err _ => None
  end.

Fixpoint model_run (s : list fl) (batches : list (list fl)) : option (list fl) :=
  match batches with
  | [] => Some s
  | keys :: rest => match model_add s keys with Some s' => model_run s' rest | None => None end
  end.

(* ---------------------------------------------------------------------------------------------- *)
(* Interface for the generated correspondence cases: floats travel as 64-bit patterns. *)

Fixpoint list_eqb {A} (eqb : A -> A -> bool) (l m : list A) : bool :=
  match l, m with
  | [], [] => true
  | x :: l', y :: m' => eqb x y && list_eqb eqb l' m'
  | _, _ => false
  end.
Definition zpair_eqb (p q : Z * Z) : bool := (fst p =? fst q) && (snd p =? snd q).

(* (error code or 0, adjustments, new positions) *)
Definition outcome : Type := (Z * list (Z * Z) * list Z)%type.
Definition outcome_eqb (a b : outcome) : bool :=
  let '(c1, a1, i1) := a in
  let '(c2, a2, i2) := b in
  (c1 =? c2) && list_eqb zpair_eqb a1 a2 && list_eqb Z.eqb i1 i2.
Definition run_bits (orig keys : list Z) : outcome :=
  match prepare_inserts_model (map decode orig) (map decode keys) with
  | Ok (a, i) => (0, map (fun p => (fst p, encode (snd p))) a, map encode i)
  | Err c => (c, [], [])
  end.
(* a case: existing positions, requested positions, what relabeling.prepare_inserts did *)
Definition agree_bits (c : list Z * list Z * outcome) : bool :=
  let '(o, k, e) := c in outcome_eqb (run_bits o k) e.
(* the certified checker on the implementation's result *)
Definition check_bits (c : list Z * list Z * outcome) : bool :=
  let '(o, k, (code, a, i)) := c in
  (code =? 0) &&
  check (map decode o) (map decode k) (map (fun p => (fst p, decode (snd p))) a) (map decode i).

(* primitive operations: (opcode, a, b, n, expected patterns) *)
Definition op_bits (c : Z * Z * Z * Z * list Z) : bool :=
  let '(op, a, b, n, e) := c in
  let x := decode a in
  let y := decode b in
  let out :=
    match op with
    | 0 => [encode (fadd x y)]
    | 1 => [encode (fsub x y)]
    | 2 => [encode (fmul x y)]
    | 3 => [encode (fdiv x y)]
    | 4 => [encode (of_Z n)]
    | 5 => [encode (prevfloat x)]
    | 6 => [encode (nextfloat x)]
    | 7 => [if flt x y then 1 else 0; if fle x y then 1 else 0; if feq x y then 1 else 0]
    | 8 => map encode (get_range x y n)
    | 9 => match range_around_float x n with Ok r => [encode (fst r); encode (snd r)] | Err _ => [] end
    | 10 => [encode (fadd x (of_Z n)); encode (fmul x (of_Z n)); encode (fdiv x (of_Z n))]
    | 11 => [encode (decode a)]
    | _ => []
    end in
  list_eqb Z.eqb out e.
