(* C41 -- the typed primitives that harness/imp2v.py maps the library calls of Engine.fetch_table to.  The
   function itself is translated from /repo/sandbox/grist/engine.py on every run into GristGen.FetchQuery_gen;
   Proofs/FetchQuery_bridge.v proves it equal to the hand model Model/FetchQuery.v. *)
From Coq Require Import ZArith List Bool.
Import ListNotations.
Require Import Grist.Lib.PyVal Grist.Lib.PyImp Grist.Model.FetchQuery.
Open Scope Z_scope.

Definition str := list Z.

(* table.get_column(col_id): all_columns[col_id], KeyError when absent *)
Definition py_get_column (t : table) (cid : str) : exc column :=
  match get_column t cid with Some c => Val c | None => Exn (KeyError cid) end.

(* set(values): TypeError at the first unhashable element *)
Definition py_set_of (v : qvalues) : exc qvalues :=
  match v with
  | QList l => if forallb hashable l then Val (QSet (py_set l)) else Exn TypeError
  | QSet s => Val (QSet s)
  end.

(* x in values: hashing an unhashable x for a set lookup raises TypeError *)
Definition py_in_qvalues (x : val) (v : qvalues) : exc bool :=
  match cell_in x v with Some b => Val b | None => Exn TypeError end.

(* iteration over requested values.  The order in which a Python set yields its elements is unspecified; insertion
   order is used here only so that code iterating a set has SOME translation (nothing provable depends on it). *)
Definition py_iter_qvalues (v : qvalues) : list val := match v with QSet s => s | QList l => l end.

(* [r for r in l if isinstance(r, int)]  (bool is a subclass of int) *)
Definition py_ints (l : list val) : list Z :=
  flat_map (fun v => match v with VInt z => [z] | VBool b => [if b then 1 else 0] | _ => [] end) l.

(* the query as fetch_table receives it: every requested-values entry is still a plain list *)
Definition query_in (q : query) : list (str * qvalues) := map (fun cv => (fst cv, QList (snd cv))) q.
