(* Support for the code GENERATED from predicate_formula.py / acl.py / dropdown_condition.py /
   trigger_expression.py by harness/pf2v.py (C40, C17): the monad of a visitor method (the collector's
   `self.entities` as state, SyntaxError and internal errors as failure) and the Python operations the translated
   methods use, on the model AST of Model/Predicate.v.  Definitions only. *)
From Coq Require Import ZArith List Bool String.
Import ListNotations.
Require Import Grist.Model.Predicate.
Open Scope Z_scope.

(* SyntaxError (what the property speaks about) vs any other exception (IndexError, KeyError, TypeError ...):
   the bridging lemmas show the latter never happens *)
Inductive gerr := GErr (e : cerr) | GInternal (what : string).

(* NamedEntity(type, start_pos, name, extra) as the code builds it *)
Definition gent := (str * Z * str * option pyval)%type.

Definition g_type (e : gent) : str := fst (fst (fst e)).
Definition g_pos (e : gent) : Z := snd (fst (fst e)).
Definition g_name (e : gent) : str := snd (fst e).
Definition g_extra (e : gent) : option pyval := snd e.

Inductive gres (A : Type) := GOk (a : A) | GFail (e : gerr).
Arguments GOk {A} a.
Arguments GFail {A} e.

Definition M (A : Type) := list gent -> gres (A * list gent).

Definition retM {A} (a : A) : M A := fun st => GOk (a, st).
Definition failM {A} (e : gerr) : M A := fun _ => GFail e.
Definition bindM {A B} (x : M A) (f : A -> M B) : M B :=
  fun st => match x st with GOk (a, st') => f a st' | GFail e => GFail e end.
Definition appendEntM (e : gent) : M unit := fun st => GOk (tt, st ++ [e]).

Definition mapMM {A B} (f : A -> M B) : list A -> M (list B) :=
  fix go (l : list A) : M (list B) :=
    match l with
    | [] => retM []
    | x :: t => bindM (f x) (fun y => bindM (go t) (fun ys => retM (y :: ys)))
    end.

(* x[i] on a Python list, i a non-negative literal *)
Definition idxM {A} (l : list A) (i : nat) : M A :=
  match nth_error l i with
  | Some x => retM x
  | None => failM (GInternal "IndexError")
  end.
Definition pv_idxM (v : pyval) (i : nat) : M pyval :=
  match v with
  | PList l => idxM l i
  | PLeaf _ => failM (GInternal "TypeError: not subscriptable")
  end.

(* d[k] / k in d for a module-level dict with string keys *)
Definition dict_mem {A} (k : str) (d : list (str * A)) : bool :=
  match assoc_str k d with Some _ => true | None => false end.
Definition dict_getM {A} (d : list (str * A)) (k : str) : M A :=
  match assoc_str k d with Some v => retM v | None => failM (GInternal "KeyError") end.

(* obj.__class__.__name__ of the operator objects and of nodes: the inverse of the harness's map from ast
   classes to constructors *)
Definition boolop_cls (op : boolop) : str := lit (boolop_name op).
Definition binop_cls (op : binop) : str := match op with BArith a => lit (arith_name a) | BOther c => c end.
Definition unop_cls (op : unop) : str := match op with UNot => lit "Not" | UOther c => c end.
Definition cmpop_cls (op : cmpop) : str := lit (cmpop_name op).
Definition node_cls (e : expr) : str :=
  match e with
  | EBoolOp _ _ _ => lit "BoolOp" | EBinOp _ _ _ _ => lit "BinOp" | EUnaryOp _ _ _ => lit "UnaryOp"
  | ECompare _ _ _ _ => lit "Compare" | EName _ _ => lit "Name" | EConstant _ _ => lit "Constant"
  | EAttribute _ _ _ _ => lit "Attribute" | EList _ _ => lit "List" | ETuple _ _ => lit "Tuple"
  | ECall _ _ _ _ => lit "Call" | EUnsupported _ c => c
  end.

(* isinstance(value, (bool, int, float, str ...)) for a constant; bool is a subclass of int *)
Definition const_isinstance1 (c : const) (ty : str) : bool :=
  match c with
  | CNone => str_eqb ty (lit "NoneType")
  | CBool _ => str_eqb ty (lit "bool") || str_eqb ty (lit "int")
  | CInt _ => str_eqb ty (lit "int")
  | CFloat _ => str_eqb ty (lit "float")
  | CStr _ => str_eqb ty (lit "str")
  | CBytes _ => str_eqb ty (lit "bytes")
  | CComplex _ => str_eqb ty (lit "complex")
  | CEllipsis => str_eqb ty (lit "ellipsis")
  end.
Definition const_isinstance (c : const) (tys : list str) : bool := existsb (const_isinstance1 c) tys.
Definition const_is_none (c : const) : bool := match c with CNone => true | _ => false end.

(* math.isfinite(x): TypeError for a non-number *)
Definition isfiniteM (c : const) : M bool :=
  match c with
  | CFloat b => retM (float_finite b)
  | CInt _ | CBool _ => retM true
  | _ => failM (GInternal "TypeError: must be real number")
  end.

(* e.value of an arbitrary node: a constant (Constant) or a node (Attribute ...) or AttributeError *)
Inductive fieldval := FConst (c : const) | FNode (e : expr).
Definition node_valueM (e : expr) : M fieldval :=
  match e with
  | EConstant _ c => retM (FConst c)
  | EAttribute _ v _ _ => retM (FNode v)
  | _ => failM (GInternal "AttributeError: value")
  end.
(* placing such a value into the result list: a node object is not a tree *)
Definition inj_fvM (v : fieldval) : M pyval :=
  match v with
  | FConst c => retM (PLeaf c)
  | FNode _ => failM (GInternal "node object in the tree")
  end.

Definition inj_ostr (o : option str) : pyval := match o with Some s => PLeaf (CStr s) | None => PLeaf CNone end.
Definition ostr_is_none (o : option str) : bool := match o with None => true | Some _ => false end.
Definition nonempty {A} (l : list A) : bool := match l with [] => false | _ => true end.

(* raise SyntaxError(fmt % args): the two messages the harness decodes (harness/predgen.py classify_syntax_error) *)
Definition syntax_errorM {A} (fmt : string) (args : list Z) : M A :=
  if String.eqb fmt "Unsupported syntax at %s:%s" then
    match args with
    | [l; c] => failM (GErr (ErrUnsupported (l, c - 1)))
    | _ => failM (GInternal "TypeError: format arguments")
    end
  else if String.eqb fmt "Can't use chained comparisons" then
    match args with [] => failM (GErr ErrChained) | _ => failM (GInternal "TypeError: format arguments") end
  else failM (GInternal "unknown SyntaxError message").

(* well-formedness of what the harness maps: an operator kept by class name is not one of the handled ones *)
Definition handled_arith (c : str) : bool :=
  existsb (str_eqb c) [lit "Add"; lit "Sub"; lit "Mult"; lit "Div"; lit "Mod"].
Fixpoint wf_expr (e : expr) : bool :=
  match e with
  | EBoolOp _ _ vs => forallb wf_expr vs
  | EBinOp _ op l r =>
      match op with BOther c => negb (handled_arith c) | BArith _ => true end && wf_expr l && wf_expr r
  | EUnaryOp _ op x => match op with UOther c => negb (str_eqb c (lit "Not")) | UNot => true end && wf_expr x
  | ECompare _ l _ cs => wf_expr l && forallb wf_expr cs
  | EName _ _ | EConstant _ _ | EUnsupported _ _ => true
  | EAttribute _ v _ _ => wf_expr v
  | EList _ es | ETuple _ es => forallb wf_expr es
  | ECall _ f args kws => wf_expr f && forallb wf_expr args && forallb (fun kw => wf_expr (snd kw)) kws
  end.

(* what the bridging lemmas compare the generated code with *)
Definition lift_tree (st : list gent) (r : cres tree) : gres (pyval * list gent) :=
  match r with Ok t => GOk (to_py t, st) | Err e => GFail (GErr e) end.
