(* The statement plans of the removal cascades and raw-section guards the model (Model/MetaCascade.v) was written
   against: per statement the calls made (self.doBulkRemoveRecord = removal WITH back-reference clearing;
   self._do_doc_action actions.X = plain doc action; self._docmodel.remove/update = through the user-level
   overrides), the metadata tables named, the record attributes read, nesting, raise/continue.  They correspond to
   remove_tables, remove_columns_core/remove_columns(_regroup), remove_views, remove_sections(_raw), remove_fields,
   rm_* (clr/clrl), apply_regroup, detach and auto_round of the model.  harness/mc2v_gen.py extracts the same plans
   from the current source on every run; Proofs/MetaCascade_bridge.v proves them equal. *)
From Coq Require Import List String.
Import ListNotations.


Definition plan_removeTableRecords : list string := [
  "let [_bulk_action_iter]";
  "let [columns,reverseCol]";
  "if []";
  ". call self._docmodel.update reverseCol= []";
  "call _.extend [summaryTables]";
  "for [_collect_back_references]";
  ". if [summarySourceCol]";
  ". . continue";
  ". call self._convert_reference_col_for_deleted_table []";
  "call self._doRemoveViewSectionRecords [viewSections]";
  "let [_docmodel,all,not,viewSections,views]";
  "call self._docmodel.remove []";
  "let [tableId]";
  "let [columns]";
  "let []";
  "call self.doBulkRemoveRecord ['_grist_Tables_column']";
  "call self.doBulkRemoveRecord []";
  "for []";
  ". call self._do_doc_action actions.RemoveTable [RemoveTable]"
]%string.

Definition plan_doRemoveColumns : list string := [
  "let set []";
  "let [parentId,summaryGroupByColumns]";
  "for []";
  ". for [viewSections]";
  ". . if [Eq,rawViewSectionRef]";
  ". . . continue";
  ". . let [colRef,fields,summarySourceCol]";
  ". . let [And,NotIn]";
  ". . call self.UpdateSummaryViewSection []";
  "let [parentId,viewSections]";
  "let set [id]";
  "let []";
  "let []";
  "for []";
  ". let [loads,sortColRefs]";
  ". let [NotIn,col_ref]";
  ". if [NotEq]";
  ". . call _.append []";
  ". . call _.append [dumps]";
  "call self._docmodel.update sortColRefs= []";
  "let set []";
  "call _.update [rules,viewFields]";
  "let [id,viewFields]";
  "call self.doBulkRemoveRecord ['_grist_Views_section_field']";
  "call _.update [_docmodel,columns,displayCol,id,lookupRecords,view_fields,visibleCol=]";
  "call _.update [colId,not,rules]";
  "let set []";
  "let [And,NotIn,id]";
  "let [RemoveColumn,colId,parentId,tableId]";
  "call self.doBulkRemoveRecord ['_grist_Tables_column']";
  "for []";
  ". call self._do_doc_action []"
]%string.

Definition plan_removeColumnRecords : list string := [
  "let [_bulk_action_iter]";
  "if [summarySourceCol]";
  ". raise ['RemoveColumn: cannot remove a group-by c']";
  "call self.doRemoveColumns []"
]%string.

Definition plan_removeViewRecords : list string := [
  "let [_bulk_action_iter]";
  "call self._docmodel.remove [tabBarItems]";
  "call self._docmodel.remove [viewSections]";
  "call self._docmodel.remove [pageItems]";
  "call self.doBulkRemoveRecord []"
]%string.

Definition plan_removeViewSectionRecords : list string := [
  "let [_bulk_action_iter]";
  "for []";
  ". if [isRaw]";
  ". . raise ['Cannot remove raw view section']";
  ". if [isRecordCard]";
  ". . raise ['Cannot remove record card view section']";
  "call self._doRemoveViewSectionRecords []"
]%string.

Definition plan_doRemoveViewSectionRecords : list string := [
  "call self.doBulkRemoveRecord ['_grist_Views_section_field',fields,id]";
  "call self.doBulkRemoveRecord ['_grist_Views_section',id]"
]%string.

Definition plan_removeViewSectionFieldRecords : list string := [
  "let [_bulk_action_iter]";
  "for []";
  ". if [isRaw,parentId]";
  ". . raise ['Cannot remove raw view section field']";
  "call self.doBulkRemoveRecord []"
]%string.

Definition plan_doBulkRemoveRecord : list string := [
  "let [_engine,tables]";
  "assert [Record]";
  "let []";
  "let self._engine.out_actions.summary.translate_new_row_ids [_engine,out_actions,summary,translate_new_row_ids]";
  "call self._do_doc_action actions.BulkRemoveRecord [BulkRemoveRecord]";
  "let set []";
  "for [_back_references,key=,node]";
  ". if [BaseReferenceColumn,Or,is_formula,not]";
  ". . continue";
  ". let _.get_updates_for_removed_target_rows [get_updates_for_removed_target_rows]";
  ". if []";
  ". . let [table_id]";
  ". . let []";
  ". . let [col_id]";
  ". . if ['_grist_',startswith,table_id]";
  ". . . call self._BulkUpdateRecord_decoded []";
  ". . else";
  ". . . let self._docmodel.tables.lookupOne [_docmodel,lookupOne,tableId=,tables]";
  ". . . if [And,summarySourceTable]";
  ". . . . with [indirect_actions]";
  ". . . . . call self._do_doc_action actions.BulkUpdateRecord [BulkUpdateRecord]";
  ". . . else";
  ". . . . call self._do_doc_action actions.BulkUpdateRecord [BulkUpdateRecord]"
]%string.

Definition plan_UpdateSummaryViewSection : list string := [
  "let self._docmodel.view_sections.table.get_record [_docmodel,get_record,table,view_sections]";
  "if [isRaw]";
  ". raise ['Cannot modify raw view section']";
  "let [summarySourceTable,tableRef]";
  "let self._fetch_table_col_recs [_fetch_table_col_recs,id]";
  "call self._summary.update_summary_section []"
]%string.

Definition plan_DetachSummaryViewSection : list string := [
  "let self._docmodel.view_sections.table.get_record [_docmodel,get_record,table,view_sections]";
  "if [not,summarySourceTable,tableRef]";
  ". raise ['Cant detach a non-summary section']";
  "if [isRaw]";
  ". raise ['Cannot modify raw view section']";
  "call self._summary.detach_summary_section []"
]%string.

Definition plan_apply_auto_removes : list string := [
  "let sorted ['_grist_Tables',Eq,_auto_remove_set,_table,key=,table_id]";
  "call self._auto_remove_set.clear []";
  "with [_engine,indirect_actions,user_actions]";
  ". call self.remove []";
  "return []"
]%string.
