(* Types and specification vocabulary for treeview.fix_indents (C36).  The function itself is translated
   from /repo/sandbox/grist/treeview.py on every run into GristGen.Treeview_gen. *)
From Coq Require Import ZArith List Bool.
Import ListNotations.
Require Import Grist.Lib.PyPrelude.
Open Scope Z_scope.

(* a page record: (row id, indentation) *)
Definition item := (Z * Z)%type.
Definition item_id (it : item) : Z := fst it.
Definition item_indentation (it : item) : Z := snd it.

(* Look up the new indentation of a page in the list of fixes (first match, as a dict built from the
   pairs would give when ids are distinct). *)
Fixpoint lookup_fix (id : Z) (fixes : list (Z * Z)) : option Z :=
  match fixes with
  | [] => None
  | (i, n) :: t => if Z.eqb i id then Some n else lookup_fix id t
  end.

(* What the caller (_removePageRecords) does: drop removed pages, apply the fixes to the rest. *)
Definition apply_fixes (items : list item) (deleted : list Z) (fixes : list (Z * Z)) : list item :=
  map (fun it => match lookup_fix (fst it) fixes with Some n => (fst it, n) | None => it end)
      (filter (fun it => negb (py_mem Z.eqb (fst it) deleted)) items).

(* valid tree: first page at level 0, each page at most one level deeper than the previous one,
   no negative level *)
Fixpoint valid_from (prev : Z) (l : list item) : Prop :=
  match l with
  | [] => True
  | it :: t => 0 <= snd it <= prev + 1 /\ valid_from (snd it) t
  end.
Definition valid_tree (l : list item) : Prop := valid_from (-1) l.

Fixpoint valid_fromb (prev : Z) (l : list item) : bool :=
  match l with
  | [] => true
  | it :: t => (0 <=? snd it) && (snd it <=? prev + 1) && valid_fromb (snd it) t
  end.
Definition valid_treeb (l : list item) : bool := valid_fromb (-1) l.

(* Independent specification of the level a page may keep at most ("allowed"): one more than the new
   level of the page before it, except that a removed page passes on its own new level (its children
   are promoted to it); 0 for the first page. *)
Fixpoint allowed_levels (allowed : Z) (items : list item) (deleted : list Z) : list (item * Z) :=
  match items with
  | [] => []
  | it :: t =>
      let new := Z.min allowed (snd it) in
      (it, allowed) :: allowed_levels (if py_mem Z.eqb (fst it) deleted then new else new + 1) t deleted
  end.

(* "Under a removed page": tracking, while scanning, the smallest level among removed pages whose subtree
   is still open (None = no open removed page).  A page is a descendant of a removed page exactly when
   that smallest level is below its own level. *)
Fixpoint under_removed (open : option Z) (items : list item) (deleted : list Z) : list (item * bool) :=
  match items with
  | [] => []
  | it :: t =>
      let under := match open with Some a => a <? snd it | None => false end in
      let still := match open with Some a => if a <? snd it then Some a else None | None => None end in
      let open' := if py_mem Z.eqb (fst it) deleted
                   then Some (match still with Some a => Z.min a (snd it) | None => snd it end)
                   else still in
      (it, under) :: under_removed open' t deleted
  end.
