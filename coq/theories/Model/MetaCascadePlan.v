(* Vocabulary for the pieces of the C09 code that are regenerated from source on every run (coq/gen/
   MetaCascade_gen.v, written by harness/mc2v_gen.py) and bridged to the model in Proofs/MetaCascade_bridge.v. *)
From Coq Require Import ZArith List Bool.
Import ListNotations.
Require Import Grist.Model.MetaCascade.
Open Scope Z_scope.

(* ---------------------------------------------------------------------------------------------- *)
(* the end-of-bundle statement of Engine.apply_user_actions around docmodel.apply_auto_removes():
   `while ...: self._bring_all_up_to_date()` loops until nothing is marked; an `if` would run one round *)
Inductive loop_mode := LoopWhile | LoopOnce.

Definition auto_loop (mode : loop_mode) (fuel : nat) (m : meta) : res meta :=
  match mode with
  | LoopWhile => auto_fix fuel m
  | LoopOnce => if isnil (auto_cols m) && isnil (auto_tabs m) then Ok m else auto_round m
  end.

(* ---------------------------------------------------------------------------------------------- *)
(* SummaryActions._get_or_add_columns(table, all_colinfo).
   prior: colId -> (column id, formula) for the columns of the table (names and formulas as tokens);
   infos: the requested (colId, formula).  Items, in order: EAdd = doAddColumn was called,
   YExisting id = an existing column is yielded, YAdded = the column just added is yielded. *)
Inductive goa_item := EAdd | YExisting (id : Z) | YAdded.

Fixpoint goa_lookup (name : Z) (prior : list (Z * (Z * Z))) : option (Z * Z) :=
  match prior with
  | [] => None
  | (n, c) :: t => if n =? name then Some c else goa_lookup name t
  end.

Definition col_truthy (c : option (Z * Z)) : bool := match c with Some _ => true | None => false end.
Definition col_id (c : option (Z * Z)) : Z := match c with Some (i, _) => i | None => 0 end.
Definition col_formula (c : option (Z * Z)) : Z := match c with Some (_, f) => f | None => 0 end.
Definition ci_name (ci : Z * Z) : Z := fst ci.
Definition ci_formula (ci : Z * Z) : Z := snd ci.

(* what the model of update_summary_section / create_new_summary_section relies on: every requested column
   comes back, reused when the table has a column of that id with that formula, otherwise added *)
Definition model_goa (prior : list (Z * (Z * Z))) (infos : list (Z * Z)) : list goa_item :=
  concat (map (fun ci => match goa_lookup (fst ci) prior with
                         | Some (i, f) => if f =? snd ci then [YExisting i] else [EAdd; YAdded]
                         | None => [EAdd; YAdded]
                         end) infos).

(* the columns handed back to the caller, one per requested column *)
Definition goa_yields (items : list goa_item) : nat :=
  length (filter (fun i => match i with EAdd => false | _ => true end) items).
