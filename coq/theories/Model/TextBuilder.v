(* Executable model of /repo/sandbox/grist/textbuilder.py (C37): Text, Replacer, Combiner, Patch,
   make_patch, validate_patch, get_text, map_back_patch, get_input_pos, map_back_offset.
   Texts are lists of code points.  Definitions only; the proofs are in Proofs/TextBuilder_proofs.v.
   The model is compared with the real classes on generated cases by harness/props/c37.py. *)
From Coq Require Import ZArith List Bool.
Import ListNotations.
Open Scope Z_scope.

Notation text := (list Z) (only parsing).
Definition len {A} (l : list A) : Z := Z.of_nat (length l).

(* ---- Python primitives used by the module ---- *)

(* index normalisation of s[a:b]: negative indexes count from the end, everything is clamped *)
Definition clamp (n i : Z) : Z := if i <? 0 then Z.max 0 (n + i) else Z.min i n.

Definition py_slice {A} (l : list A) (a b : Z) : list A :=
  let a' := clamp (len l) a in
  let b' := clamp (len l) b in
  firstn (Z.to_nat (b' - a')) (skipn (Z.to_nat a') l).

Definition py_slice_from {A} (l : list A) (a : Z) : list A := skipn (Z.to_nat (clamp (len l) a)) l.

(* l[i] for i >= -len l (a negative index counts from the end) *)
Definition py_index (l : list Z) (i : Z) : Z :=
  if i <? 0 then nth (Z.to_nat (len l + i)) l 0 else nth (Z.to_nat i) l 0.

Fixpoint text_eqb (a b : text) : bool :=
  match a, b with
  | [], [] => true
  | x :: a', y :: b' => (x =? y) && text_eqb a' b'
  | _, _ => false
  end.

Fixpoint text_compare (a b : text) : comparison :=
  match a, b with
  | [], [] => Eq
  | [], _ :: _ => Lt
  | _ :: _, [] => Gt
  | x :: a', y :: b' => match x ?= y with Eq => text_compare a' b' | c => c end
  end.

(* bisect.bisect_right(a, x): the binary search of the standard library (lo=0, hi=len(a)) *)
Fixpoint bisect_loop (fuel : nat) (a : list Z) (x lo hi : Z) : Z :=
  match fuel with
  | O => lo
  | S f =>
      if lo <? hi then
        let mid := (lo + hi) / 2 in
        if x <? nth (Z.to_nat mid) a 0 then bisect_loop f a x lo mid else bisect_loop f a x (mid + 1) hi
      else lo
  end.
Definition bisect_right (a : list Z) (x : Z) : Z := bisect_loop (S (length a)) a x 0 (len a).

(* ---- Patch = namedtuple(start, end, old_text, new_text) ---- *)

Definition patch := (Z * Z * text * text)%type.
Definition p_start (p : patch) : Z := fst (fst (fst p)).
Definition p_end (p : patch) : Z := snd (fst (fst p)).
Definition p_old (p : patch) : text := snd (fst p).
Definition p_new (p : patch) : text := snd p.

Definition make_patch (full : text) (s e : Z) (new : text) : patch := (s, e, py_slice full s e, new).

(* validate_patch: true = returns, false = raises ValueError *)
Definition validate_patch (t : text) (p : patch) : bool := text_eqb (py_slice t (p_start p) (p_end p)) (p_old p).

(* tuple order used by sorted(patches) *)
Definition patch_compare (p q : patch) : comparison :=
  match p_start p ?= p_start q with
  | Eq => match p_end p ?= p_end q with
          | Eq => match text_compare (p_old p) (p_old q) with
                  | Eq => text_compare (p_new p) (p_new q)
                  | c => c
                  end
          | c => c
          end
  | c => c
  end.
Definition patch_leb (p q : patch) : bool := match patch_compare p q with Gt => false | _ => true end.

Fixpoint insert_patch (p : patch) (l : list patch) : list patch :=
  match l with
  | [] => [p]
  | q :: t => if patch_leb p q then p :: q :: t else q :: insert_patch p t
  end.
Fixpoint sort_patches (l : list patch) : list patch :=
  match l with
  | [] => []
  | p :: t => insert_patch p (sort_patches t)
  end.

(* ---- results: what a call returns or raises ---- *)

Inductive res (A : Type) : Type :=
| Ok (a : A)
| ValueError
| AssertionError.
Arguments Ok {A} a.
Arguments ValueError {A}.
Arguments AssertionError {A}.

Definition bind {A B} (r : res A) (f : A -> res B) : res B :=
  match r with
  | Ok a => f a
  | ValueError => ValueError
  | AssertionError => AssertionError
  end.

(* ---- Replacer.__init__ ----
   The loop over sorted(patches), written as a recursion over the sorted list with the loop variables
   in_pos/out_pos as arguments.  Returns the entries appended to _input_offsets and _output_offsets
   and the text produced from in_pos on; ValueError when validate_patch raises. *)
Fixpoint replacer_loop (t : text) (in_pos out_pos : Z) (ps : list patch) : res (list Z * list Z * text) :=
  match ps with
  | [] => Ok ([], [], py_slice_from t in_pos)
  | p :: rest =>
      if validate_patch t p then
        let out_pos' := out_pos + (p_start p - in_pos) + len (p_new p) in
        let in_pos' := p_end p in
        bind (replacer_loop t in_pos' out_pos' rest) (fun r =>
          let '(io, oo, tail) := r in
          let out := py_slice t in_pos (p_start p) ++ p_new p ++ tail in
          if len (p_new p) =? p_end p - p_start p then Ok (io, oo, out)
          else Ok (in_pos' :: io, out_pos' :: oo, out))
      else ValueError
  end.

(* (_input_offsets, _output_offsets, _output_text) of Replacer(in_builder, patches) *)
Definition replacer_init (in_text : text) (patches : list patch) : res (list Z * list Z * text) :=
  bind (replacer_loop in_text 0 0 (sort_patches patches)) (fun r =>
    let '(io, oo, out) := r in Ok (0 :: io, 0 :: oo, out)).

(* Replacer.get_input_pos *)
Definition get_input_pos (io oo : list Z) (out_pos : Z) : Z :=
  let index := bisect_right oo out_pos - 1 in
  let offset := out_pos - py_index oo index in
  py_index io index + offset.

(* in_end of Replacer.map_back_patch.  fixed=false: the code as it is (get_input_pos(patch.end)).
   fixed=true: the repair proposed in notes/proposed_fixes/C37-deletion-end.diff: the end of a
   non-empty range is not allowed to run past the position after its last character. *)
Definition input_end (fixed : bool) (io oo : list Z) (s e : Z) : Z :=
  let raw := get_input_pos io oo e in
  if fixed && (s <? e) then Z.min raw (get_input_pos io oo (e - 1) + 1) else raw.

(* Combiner.__init__: self._offsets from the texts of the parts *)
Fixpoint part_offsets (offset : Z) (texts : list text) : list Z :=
  match texts with
  | [] => []
  | t :: rest => offset :: part_offsets (offset + len t) rest
  end.

(* ---- builders and their nesting ---- *)

Inductive builder : Type :=
| BText (t : text) (value : Z)
| BReplacer (inner : builder) (patches : list patch)
| BCombiner (ps : parts)
with parts : Type :=
| PNil
| PLit (t : text) (rest : parts)          (* a str part *)
| PSub (b : builder) (rest : parts).      (* a Builder part *)

(* get_text(); an error is the exception raised by a constructor on the way *)
Fixpoint render (b : builder) : res text :=
  match b with
  | BText t _ => Ok t
  | BReplacer inner ps =>
      bind (render inner) (fun in_text =>
      bind (replacer_init in_text ps) (fun r => Ok (snd r)))
  | BCombiner ps => bind (render_parts ps) (fun ts => Ok (concat ts))
  end
with render_parts (ps : parts) : res (list text) :=
  match ps with
  | PNil => Ok []
  | PLit t rest => bind (render_parts rest) (fun ts => Ok (t :: ts))
  | PSub b rest => bind (render b) (fun t => bind (render_parts rest) (fun ts => Ok (t :: ts)))
  end.

(* result of map_back_patch: None (literal part of a Combiner) or (text, value, patch) of a Text *)
Definition mapped := option (text * Z * patch).

Fixpoint map_back (fixed : bool) (b : builder) (p : patch) : res mapped :=
  match b with
  | BText t v =>
      if text_eqb (py_slice t (p_start p) (p_end p)) (p_old p) then Ok (Some (t, v, p)) else AssertionError
  | BReplacer inner ps =>
      bind (render inner) (fun in_text =>
      bind (replacer_init in_text ps) (fun r =>
        let '(io, oo, out_text) := r in
        if validate_patch out_text p then
          let in_start := get_input_pos io oo (p_start p) in
          let in_end := input_end fixed io oo (p_start p) (p_end p) in
          map_back fixed inner (make_patch in_text in_start in_end (p_new p))
        else ValueError))
  | BCombiner ps =>
      bind (render_parts ps) (fun ts =>
        if validate_patch (concat ts) p then
          let offsets := part_offsets 0 ts in
          let start_index := bisect_right offsets (p_start p) in
          let end_index := bisect_right offsets (p_end p - 1) in
          if (start_index <=? 0) || (end_index <=? 0) || negb (start_index =? end_index) then ValueError
          else
            let offset := py_index offsets (start_index - 1) in
            map_back_parts fixed ps (Z.to_nat (start_index - 1))
                           (p_start p - offset, p_end p - offset, p_old p, p_new p)
        else ValueError)
  end
with map_back_parts (fixed : bool) (ps : parts) (k : nat) (p : patch) : res mapped :=
  match ps with
  | PNil => ValueError                       (* not reachable: k < number of parts *)
  | PLit _ rest => match k with O => Ok None | S k' => map_back_parts fixed rest k' p end
  | PSub b rest => match k with O => map_back fixed b p | S k' => map_back_parts fixed rest k' p end
  end.

(* Replacer.map_back_offset (a method of Replacer only): through a series of Replacers *)
Fixpoint offset_through (b : builder) (out_pos : Z) : res Z :=
  match b with
  | BReplacer inner ps =>
      bind (render inner) (fun in_text =>
      bind (replacer_init in_text ps) (fun r =>
        let '(io, oo, _) := r in offset_through inner (get_input_pos io oo out_pos)))
  | _ => Ok out_pos
  end.
Definition map_back_offset := offset_through.

(* ---- boolean comparisons for the generated correspondence cases ---- *)
Definition patch_eqb (p q : patch) : bool :=
  (p_start p =? p_start q) && (p_end p =? p_end q) && text_eqb (p_old p) (p_old q) && text_eqb (p_new p) (p_new q).

Definition res_eqb {A} (eqb : A -> A -> bool) (r s : res A) : bool :=
  match r, s with
  | Ok a, Ok b => eqb a b
  | ValueError, ValueError => true
  | AssertionError, AssertionError => true
  | _, _ => false
  end.

Definition mapped_eqb (m n : mapped) : bool :=
  match m, n with
  | None, None => true
  | Some (t, v, p), Some (t', v', p') => text_eqb t t' && (v =? v') && patch_eqb p p'
  | _, _ => false
  end.

(* one correspondence case: builder, its get_text(), map_back_patch queries, map_back_offset queries,
   get_input_pos-level data of the outermost Replacer (the offset tables) *)
Definition tb_case := (builder * res text * list (patch * res mapped) * list (Z * res Z)
                       * option (list Z * list Z))%type.

Definition tables_of (b : builder) : option (list Z * list Z) :=
  match b with
  | BReplacer inner ps =>
      match bind (render inner) (fun t => replacer_init t ps) with
      | Ok (io, oo, _) => Some (io, oo)
      | _ => None
      end
  | _ => None
  end.

Definition zlist_eqb (a b : list Z) : bool := text_eqb a b.

Definition check_case (fixed : bool) (c : tb_case) : bool :=
  let '(b, txt, queries, offs, tabs) := c in
  res_eqb text_eqb (render b) txt
  && forallb (fun q => res_eqb mapped_eqb (map_back fixed b (fst q)) (snd q)) queries
  && forallb (fun q => res_eqb Z.eqb (map_back_offset b (fst q)) (snd q)) offs
  && match tabs, tables_of b with
     | None, _ => true
     | Some (io, oo), Some (io', oo') => zlist_eqb io io' && zlist_eqb oo oo'
     | Some _, None => false
     end.

(* ==== Specification vocabulary (independent of the offset arrays) ==== *)

(* l[a:b] for 0 <= a, b; and l[k] *)
Definition sub {A} (l : list A) (a b : Z) : list A := firstn (Z.to_nat (b - a)) (skipn (Z.to_nat a) l).
Definition from {A} (l : list A) (a : Z) : list A := skipn (Z.to_nat a) l.
Definition znth {A} (l : list A) (k : Z) (d : A) : A := nth (Z.to_nat k) l d.

(* applying one patch / a list of patches sorted by position directly (the last one first, so that the
   positions of the earlier ones stay valid); a patch here is (start, end, new) *)
Definition apply_patch {A} (l : list A) (s e : Z) (new : list A) : list A := sub l 0 s ++ new ++ from l e.
Fixpoint apply_sorted {A} (l : list A) (ps : list (Z * Z * list A)) : list A :=
  match ps with
  | [] => l
  | (s, e, new) :: rest => apply_patch (apply_sorted l rest) s e new
  end.
Definition pcore (p : patch) : Z * Z * text := (p_start p, p_end p, p_new p).

(* provenance: where a character of an output comes from: None = generated (patch text, str part),
   Some (path, i) = character i of the Text reached by `path` (the part indexes chosen at the Combiners
   on the way down; Replacers add nothing to the path) *)
Definition origin := option (list nat * Z).
Definition cell := (Z * origin)%type.
Definition generated (t : text) : list cell := map (fun c => (c, None)) t.
Fixpoint annot (t : text) (i : Z) : list cell :=
  match t with
  | [] => []
  | c :: r => (c, Some ([], i)) :: annot r (i + 1)
  end.
Definition push (k : nat) (c : cell) : cell :=
  (fst c, match snd c with Some (path, i) => Some (k :: path, i) | None => None end).
Definition bump (c : cell) : cell :=
  (fst c, match snd c with Some (k :: path, i) => Some (S k :: path, i) | o => o end).
Definition acore (p : patch) : Z * Z * list cell := (p_start p, p_end p, generated (p_new p)).

(* the output with provenance, by applying the patches directly *)
Fixpoint prender (b : builder) : list cell :=
  match b with
  | BText t _ => annot t 0
  | BReplacer inner ps => apply_sorted (prender inner) (map acore (sort_patches ps))
  | BCombiner ps => prender_parts ps
  end
with prender_parts (ps : parts) : list cell :=
  match ps with
  | PNil => []
  | PLit t rest => generated t ++ map bump (prender_parts rest)
  | PSub b rest => map (push 0) (prender b) ++ map bump (prender_parts rest)
  end.

(* the Text (text, value) at the end of a path *)
Fixpoint leaf_at (b : builder) (path : list nat) : option (text * Z) :=
  match b with
  | BText t v => match path with [] => Some (t, v) | _ => None end
  | BReplacer inner _ => leaf_at inner path
  | BCombiner ps => match path with [] => None | k :: path' => leaf_parts ps k path' end
  end
with leaf_parts (ps : parts) (k : nat) (path : list nat) : option (text * Z) :=
  match ps with
  | PNil => None
  | PLit _ rest => match k with O => None | S k' => leaf_parts rest k' path end
  | PSub b rest => match k with O => leaf_at b path | S k' => leaf_parts rest k' path end
  end.

(* well-formed patch list for text t, from position ip on: in sorted() order the patches are inside the
   text, do not overlap, and their old_text is the text they replace *)
Fixpoint wf_from (t : text) (ip : Z) (ps : list patch) : Prop :=
  match ps with
  | [] => 0 <= ip <= len t
  | p :: rest => 0 <= ip <= p_start p /\ p_start p <= p_end p <= len t /\
                 p_old p = sub t (p_start p) (p_end p) /\ wf_from t (p_end p) rest
  end.

Fixpoint wf_builder (b : builder) : Prop :=
  match b with
  | BText _ _ => True
  | BReplacer inner ps =>
      wf_builder inner /\ match render inner with Ok t => wf_from t 0 (sort_patches ps) | _ => False end
  | BCombiner ps => wf_parts ps
  end
with wf_parts (ps : parts) : Prop :=
  match ps with
  | PNil => True
  | PLit _ rest => wf_parts rest
  | PSub b rest => wf_builder b /\ wf_parts rest
  end.

(* Hypothesis of the theorem about the unchanged code (fixed=false): following the range [s,e) of b's
   output down the nesting as map_back_patch does, no Replacer on the way has an offset-table entry
   (besides the initial 0) whose output offset is exactly the range end.  Such an entry at the end of a
   range whose last character is copied exists exactly when a patch that deletes text ends there. *)
Fixpoint no_entry_at_end (b : builder) (s e : Z) : Prop :=
  match b with
  | BText _ _ => True
  | BReplacer inner ps =>
      match bind (render inner) (fun t => replacer_init t ps) with
      | Ok (io, oo, _) =>
          ~ In e (tl oo) /\ no_entry_at_end inner (get_input_pos io oo s) (get_input_pos io oo e)
      | _ => True
      end
  | BCombiner ps =>
      match render_parts ps with
      | Ok ts =>
          let offsets := part_offsets 0 ts in
          let idx := bisect_right offsets s - 1 in
          let off := py_index offsets idx in
          no_entry_parts ps (Z.to_nat idx) (s - off) (e - off)
      | _ => True
      end
  end
with no_entry_parts (ps : parts) (k : nat) (s e : Z) : Prop :=
  match ps with
  | PNil => True
  | PLit _ rest => match k with O => True | S k' => no_entry_parts rest k' s e end
  | PSub b rest => match k with O => no_entry_at_end b s e | S k' => no_entry_parts rest k' s e end
  end.

(* position of an output character among the parts of a Combiner: in_part ts k s = character s of the
   concatenation lies in part k;  off_of ts k = where part k starts *)
Fixpoint in_part (ts : list text) (k : nat) (s : Z) : Prop :=
  match ts, k with
  | [], _ => False
  | t :: _, O => 0 <= s < len t
  | t :: rest, S k' => in_part rest k' (s - len t)
  end.
Fixpoint off_of (ts : list text) (k : nat) : Z :=
  match ts, k with
  | t :: rest, S k' => len t + off_of rest k'
  | _, _ => 0
  end.
Fixpoint part_is_lit (ps : parts) (k : nat) : bool :=
  match ps with
  | PNil => false
  | PLit _ rest => match k with O => true | S k' => part_is_lit rest k' end
  | PSub _ rest => match k with O => false | S k' => part_is_lit rest k' end
  end.

(* ---- editing the source with a mapped-back patch and re-deriving the builders (map_back_commutes) ----
   When characters [a,b) of a Replacer's input are replaced by a text of length b-a+delta, its patches
   before the range stay, those after it move by delta, those inside it (they edited text that is
   replaced now) go. *)
Definition shiftp (delta : Z) (p : patch) : patch := (p_start p + delta, p_end p + delta, p_old p, p_new p).
Definition transport (ps : list patch) (a b delta : Z) : list patch :=
  filter (fun p => p_end p <=? a) ps ++ map (shiftp delta) (filter (fun p => b <=? p_start p) ps).

(* the builder after the edit: follows the patch down exactly as map_back_patch does; the Text reached gets
   the patch applied.  (On a constructor error the builder is returned unchanged.) *)
Fixpoint rebuild (fixed : bool) (b : builder) (p : patch) : builder :=
  match b with
  | BText t v => BText (apply_patch t (p_start p) (p_end p) (p_new p)) v
  | BReplacer inner ps =>
      match bind (render inner) (fun t => bind (replacer_init t ps) (fun r => Ok (t, r))) with
      | Ok (in_text, (io, oo, _)) =>
          let a := get_input_pos io oo (p_start p) in
          let b' := input_end fixed io oo (p_start p) (p_end p) in
          BReplacer (rebuild fixed inner (make_patch in_text a b' (p_new p)))
                    (transport (sort_patches ps) a b' (len (p_new p) - (b' - a)))
      | _ => b
      end
  | BCombiner ps =>
      match render_parts ps with
      | Ok ts =>
          let offsets := part_offsets 0 ts in
          let idx := bisect_right offsets (p_start p) - 1 in
          let off := py_index offsets idx in
          BCombiner (rebuild_parts fixed ps (Z.to_nat idx) (p_start p - off, p_end p - off, p_old p, p_new p))
      | _ => b
      end
  end
with rebuild_parts (fixed : bool) (ps : parts) (k : nat) (p : patch) : parts :=
  match ps with
  | PNil => PNil
  | PLit t rest => match k with O => ps | S k' => PLit t (rebuild_parts fixed rest k' p) end
  | PSub b rest => match k with O => PSub (rebuild fixed b p) rest | S k' => PSub b (rebuild_parts fixed rest k' p) end
  end.

(* side condition of map_back_commutes: the re-derived patch lists are still in sorted() order (sorted()
   orders two insertions at one position by their text; they can only meet when the replaced range becomes
   empty) *)
Fixpoint transport_sorted (fixed : bool) (b : builder) (p : patch) : Prop :=
  match b with
  | BText _ _ => True
  | BReplacer inner ps =>
      match bind (render inner) (fun t => bind (replacer_init t ps) (fun r => Ok (t, r))) with
      | Ok (in_text, (io, oo, _)) =>
          let a := get_input_pos io oo (p_start p) in
          let b' := input_end fixed io oo (p_start p) (p_end p) in
          let ps' := transport (sort_patches ps) a b' (len (p_new p) - (b' - a)) in
          sort_patches ps' = ps' /\ transport_sorted fixed inner (make_patch in_text a b' (p_new p))
      | _ => True
      end
  | BCombiner ps =>
      match render_parts ps with
      | Ok ts =>
          let offsets := part_offsets 0 ts in
          let idx := bisect_right offsets (p_start p) - 1 in
          let off := py_index offsets idx in
          transport_sorted_parts fixed ps (Z.to_nat idx) (p_start p - off, p_end p - off, p_old p, p_new p)
      | _ => True
      end
  end
with transport_sorted_parts (fixed : bool) (ps : parts) (k : nat) (p : patch) : Prop :=
  match ps with
  | PNil => True
  | PLit _ rest => match k with O => True | S k' => transport_sorted_parts fixed rest k' p end
  | PSub b rest => match k with O => transport_sorted fixed b p | S k' => transport_sorted_parts fixed rest k' p end
  end.
