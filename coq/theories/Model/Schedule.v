(* Executable model of functions/schedule.py: Schedule.series (C35).

   Time is an abstract type T with a boolean strict comparison [ltb] (datetime.__lt__).  The calendar
   arithmetic is abstract:
     round_down : T -> T          _round_down_to_unit(start, unit)
     next       : T -> T          self._interval.add_to(dtime)
     slots      : list (T -> T)   [slot.add_to for slot in self._slots]
   The generator below is the loop of Schedule.series, statement by statement:

     dtime = _round_down_to_unit(start_dtime, self._interval_unit)
     while True:
       for slot in self._slots:
         if count <= 0: return
         out = slot.add_to(dtime)
         if out < start_dtime: continue
         if end_dtime is not None and out > end_dtime: return
         yield out
         count -= 1
       dtime = self._interval.add_to(dtime)

   `while True` gets explicit fuel (number of passes of the outer loop); running out of fuel is the
   separate result [OutOfFuel], never confused with a finished series. *)
From Coq Require Import ZArith List Bool.
Import ListNotations.
Open Scope Z_scope.

Section Model.
  Variable T : Type.
  Variable ltb : T -> T -> bool.            (* a < b *)
  Variable next : T -> T.
  Variable slots : list (T -> T).
  Variable round_down : T -> T.

  (* outcome of one pass of the inner `for`: the generator returned ([Stop]) or the pass ended and the
     outer loop goes on with the remaining count ([Go]); both carry what was yielded in the pass *)
  Inductive step := Stop (outs : list T) | Go (outs : list T) (count : Z).

  Definition yield (x : T) (s : step) : step :=
    match s with Stop o => Stop (x :: o) | Go o c => Go (x :: o) c end.

  (* `end_dtime is not None and out > end_dtime` *)
  Definition after_end (end_ : option T) (out : T) : bool :=
    match end_ with Some e => ltb e out | None => false end.

  Fixpoint run_slots (sl : list (T -> T)) (dtime start : T) (end_ : option T) (count : Z) : step :=
    match sl with
    | [] => Go [] count
    | slot :: rest =>
        if count <=? 0 then Stop []
        else
          let out := slot dtime in
          if ltb out start then run_slots rest dtime start end_ count
          else if after_end end_ out then Stop []
          else yield out (run_slots rest dtime start end_ (count - 1))
    end.

  Inductive result := Done (outs : list T) | OutOfFuel (outs : list T).

  Definition emit (o : list T) (r : result) : result :=
    match r with Done l => Done (o ++ l) | OutOfFuel l => OutOfFuel (o ++ l) end.

  Fixpoint series_from (fuel : nat) (dtime start : T) (end_ : option T) (count : Z) : result :=
    match fuel with
    | O => OutOfFuel []
    | S f =>
        match run_slots slots dtime start end_ count with
        | Stop o => Done o
        | Go o c => emit o (series_from f (next dtime) start end_ c)
        end
    end.

  Definition series (fuel : nat) (start : T) (end_ : option T) (count : Z) : result :=
    series_from fuel (round_down start) start end_ count.

  (* ---- specification vocabulary ---- *)

  (* the instants of the period that starts at t, in slot order *)
  Definition instants (t : T) : list T := map (fun s => s t) slots.

  (* start of the k-th period after t *)
  Fixpoint period (t : T) (k : nat) : T :=
    match k with O => t | S k' => period (next t) k' end.

  (* enumerate periods x slots: all instants of n consecutive periods from t on *)
  Fixpoint enum (t : T) (n : nat) : list T :=
    match n with O => [] | S n' => instants t ++ enum (next t) n' end.

  (* start <= x and (no end or x <= end) *)
  Definition in_range (start : T) (end_ : option T) (x : T) : bool :=
    negb (ltb x start) && negb (after_end end_ x).

  (* the first `count` scheduled instants in range, looking n periods ahead *)
  Definition spec (n : nat) (start : T) (end_ : option T) (count : Z) : list T :=
    firstn (Z.to_nat count) (filter (in_range start end_) (enum (round_down start) n)).
End Model.

Arguments Stop {T}. Arguments Go {T}. Arguments Done {T}. Arguments OutOfFuel {T}.

(* ---- instance 1: time = Z (seconds, microseconds ...), fixed-length interval k, slots = offsets ---- *)
Definition zslots (offs : list Z) : list (Z -> Z) := map (fun o t => t + o) offs.
Definition zround (unit : Z) (t : Z) : Z := t - t mod unit.
Definition zseries (unit k : Z) (offs : list Z) :=
  series Z Z.ltb (fun t => t + k) (zslots offs) (zround unit).
Definition zspec (unit k : Z) (offs : list Z) :=
  spec Z Z.ltb (fun t => t + k) (zslots offs) (zround unit).

(* ---- instance 2: time = Z timestamps, calendar functions given as tables computed by the real code
   (used by the correspondence check).  A table lists consecutive period starts with the instants of
   their slots; [next] of the last tabulated period is itself, so a model that needs more periods than
   tabulated stops making progress and runs out of fuel (which the check reports). ---- *)
Definition table := list (Z * list Z).

Fixpoint tbl_row (tb : table) (t : Z) : option (list Z) :=
  match tb with
  | [] => None
  | (p, r) :: rest => if p =? t then Some r else tbl_row rest t
  end.

Fixpoint tbl_next (tb : table) (t : Z) : Z :=
  match tb with
  | (p, _) :: (((q, _) :: _) as rest) => if p =? t then q else tbl_next rest t
  | _ => t
  end.

Definition tbl_slot (tb : table) (i : nat) (t : Z) : Z :=
  match tbl_row tb t with Some r => nth i r t | None => t end.

Definition tbl_slots (tb : table) (n : nat) : list (Z -> Z) := map (tbl_slot tb) (seq 0 n).

Definition tbl_series (tb : table) (nslots : nat) (base : Z) :=
  series Z Z.ltb (tbl_next tb) (tbl_slots tb nslots) (fun _ => base).

Definition zlist_eqb (a b : list Z) : bool :=
  (length a =? length b)%nat && forallb (fun p => fst p =? snd p) (combine a b).

Definition result_eqb (a b : result Z) : bool :=
  match a, b with
  | Done x, Done y => zlist_eqb x y
  | OutOfFuel x, OutOfFuel y => zlist_eqb x y
  | _, _ => false
  end.

Definition is_out_of_fuel (a : result Z) : bool :=
  match a with OutOfFuel _ => true | Done _ => false end.
