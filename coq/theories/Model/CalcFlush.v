(* action_summary.py: ActionSummary.convert_deltas_to_actions / _changes_to_actions (the calc flush of
   ActionGroup.flush_calc_changes).  The summary's dicts are modelled as association lists in INSERTION
   order (which, for dicts keyed by strings, is the only thing that may differ between two processes);
   the function iterates them with sorted().  Executable model only.

   Names are lists of code points; sorted() on str is the lexicographic order on code points. *)
From Coq Require Import ZArith List Bool Lia.
Import ListNotations.
Open Scope Z_scope.

Definition name := list Z.

Fixpoint name_ltb (a b : name) : bool :=
  match a, b with
  | [], [] => false
  | [], _ :: _ => true
  | _ :: _, [] => false
  | x :: a', y :: b' => if Z.ltb x y then true else if Z.eqb x y then name_ltb a' b' else false
  end.

Fixpoint name_eqb (a b : name) : bool :=
  match a, b with
  | [], [] => true
  | x :: a', y :: b' => Z.eqb x y && name_eqb a' b'
  | _, _ => false
  end.

(* sorted(): insertion sort by a strict order on the keys of an association list *)
Section Sort.
Context {K V : Type} (ltb : K -> K -> bool).
Fixpoint insert (x : K * V) (l : list (K * V)) : list (K * V) :=
  match l with
  | [] => [x]
  | y :: t => if ltb (fst y) (fst x) then y :: insert x t else x :: l
  end.
Fixpoint isort (l : list (K * V)) : list (K * V) :=
  match l with [] => [] | x :: t => insert x (isort t) end.
End Sort.

Definition dash : Z := 45.
Definition is_defunct (n : name) : bool := match n with c :: _ => Z.eqb c dash | [] => false end.
Definition root_name (n : name) : name := if is_defunct n then tl n else n.

(* LabelRenames._new_to_old: latest name -> Some original | None (created) *)
Definition renames := list (name * option name).
Fixpoint rn_get (r : renames) (n : name) : option (option name) :=
  match r with
  | [] => None
  | (k, v) :: t => if name_eqb k n then Some v else rn_get t n
  end.
Definition rn_is_created (r : renames) (n : name) : bool :=
  match rn_get r n with Some None => true | _ => false end.
Definition rn_original (r : renames) (n : name) : name :=
  match rn_get r n with Some (Some o) => o | Some None => root_name n | None => n end.

Definition delta := (Z * Z)%type.                       (* before, after (encoded values, abstract) *)
Definition coldelta := list (Z * delta).                (* row -> delta, insertion order *)

Record tdelta := mkT {
  t_before : list (Z * bool);        (* _rows_present_before *)
  t_after : list (Z * bool);         (* _rows_present_after *)
  t_colren : renames;                (* column_renames *)
  t_cols : list (name * coldelta)    (* column_deltas, insertion order *)
}.

Record summary := mkSum {
  s_tabren : renames;                (* _table_renames *)
  s_tables : list (name * tdelta)    (* _tables, insertion order *)
}.

Fixpoint zget {V} (l : list (Z * V)) (k : Z) : option V :=
  match l with [] => None | (k', v) :: t => if Z.eqb k' k then Some v else zget t k end.
Fixpoint nget {V} (l : list (name * V)) (k : name) : option V :=
  match l with [] => None | (k', v) :: t => if name_eqb k' k then Some v else nget t k end.

(* BulkUpdateRecord(table, rows, {col: values}) *)
Definition action := (name * list Z * name * list Z)%type.

Definition not_false (o : option bool) : bool := match o with Some false => false | _ => true end.

(* filter_out_new_rows / filter_out_gone_rows look the table up (self._tables.get) under its root name;
   [lk] is that lookup *)
Definition lookupT := name -> option tdelta.

Definition filter_new (lk : lookupT) (t : name) (rows : list Z) : list Z :=
  match lk t with
  | None => rows
  | Some td => filter (fun r => not_false (zget (t_before td) r)) rows
  end.
Definition filter_gone (lk : lookupT) (t : name) (rows : list Z) : list Z :=
  match lk t with
  | None => rows
  | Some td => filter (fun r => not_false (zget (t_after td) r)) rows
  end.
Definition is_created (tr : renames) (lk : lookupT) (t c : name) : bool :=
  rn_is_created tr t ||
  match lk t with Some td => rn_is_created (t_colren td) c | None => false end.

Definition pick (cd : coldelta) (after : bool) (rows : list Z) : list Z :=
  map (fun r => match zget cd r with Some (b, a) => if after then a else b | None => 0 end) rows.

Definition changed_rows (cd : coldelta) : list Z :=
  map fst (isort Z.ltb (filter (fun p => negb (Z.eqb (fst (snd p)) (snd (snd p)))) cd)).

(* _changes_to_actions; the column delta is a dict keyed by int row ids: sorted() is the numeric order *)
Definition changes_to_actions (tr : renames) (lk : lookupT) (tid cid : name) (td : tdelta) (cd : coldelta)
           (out : list action * list action) : list action * list action :=
  let '(stored, undo) := out in
  match cd with
  | [] => out
  | _ =>
    let full := changed_rows cd in
    let defunct := is_defunct tid || is_defunct cid in
    let orig_t := rn_original tr tid in
    let orig_c := rn_original (t_colren td) cid in
    let t := root_name tid in
    let c := root_name cid in
    let rows_after := if defunct then [] else filter_gone lk t full in
    let stored' := match rows_after with [] => stored | _ => stored ++ [(t, rows_after, c, pick cd true rows_after)] end in
    if is_created tr lk t c && negb defunct then (stored', undo)
    else
      (* presence-before is looked up under the LATEST table key (the defunct name of a removed table),
         since /repo commit b239974; presence-after under the root name *)
      let rows_before := filter_new lk tid full in
      let preserved := if defunct then [] else filter_gone lk t rows_before in
      let gone := filter (fun r => negb (existsb (Z.eqb r) preserved)) rows_before in
      let undo1 := match preserved with [] => undo | _ => undo ++ [(t, preserved, c, pick cd false preserved)] end in
      let undo2 := match gone with [] => undo1 | _ => (orig_t, gone, orig_c, pick cd false gone) :: undo1 end in
      (stored', undo2)
  end.

(* the part after the two sorted() calls: a function of the sorted association lists only *)
Definition flush_cols (tr : renames) (lk : lookupT) (tt : name * tdelta) (cols : list (name * coldelta)) out :=
  fold_left (fun out cc => changes_to_actions tr lk (fst tt) (fst cc) (snd tt) (snd cc) out) cols out.

Definition flush_sorted (tr : renames) (lk : lookupT) (tabs : list (name * tdelta)) (out : list action * list action) :=
  fold_left (fun out tt => flush_cols tr lk tt (isort name_ltb (t_cols (snd tt))) out) tabs out.

Definition convert_deltas_to_actions (s : summary) (out : list action * list action) :=
  flush_sorted (s_tabren s) (nget (s_tables s)) (isort name_ltb (s_tables s)) out.

(* docmodel.py DocModel.apply_auto_removes: the records of _auto_remove_set (a Python set: hash order)
   are sorted by (table_id == "_grist_Tables", (table_id, row_id)) before removal.  The tuple order is
   the lexicographic order of the encoding flag :: table_id ++ [-1; row_id] (code points are >= 0). *)
Definition rec_key (is_tables : bool) (t : name) (r : Z) : name :=
  (if is_tables then 1 else 0) :: t ++ [-1; r].

Definition auto_remove_order (tables_name : name) (recs : list (name * Z)) : list (name * Z) :=
  map snd (isort name_ltb
             (map (fun tr => (rec_key (name_eqb (fst tr) tables_name) (fst tr) (snd tr), tr)) recs)).
