(* C28 -- executable model of UserActions.BulkAddOrUpdateRecord / AddOrUpdateRecord (useractions.py) and of the
   record-level helpers it calls (table.lookup_records, doBulkAddOrReplace's id filling, docactions add,
   Engine.trim_update_action + docactions update), and an independent per-row reference specification.
   Definitions only; proofs are in Proofs/Upsert_proofs.v.

   Values: None, ints, strings (code points).  Column ids: Z; column 0 is the row-id column 'id'.
   The per-column value conversion (column.convert, and the lookup-key conversion) is a function supplied by
   the environment `env`: the theorems hold for every such function; the harness tabulates it from the
   running engine for the values of each case. *)
From Coq Require Import ZArith List Bool.
Import ListNotations.
Open Scope Z_scope.

Inductive val := VNone | VInt (n : Z) | VText (s : list Z).

Definition col := Z.
Definition id_col : col := 0.
Definition cells := list (col * val).
Definition row := (Z * cells)%type.
Definition table := list row.
Definition kv := list (col * list val).          (* `require` / `col_values`: column id -> list of values *)

Record colinfo := { c_id : col; c_data : bool (* accepts data: not a real formula column *); c_default : val }.

Record env := {
  e_schema : list colinfo;
  e_conv : col -> val -> val;                  (* value stored when `v` is written to column c *)
  e_key : col -> val -> option val             (* lookup key for `v` in column c; None = matches nothing *)
}.

Inductive on_many := OnFirst | OnNone | OnAll | OnBad.
Record options := { o_on_many : on_many; o_update : bool; o_add : bool; o_allow_empty : bool }.

Inductive error := EOnMany | EEmptyRequire | ELengths | EUnique | EEnv.
Inductive res (A : Type) := Ok (a : A) | Err (e : error).
Arguments Ok {A} a. Arguments Err {A} e.

Record retval := { r_record_ids : list (list Z); r_add_ids : list Z; r_update_ids : list (list Z) }.
Definition empty_ret := {| r_record_ids := []; r_add_ids := []; r_update_ids := [] |}.

(* ---------- equality tests ---------- *)
Fixpoint list_eqb {A} (eqb : A -> A -> bool) (l m : list A) : bool :=
  match l, m with
  | [], [] => true
  | x :: l', y :: m' => eqb x y && list_eqb eqb l' m'
  | _, _ => false
  end.
Definition val_eqb (a b : val) : bool :=
  match a, b with
  | VNone, VNone => true
  | VInt x, VInt y => x =? y
  | VText s, VText t => list_eqb Z.eqb s t
  | _, _ => false
  end.
Definition cell_eqb (a b : col * val) := (fst a =? fst b) && val_eqb (snd a) (snd b).
Definition row_eqb (a b : row) := (fst a =? fst b) && list_eqb cell_eqb (snd a) (snd b).
Definition table_eqb := list_eqb row_eqb.

Fixpoint mem {A} (eqb : A -> A -> bool) (x : A) (l : list A) : bool :=
  match l with [] => false | y :: t => eqb x y || mem eqb x t end.
Definition memz := mem Z.eqb.
Definition isnil {A} (l : list A) : bool := match l with [] => true | _ => false end.

(* ---------- dictionaries as lists of pairs ---------- *)
(* first binding (rows: one cell per column) *)
Fixpoint get (c : col) (cs : cells) : option val :=
  match cs with [] => None | (k, v) :: t => if k =? c then Some v else get c t end.
(* dict built by successive assignment: the last binding wins *)
Fixpoint dget (c : col) (cs : cells) : option val :=
  match cs with
  | [] => None
  | (k, v) :: t => match dget c t with Some w => Some w | None => if k =? c then Some v else None end
  end.

Definition row_at (i : nat) (d : kv) : cells := map (fun p => (fst p, nth i (snd p) VNone)) d.

(* ---------- table helpers ---------- *)
Definition ids_of (t : table) : list Z := map fst t.
Definition cell (r : row) (c : col) : val :=
  if c =? id_col then VInt (fst r) else match get c (snd r) with Some v => v | None => VNone end.

Fixpoint insert_z (x : Z) (l : list Z) : list Z :=
  match l with [] => [x] | y :: t => if x <=? y then x :: l else y :: insert_z x t end.
Fixpoint isort (l : list Z) : list Z := match l with [] => [] | x :: t => insert_z x (isort t) end.

(* table.lookup_records with the keyword arguments req: rows whose cells equal the converted key, row ids in increasing order *)
Definition row_matches (e : env) (req : cells) (r : row) : bool :=
  forallb (fun p => match e_key e (fst p) (snd p) with
                    | Some k => val_eqb k (cell r (fst p))
                    | None => false end) req.
Definition lookup (e : env) (t : table) (req : cells) : list Z :=
  isort (ids_of (filter (row_matches e req) t)).

Definition find_col (e : env) (c : col) : option colinfo := find (fun ci => c_id ci =? c) (e_schema e).
Definition known (e : env) (c : col) : bool := (c =? id_col) || match find_col e c with Some _ => true | None => false end.
(* keys of `require` usable as values of a new record: not a real formula column *)
Definition settable (e : env) (c : col) : bool :=
  (c =? id_col) || match find_col e c with Some ci => c_data ci | None => false end.
(* columns BulkAddRecord/BulkUpdateRecord accept (_ensure_column_accepts_data; 'id' is not a schema column) *)
Definition writable (e : env) (c : col) : bool :=
  negb (c =? id_col) && match find_col e c with Some ci => c_data ci | None => false end.

(* writing a dict of raw values into a row: every named cell gets the converted value *)
Definition set_cells (e : env) (cs vals : cells) : cells :=
  map (fun p => (fst p, match dget (fst p) vals with Some v => e_conv e (fst p) v | None => snd p end)) cs.
(* a new record: column defaults overlaid with the converted values *)
Definition new_cells (e : env) (vals : cells) : cells :=
  map (fun ci => (c_id ci, match dget (c_id ci) vals with Some v => e_conv e (c_id ci) v | None => c_default ci end))
      (e_schema e).

Definition upd := (Z * cells)%type.              (* one entry of a BulkUpdateRecord: row id, raw values *)
Definition apply_upd (e : env) (t : table) (u : upd) : table :=
  map (fun r => if fst r =? fst u then (fst r, set_cells e (snd r) (snd u)) else r) t.
Definition apply_upds (e : env) (us : list upd) (t : table) : table := fold_left (apply_upd e) us t.

(* doBulkUpdateRecord: of a row named more than once only the LAST occurrence is kept (in the order of these last
   occurrences); Engine.trim_update_action then keeps the entries whose values differ from what is stored; the
   doc action writes the kept entries in order. *)
Fixpoint keep_last (us : list upd) : list upd :=
  match us with
  | [] => []
  | u :: t => if memz (fst u) (map fst t) then keep_last t else u :: keep_last t
  end.
Definition changed (e : env) (t : table) (u : upd) : bool := negb (table_eqb (apply_upd e t u) t).
Definition bulk_update (e : env) (t : table) (us : list upd) : table :=
  apply_upds e (filter (changed e t) (keep_last us)) t.

(* ---------- doBulkAddOrReplace: filling row ids ---------- *)
Definition max_id (t : table) : Z := fold_left Z.max (ids_of t) 0.
Definition next_row_id (t : table) : Z := max_id t + 1.
Definition row_limit := 1000000.
(* what an entry of the row-id list asks for (raw value of 'id', or absent) *)
Inductive idreq := IAuto | IExplicit (n : Z) | IBad.
Definition kind (x : option val) : idreq :=
  match x with
  | None | Some VNone => IAuto
  | Some (VInt n) => if n <? 0 then IAuto else if n >? row_limit then IBad (* Row ID too high *) else IExplicit n
  | Some (VText _) => IBad                                   (* TypeError on `row_id < 0` *)
  end.
Definition is_bad (x : option val) : bool := match kind x with IBad => true | _ => false end.
(* first pass: explicit ids must be positive and must not repeat *)
Fixpoint validate (seen : list Z) (xs : list (option val)) : bool :=
  match xs with
  | [] => true
  | x :: t => match kind x with
              | IExplicit n => negb (n =? 0) && negb (memz n seen) && validate (n :: seen) t
              | _ => validate seen t
              end
  end.
(* automatic ids start above every existing and every explicitly requested id *)
Definition start_id (next : Z) (xs : list (option val)) : Z :=
  fold_left (fun a x => match kind x with IExplicit n => Z.max a (n + 1) | _ => a end) xs next.
(* second pass *)
Fixpoint fill (next : Z) (xs : list (option val)) : list Z :=
  match xs with
  | [] => []
  | x :: t => match kind x with IExplicit n => n :: fill next t | _ => next :: fill (next + 1) t end
  end.
Definition alloc (next : Z) (xs : list (option val)) : option (list Z) :=
  if existsb is_bad xs then None
  else if validate [] xs then Some (fill (start_id next xs) xs) else None.

Definition row_exists (t : table) (i : Z) : bool := (0 <? i) && memz i (ids_of t).   (* RowIDs.__contains__ *)
(* Engine.add_records for one row: id 0 is not a row; an id already present is overwritten *)
Definition doc_add_row (t : table) (r : row) : table :=
  if fst r =? 0 then t
  else if memz (fst r) (ids_of t) then map (fun q => if fst q =? fst r then r else q) t
  else t ++ [r].

Definition add_req := (option val * cells)%type.   (* entry of add_record_ids + its column values *)
Definition bulk_add (e : env) (t : table) (adds : list add_req) : res (table * list Z) :=
  match alloc (next_row_id t) (map fst adds) with
  | None => Err EEnv
  | Some ids =>
      if existsb (row_exists t) ids then Err EEnv       (* docactions: AddRecord for existing record *)
      else Ok (fold_left doc_add_row (combine ids (map (fun a => new_cells e (snd a)) adds)) t, ids)
  end.

(* ---------- BulkAddOrUpdateRecord ---------- *)
Fixpoint dedup {A} (eqb : A -> A -> bool) (l : list A) : list A :=
  match l with [] => [] | x :: t => if mem eqb x t then dedup eqb t else x :: dedup eqb t end.

Fixpoint set_nth {A} (n : nat) (x : A) (l : list A) : list A :=
  match l, n with
  | [], _ => []
  | _ :: t, O => x :: t
  | y :: t, S n' => y :: set_nth n' x t
  end.

Record lstate := {
  s_adds : list add_req; s_new_idx : list nat; s_upds : list upd;
  s_rec_ids : list (list Z); s_upd_ids : list (list Z) }.

Definition drop_id (cs : cells) : cells := filter (fun p => negb (fst p =? id_col)) cs.

Definition loop_body (e : env) (t : table) (o : options) (require add_keys col_values : kv)
                     (st : lstate) (i : nat) : lstate :=
  let recs := lookup e t (row_at i require) in
  let vals := row_at i col_values in
  let st1 :=
    if isnil recs && o_add o then
      let values := row_at i add_keys ++ vals in
      {| s_adds := s_adds st ++ [(dget id_col values, drop_id values)];
         s_new_idx := s_new_idx st ++ [i];
         s_upds := s_upds st; s_rec_ids := s_rec_ids st; s_upd_ids := s_upd_ids st |}
    else st in
  if negb (isnil recs) && o_update o then
    let multi := (1 <? length recs)%nat in
    match multi, o_on_many o with
    | true, OnNone => st1                                            (* continue *)
    | _, om =>
        let recs' := match multi, om with true, OnFirst => firstn 1 recs | _, _ => recs end in
        {| s_adds := s_adds st1; s_new_idx := s_new_idx st1;
           s_upds := s_upds st1 ++ map (fun r => (r, vals)) recs';
           s_rec_ids := set_nth i recs' (s_rec_ids st1);
           s_upd_ids := s_upd_ids st1 ++ [recs'] |}
    end
  else st1.

Definition all_lists (require col_values : kv) : list (list val) := map snd require ++ map snd col_values.

(* the part after the argument checks: accumulate, then one BulkAddRecord and one BulkUpdateRecord *)
Definition upsert_core (e : env) (t : table) (require col_values : kv) (o : options) (len : nat)
  : res (table * retval) :=
  let add_keys := filter (fun p => settable e (fst p)) require in
  let st := fold_left (loop_body e t o require add_keys col_values) (seq 0 len)
              {| s_adds := []; s_new_idx := []; s_upds := [];
                 s_rec_ids := repeat [] len; s_upd_ids := [] |} in
  if (negb (isnil (s_adds st)) || negb (isnil (s_upds st)))
     && negb (forallb (fun p => writable e (fst p)) col_values) then Err EEnv else
  match (if isnil (s_adds st) then Ok (t, []) else bulk_add e t (s_adds st)) with
  | Err x => Err x
  | Ok (t1, new_ids) =>
      let rec_ids := fold_left (fun acc (p : nat * Z) => set_nth (fst p) [snd p] acc)
                               (combine (s_new_idx st) new_ids) (s_rec_ids st) in
      let t2 := if isnil (s_upds st) then t1 else bulk_update e t1 (s_upds st) in
      Ok (t2, {| r_record_ids := rec_ids; r_add_ids := new_ids; r_update_ids := s_upd_ids st |})
  end.

Definition upsert (e : env) (t : table) (require col_values : kv) (o : options) : res (table * retval) :=
  match o_on_many o with OnBad => Err EOnMany | _ =>
  if isnil require && negb (o_allow_empty o) then Err EEmptyRequire else
  if isnil require && isnil col_values then Ok (t, empty_ret) else
  match dedup Nat.eqb (map (@length val) (all_lists require col_values)) with
  | [len] =>
      let keys := map (fun i => map snd (row_at i require)) (seq 0 len) in
      if negb (isnil require) && (length (dedup (list_eqb val_eqb) keys) <? len)%nat then Err EUnique else
      if negb (forallb (fun p => known e (fst p)) require) then Err EEnv else            (* KeyError *)
      upsert_core e t require col_values o len
  | _ => Err ELengths
  end end.

(* ---------- AddOrUpdateRecord ---------- *)
Inductive action := ANone | AAdd | AUpdate.
Definition single_kv (d : cells) : kv := map (fun p => (fst p, [snd p])) d.
Definition upsert_single (e : env) (t : table) (require col_values : cells) (o : options)
  : res (table * (list Z * action)) :=
  if isnil require && isnil col_values then Ok (t, ([], ANone)) else
  match upsert e t (single_kv require) (single_kv col_values) o with
  | Err x => Err x
  | Ok (t', r) =>
      match r_record_ids r with
      | [] => Ok (t', ([], ANone))
      | ids :: _ =>
          Ok (t', (ids, if negb (isnil (r_update_ids r)) then AUpdate
                        else if negb (isnil (r_add_ids r)) then AAdd else ANone))
      end
  end.

(* ================= reference specification ================= *)
(* What one input row asks for, decided on the PRE-CALL table only. *)
Inductive outcome := ONothing | OAdd | OUpdate (ids : list Z).
Definition ref_outcome (e : env) (t : table) (o : options) (req : cells) : outcome :=
  match lookup e t req with
  | [] => if o_add o then OAdd else ONothing
  | [r] => if o_update o then OUpdate [r] else ONothing
  | r :: rest =>
      if o_update o then
        match o_on_many o with OnFirst => OUpdate [r] | OnAll => OUpdate (r :: rest) | _ => ONothing end
      else ONothing
  end.

Inductive resolved := RNothing | RAdd (id : Z) | RUpdate (ids : list Z).

Definition inrow := (cells * cells)%type.           (* one input row: its require cells, its col_values cells *)
Definition rows_of (len : nat) (require col_values : kv) : list inrow :=
  map (fun i => (row_at i require, row_at i col_values)) (seq 0 len).

(* values of a record created for an input row: the settable require cells, overridden by col_values *)
Definition add_values (e : env) (r : inrow) : cells := filter (fun p => settable e (fst p)) (fst r) ++ snd r.

(* Rows are carried out one after the other on the evolving table `cur`; `next` is the next automatic row id
   (automatic ids start above every existing and every explicitly requested id, see ref_core).  A new record
   needs an id that is positive and not in use. *)
Fixpoint ref_run (e : env) (t0 : table) (o : options) (cur : table) (next : Z) (rows : list inrow)
  : res (table * list resolved) :=
  match rows with
  | [] => Ok (cur, [])
  | r :: rest =>
      match ref_outcome e t0 o (fst r) with
      | ONothing =>
          match ref_run e t0 o cur next rest with
          | Ok (t', l) => Ok (t', RNothing :: l) | Err x => Err x end
      | OUpdate ids =>
          match ref_run e t0 o (apply_upds e (map (fun i => (i, snd r)) ids) cur) next rest with
          | Ok (t', l) => Ok (t', RUpdate ids :: l) | Err x => Err x end
      | OAdd =>
          let values := add_values e r in
          match kind (dget id_col values) with
          | IBad => Err EEnv
          | k =>
              let i := match k with IExplicit n => n | _ => next end in
              let next' := match k with IExplicit _ => next | _ => next + 1 end in
              if (0 <? i) && negb (memz i (ids_of cur)) then
                match ref_run e t0 o (cur ++ [(i, new_cells e (drop_id values))]) next' rest with
                | Ok (t', l) => Ok (t', RAdd i :: l) | Err x => Err x end
              else Err EEnv
          end
      end
  end.

Definition ret_of (l : list resolved) : retval :=
  {| r_record_ids := map (fun x => match x with RNothing => [] | RAdd i => [i] | RUpdate ids => ids end) l;
     r_add_ids := flat_map (fun x => match x with RAdd i => [i] | _ => [] end) l;
     r_update_ids := flat_map (fun x => match x with RUpdate ids => [ids] | _ => [] end) l |}.

(* the four argument errors, stated on the arguments *)
Definition bad_on_many (o : options) : bool := match o_on_many o with OnBad => true | _ => false end.
Definition empty_require_refused (require : kv) (o : options) : bool := isnil require && negb (o_allow_empty o).
Definition all_same (ns : list nat) : option nat :=
  match ns with [] => None | n :: t => if forallb (Nat.eqb n) t then Some n else None end.
Definition common_length (ls : list (list val)) : option nat := all_same (map (@length val) ls).
Fixpoint has_dup {A} (eqb : A -> A -> bool) (l : list A) : bool :=
  match l with [] => false | x :: t => mem eqb x t || has_dup eqb t end.
Definition duplicate_keys (len : nat) (require : kv) : bool :=
  negb (isnil require) && has_dup (list_eqb val_eqb) (map (fun r => map snd (fst r)) (rows_of len require [])).

(* the argument error a call must be rejected with, if any (in the order of the documentation) *)
Definition arg_error (require col_values : kv) (o : options) : option error :=
  if bad_on_many o then Some EOnMany else
  if empty_require_refused require o then Some EEmptyRequire else
  if isnil require && isnil col_values then None else
  match common_length (all_lists require col_values) with
  | None => Some ELengths
  | Some len => if duplicate_keys len require then Some EUnique else None
  end.

Definition is_nothing (x : outcome) : bool := match x with ONothing => true | _ => false end.

(* all update entries / explicit ids of new records the input rows ask for, in input order *)
Definition ref_upds (e : env) (t : table) (o : options) (rows : list inrow) : list upd :=
  flat_map (fun r => match ref_outcome e t o (fst r) with
                     | OUpdate ids => map (fun i => (i, snd r)) ids | _ => [] end) rows.
Definition ref_explicit (e : env) (t : table) (o : options) (rows : list inrow) : list (option val) :=
  flat_map (fun r => match ref_outcome e t o (fst r) with
                     | OAdd => [dget id_col (add_values e r)] | _ => [] end) rows.

Definition ref_core (e : env) (t : table) (require col_values : kv) (o : options) (len : nat)
  : res (table * retval) :=
  let rows := rows_of len require col_values in
  if negb (forallb (fun r => is_nothing (ref_outcome e t o (fst r))) rows)
     && negb (forallb (fun p => writable e (fst p)) col_values) then Err EEnv else
  match ref_run e t o t (start_id (next_row_id t) (ref_explicit e t o rows)) rows with
  | Err x => Err x
  | Ok (t', l) => Ok (t', ret_of l)
  end.

Definition ref_upsert (e : env) (t : table) (require col_values : kv) (o : options) : res (table * retval) :=
  match arg_error require col_values o with
  | Some x => Err x
  | None =>
      if isnil require && isnil col_values then Ok (t, empty_ret) else
      match common_length (all_lists require col_values) with
      | None => Err ELengths
      | Some len =>
          if negb (forallb (fun p => known e (fst p)) require) then Err EEnv else
          ref_core e t require col_values o len
      end
  end.

Definition ref_single (e : env) (t : table) (require col_values : cells) (o : options)
  : res (table * (list Z * action)) :=
  if isnil require && isnil col_values then Ok (t, ([], ANone)) else
  match ref_upsert e t (single_kv require) (single_kv col_values) o with
  | Err x => Err x
  | Ok (t', r) =>
      Ok (t', match ref_outcome e t o require with
              | ONothing => ([], ANone)
              | OUpdate ids => (ids, AUpdate)
              | OAdd => (r_add_ids r, AAdd)
              end)
  end.

(* ---------- used in the proofs: trimming is harmless when no stale last entry exists ---------- *)
Fixpoint last_for (i : Z) (us : list upd) : option upd :=
  match us with
  | [] => None
  | u :: t => match last_for i t with Some l => Some l | None => if fst u =? i then Some u else None end
  end.
(* whenever some input row really changes a record, the LAST input row that updates this record also does *)
Definition stale_free (e : env) (t : table) (us : list upd) : bool :=
  forallb (fun u => implb (changed e t u)
                          (match last_for (fst u) us with Some l => changed e t l | None => true end)) us.
Fixpoint nodupb (l : list Z) : bool := match l with [] => true | x :: t => negb (memz x t) && nodupb t end.
(* for the correspondence cases: tables in row-id order, finite conversion tables *)
Fixpoint insert_row (r : row) (l : table) : table :=
  match l with [] => [r] | q :: t => if fst r <=? fst q then r :: l else q :: insert_row r t end.
Definition sort_rows (t : table) : table := fold_right insert_row [] t.
Definition table_after {A} (t : table) (r : res (table * A)) : table := match r with Ok (t', _) => t' | Err _ => t end.

(* finite conversion tables (the harness tabulates column.convert for the values of a case) *)
Fixpoint tab_find {B} (c : col) (v : val) (l : list (col * val * B)) : option B :=
  match l with
  | [] => None
  | (k, w, b) :: t => if (k =? c) && val_eqb w v then Some b else tab_find c v t
  end.
Definition conv_tab (l : list (col * val * val)) (c : col) (v : val) : val :=
  match tab_find c v l with Some b => b | None => v end.
Definition key_tab (l : list (col * val * option val)) (c : col) (v : val) : option val :=
  match tab_find c v l with Some b => b | None => Some v end.
Definition error_eqb (a b : error) : bool :=
  match a, b with
  | EOnMany, EOnMany | EEmptyRequire, EEmptyRequire | ELengths, ELengths | EUnique, EUnique | EEnv, EEnv => true
  | _, _ => false
  end.
Definition action_eqb (a b : action) : bool :=
  match a, b with ANone, ANone | AAdd, AAdd | AUpdate, AUpdate => true | _, _ => false end.
Definition ret_eqb (r : retval) (x : list (list Z) * list Z * list (list Z)) : bool :=
  list_eqb (list_eqb Z.eqb) (r_record_ids r) (fst (fst x)) && list_eqb Z.eqb (r_add_ids r) (snd (fst x))
  && list_eqb (list_eqb Z.eqb) (r_update_ids r) (snd x).
(* keep only the cells of the listed columns (formula columns are recomputed by the engine, not by the action) *)
Definition project (keep : list col) (t : table) : table :=
  map (fun r => (fst r, filter (fun p => memz (fst p) keep) (snd r))) t.
