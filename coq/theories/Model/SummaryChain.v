(* K5, chained summary tables (C12).  Level 1 summarises a base table; the source table of level i+1 has
   Reference / Reference List group-by columns into the summary table of level i.  When a row of level i is
   auto-removed, the reference clean-up of BulkRemoveRecord (docactions / useractions, outside Model/Summary.v)
   rewrites the references to it in level i+1: in the source cells (Ref -> 0, RefList -> without it) and in the
   key cells of the level-(i+1) summary table (a Ref column there: -> 0).  One round of the loop of
   Engine.apply_user_actions brings every level up to date (full re-evaluation, as settle_loop) and then removes
   the rows with empty groups at all levels at once.

   Tied to the engine by harness/props/c12.py: for every recorded bundle on a table with such columns the
   rewriting between two rounds is recomputed with cleanup_src / cleanup_keys from the ids the lower table lost
   (check_chain_case). *)
From Coq Require Import ZArith List Bool.
Import ListNotations.
Require Import Grist.Model.Summary.
Open Scope Z_scope.

Record level : Type := mkLevel {
  lkinds : list kind;
  lrefs : list bool;               (* which group-by columns refer to the summary table one level down *)
  lprev : list (Z * list Z);       (* entries of the helper column *)
  lsrc : list srow;
  lsumm : list mrow }.

(* ------------------------------------------------------------------ reference clean-up *)

Definition clean_atom (rem : list Z) (a : atom) : atom :=
  match a with AInt j => if mem_z j rem then AInt 0 else a | _ => a end.

Definition keep_atom (rem : list Z) (a : atom) : bool :=
  match a with AInt j => negb (mem_z j rem) | _ => true end.

Definition clean_cell (isref : bool) (rem : list Z) (c : cell) : cell :=
  if isref then
    match c with
    | CAtom a => CAtom (clean_atom rem a)
    | CSeq l => CSeq (filter (keep_atom rem) l)
    | other => other
    end
  else c.

Fixpoint clean_cells (refs : list bool) (rem : list Z) (cells : list cell) : list cell :=
  match refs, cells with
  | b :: rs, c :: cs => clean_cell b rem c :: clean_cells rs rem cs
  | _, cs => cs
  end.

Fixpoint clean_key (refs : list bool) (rem : list Z) (k : key) : key :=
  match refs, k with
  | b :: rs, a :: t => (if b then clean_atom rem a else a) :: clean_key rs rem t
  | _, t => t
  end.

Definition cleanup_src (refs : list bool) (rem : list Z) (src : list srow) : list srow :=
  map (fun r => (fst r, clean_cells refs rem (snd r))) src.

Definition cleanup_keys (refs : list bool) (rem : list Z) (summ : list mrow) : list mrow :=
  map (fun r => (fst r, clean_key refs rem (snd r))) summ.

(* ------------------------------------------------------------------ one round over all levels *)

Definition lpass (lv : level) : list mrow * list (Z * list Z) :=
  pass (lkinds lv) (lprev lv) (lsrc lv) (lsumm lv).

Definition lrows (lv : level) : list orow := with_groups (fst (lpass lv)) (snd (lpass lv)).

Definition empty_group (r : orow) : bool := negb (nonempty_group r).

(* ids of the rows apply_auto_removes removes at this level *)
Definition lremoved (lv : level) : list Z := map oid (filter empty_group (lrows lv)).

(* the level after the round: its own empty rows removed, the references to the rows removed one level down
   rewritten *)
Definition after_round (rem : list Z) (lv : level) : level :=
  mkLevel (lkinds lv) (lrefs lv) (snd (lpass lv))
          (cleanup_src (lrefs lv) rem (lsrc lv))
          (cleanup_keys (lrefs lv) rem (auto_remove (lrows lv))).

Fixpoint chain_step (rem : list Z) (c : list level) : list level :=
  match c with
  | [] => []
  | lv :: t => after_round rem lv :: chain_step (lremoved lv) t
  end.

(* apply_auto_removes() returned False: nothing to remove anywhere *)
Definition chain_quiet (c : list level) : bool :=
  forallb (fun lv => forallb nonempty_group (lrows lv)) c.

(* _bring_all_up_to_date(); while apply_auto_removes(): _bring_all_up_to_date()  -- fuel = number of rounds *)
Fixpoint chain_loop (fuel : nat) (c : list level) : option (list level) :=
  match fuel with
  | O => None
  | S f => if chain_quiet c then Some c else chain_loop f (chain_step [] c)
  end.

(* ------------------------------------------------------------------ for the correspondence check

   One table of the upper level as the engine ran it: per round the order in which helper cells were evaluated
   and the ids the LOWER summary table lost in the removal step after that round.  The source cells and key
   cells of the next round are not taken from the record (as settle_rounds does) but computed with cleanup_src
   / cleanup_keys. *)
Fixpoint settle_chain_trace (kinds : list kind) (refs : list bool) (prev : list (Z * list Z)) (src : list srow)
  (summ : list mrow) (rounds : list (list Z * list Z)) : option (list orow) :=
  match rounds with
  | [] => None
  | (o, rem) :: rest =>
      let '(s1, hs) := pass_o kinds o prev src summ in
      let rows := with_groups s1 hs in
      match rest with
      | [] => if forallb nonempty_group rows then Some rows else None
      | _ => settle_chain_trace kinds refs hs (cleanup_src refs rem src)
                                (cleanup_keys refs rem (auto_remove rows)) rest
      end
  end.

Definition check_chain_case
  (c : (list kind * list bool * list (Z * list Z) * list srow * list mrow * list (list Z * list Z)) * list orow)
  : bool :=
  let '(kinds, refs, prev, src, summ, rounds, expect) := c in
  match settle_chain_trace kinds refs prev src summ rounds with
  | Some rows => orows_eqb rows expect
  | None => false
  end.

(* ------------------------------------------------------------------ the incremental engine on a chain

   As pass_d / settle_trace for one table: in every round every level re-evaluates only the helper cells in its
   dirty set.  SummaryChain_proofs.chain_inc_is_full: when at every round, at every level, the entries left
   alone are up to date (clean_valid - evaluated by the harness on all recorded rounds), this is chain_loop. *)
Definition lpass_d (d : list Z) (lv : level) : list mrow * list (Z * list Z) :=
  pass_d (lkinds lv) d (lprev lv) (lsrc lv) (lsumm lv).

Definition lrows_d (d : list Z) (lv : level) : list orow :=
  with_groups (fst (lpass_d d lv)) (snd (lpass_d d lv)).

Definition lremoved_d (d : list Z) (lv : level) : list Z := map oid (filter empty_group (lrows_d d lv)).

Definition after_round_d (d : list Z) (rem : list Z) (lv : level) : level :=
  mkLevel (lkinds lv) (lrefs lv) (snd (lpass_d d lv))
          (cleanup_src (lrefs lv) rem (lsrc lv))
          (cleanup_keys (lrefs lv) rem (auto_remove (lrows_d d lv))).

(* ds: one dirty set per level *)
Fixpoint chain_step_d (ds : list (list Z)) (rem : list Z) (c : list level) : list level :=
  match c with
  | [] => []
  | lv :: t => after_round_d (hd [] ds) rem lv :: chain_step_d (tl ds) (lremoved_d (hd [] ds) lv) t
  end.

Fixpoint chain_quiet_d (ds : list (list Z)) (c : list level) : bool :=
  match c with
  | [] => true
  | lv :: t => forallb nonempty_group (lrows_d (hd [] ds) lv) && chain_quiet_d (tl ds) t
  end.

(* dss: the dirty sets of the successive rounds; result: the chain before the last round and that round's dirty
   sets (the tables are lrows_d of them) *)
Fixpoint chain_loop_d (dss : list (list (list Z))) (c : list level) : option (list (list Z) * list level) :=
  match dss with
  | [] => None
  | ds :: rest => if chain_quiet_d ds c then Some (ds, c) else chain_loop_d rest (chain_step_d ds [] c)
  end.
