(* C26 -- temporary (negative) row ids within one bundle.
     action_summary.py  ActionSummary.update_new_rows_map / translate_new_row_ids
     column.py          ReferenceColumn / ReferenceListColumn.prepare_new_values, _reject_unresolved_temp_ids
     useractions.py     doBulkAddOrReplace (records the mapping), doBulkUpdateRecord / doBulkRemoveRecord (translate)
   plus a small interpreter of bundles of AddRecord/BulkAddRecord, UpdateRecord/BulkUpdateRecord and
   RemoveRecord/BulkRemoveRecord over tables that each have a Ref column R and a RefList column L, which is what
   harness/props/c26.py compares with the real engine (retValues, row ids and R/L cells of every table).
   Ids are allocated by Model/RowIds.alloc (proved equal to the loops translated from the source).
   Model only: no proofs here. *)
From Coq Require Import ZArith List Bool.
Import ListNotations.
Require Import Grist.Lib.PyPrelude Grist.Lib.PyMonad Grist.Lib.PyTmp Grist.Model.RowIds.
Open Scope Z_scope.

(* ---- the new-rows map of one table: TableDelta.temp_row_ids (a dict) -------------------------------- *)

(* newest binding first; lookup returns the first match, i.e. the value dict.update() left for the key *)
Definition tmap := list (Z * Z).

Fixpoint lookup (a : Z) (tm : tmap) : option Z :=
  match tm with
  | [] => None
  | (k, v) :: t => if k =? a then Some v else lookup a t
  end.

(* `if a and a < 0`: None and 0 are falsy *)
Definition is_temp (a : option Z) : bool := match a with Some z => z <? 0 | None => false end.

(* ActionSummary.update_new_rows_map:
     t.temp_row_ids.update((a, b) for (a, b) in zip(temp_row_ids, final_row_ids) if a and a < 0) *)
Fixpoint map_update (tm : tmap) (temps : list (option Z)) (finals : list Z) : tmap :=
  match temps, finals with
  | a :: ts, b :: fs =>
      map_update (match a with
                  | Some z => if z <? 0 then (z, b) :: tm else tm
                  | None => tm
                  end) ts fs
  | _, _ => tm
  end.

(* ActionSummary.translate_new_row_ids: [t.temp_row_ids.get(r, r) for r in row_ids] *)
Definition tr (tm : tmap) (r : Z) : Z := match lookup r tm with Some f => f | None => r end.
Definition translate (tm : tmap) (ids : list Z) : list Z := map (tr tm) ids.

(* the (temp, final) pairs an add contributes, in order (specification vocabulary) *)
Fixpoint temp_pairs (temps : list (option Z)) (finals : list Z) : list (Z * Z) :=
  match temps, finals with
  | a :: ts, b :: fs =>
      match a with
      | Some z => if z <? 0 then (z, b) :: temp_pairs ts fs else temp_pairs ts fs
      | None => temp_pairs ts fs
      end
  | _, _ => []
  end.

(* maps built by the engine only ever hold negative keys and the positive ids handed out by the filling loop *)
Definition wf_tmap (tm : tmap) : Prop := Forall (fun p => fst p < 0 /\ 0 < snd p) tm.

(* ---- cell values of Ref / RefList columns (after convert()) ----------------------------------------- *)

(* Ref cell: a row id, or anything else (alt text ...), which the code passes through untouched *)
Inductive refval : Type := RInt (z : Z) | ROther (tag : Z).
(* RefList cell: None, a list of row ids, or anything else *)
Inductive reflistval : Type := LNone | LList (l : list Z) | LOther (tag : Z).

Definition tr_ref (tm : tmap) (v : refval) : refval :=
  match v with RInt z => RInt (tr tm z) | ROther _ => v end.
Definition ref_unresolved (v : refval) : bool :=
  match v with RInt z => z <? 0 | ROther _ => false end.

(* ReferenceColumn.prepare_new_values: translate with the TARGET table's map, then _reject_unresolved_temp_ids *)
Definition prepare_ref (tm : tmap) (vals : list refval) : py_result (list refval) :=
  let vs := map (tr_ref tm) vals in
  if existsb ref_unresolved vs then PyErr PyValueError else PyOk vs.

Definition has_negative (l : list Z) : bool := existsb (fun r => r <? 0) l.

(* ReferenceListColumn.prepare_new_values: only lists that hold a negative id are translated *)
Definition tr_list (tm : tmap) (v : reflistval) : reflistval :=
  match v with
  | LList l => if has_negative l then LList (translate tm l) else v
  | _ => v
  end.
Definition list_unresolved (v : reflistval) : bool :=
  match v with LList l => has_negative l | _ => false end.

Definition prepare_reflist (tm : tmap) (vals : list reflistval) : py_result (list reflistval) :=
  let vs := map (tr_list tm) vals in
  if existsb list_unresolved vs then PyErr PyValueError else PyOk vs.

(* ---- documents and bundles --------------------------------------------------------------------------- *)

Definition tid := Z.
Record row : Type := mkrow { r_id : Z; r_ref : refval; r_list : reflistval }.
Definition table := list row.
Definition doc := list (tid * table).
(* per table: (target of its Ref column R, target of its RefList column L) *)
Definition schema := list (tid * (tid * tid)).

Fixpoint get_table (d : doc) (t : tid) : table :=
  match d with
  | [] => []
  | (t', tb) :: rest => if t' =? t then tb else get_table rest t
  end.
Definition set_table (d : doc) (t : tid) (tb : table) : doc :=
  map (fun p => if fst p =? t then (fst p, tb) else p) d.

Fixpoint targets (s : schema) (t : tid) : tid * tid :=
  match s with
  | [] => (t, t)
  | (t', x) :: rest => if t' =? t then x else targets rest t
  end.
Definition ref_target (s : schema) (t : tid) : tid := fst (targets s t).
Definition list_target (s : schema) (t : tid) : tid := snd (targets s t).

Definition maps := tid -> tmap.
Definition no_maps : maps := fun _ => [].
Definition set_map (m : maps) (t : tid) (tm : tmap) : maps := fun t' => if t' =? t then tm else m t'.

Record state : Type := mkstate { st_doc : doc; st_maps : maps }.

Inductive action : Type :=
  | AAdd (t : tid) (ids : list (option Z)) (rv : option (list refval)) (lv : option (list reflistval))
  | AUpdate (t : tid) (ids : list Z) (rv : option (list refval)) (lv : option (list reflistval))
  | ARemove (t : tid) (ids : list Z).

Inductive retval : Type := RetIds (l : list Z) | RetNone.

Definition prepare_opt {A} (f : tmap -> list A -> py_result (list A)) (tm : tmap) (v : option (list A))
  : py_result (option (list A)) :=
  match v with
  | None => PyOk None
  | Some l => match f tm l with PyOk l' => PyOk (Some l') | PyErr e => PyErr e end
  end.

Definition table_ids (tb : table) : list Z := map r_id tb.

(* Engine.add_records on the id, R and L columns: column.set(row_id, value) in request order *)
Definition put_row (tb : table) (r : row) : table :=
  if 0 <? r_id r then
    if py_mem Z.eqb (r_id r) (table_ids tb)
    then map (fun x => if r_id x =? r_id r then r else x) tb
    else tb ++ [r]
  else tb.

Fixpoint new_rows (ids : list Z) (rv : option (list refval)) (lv : option (list reflistval)) : list row :=
  match ids with
  | [] => []
  | i :: rest =>
      mkrow i (match rv with Some (v :: _) => v | _ => RInt 0 end)
              (match lv with Some (v :: _) => v | _ => LNone end)
      :: new_rows rest (match rv with Some l => Some (tl l) | None => None end)
                       (match lv with Some l => Some (tl l) | None => None end)
  end.

(* DocActions.BulkUpdateRecord: col.set(row_id, value) for the columns present, in request order *)
Definition set_cells (tb : table) (i : Z) (rv : option refval) (lv : option reflistval) : table :=
  map (fun x => if r_id x =? i
                then mkrow i (match rv with Some v => v | None => r_ref x end)
                             (match lv with Some v => v | None => r_list x end)
                else x) tb.

Fixpoint update_rows (tb : table) (ids : list Z) (rv : option (list refval)) (lv : option (list reflistval))
  : table :=
  match ids with
  | [] => tb
  | i :: rest =>
      update_rows (set_cells tb i (match rv with Some (v :: _) => Some v | _ => None end)
                                  (match lv with Some (v :: _) => Some v | _ => None end))
                  rest (match rv with Some l => Some (tl l) | None => None end)
                       (match lv with Some l => Some (tl l) | None => None end)
  end.

(* doBulkRemoveRecord's clean-up of references to the removed ids (non-formula Ref/RefList columns):
   Ref -> 0 (_raw_get_without = default); RefList -> the list without them, None when nothing is left *)
Definition clean_ref (gone : list Z) (v : refval) : refval :=
  match v with
  | RInt z => if py_mem Z.eqb z gone then RInt 0 else v
  | _ => v
  end.
Definition clean_list (gone : list Z) (v : reflistval) : reflistval :=
  match v with
  | LList l =>
      if existsb (fun r => py_mem Z.eqb r gone) l
      then match filter (fun r => negb (py_mem Z.eqb r gone)) l with
           | [] => LNone
           | l' => LList l'
           end
      else v
  | _ => v
  end.

Definition clean_doc (s : schema) (t : tid) (gone : list Z) (d : doc) : doc :=
  map (fun p =>
         let '(t', tb) := p in
         (t', map (fun x => mkrow (r_id x)
                                  (if ref_target s t' =? t then clean_ref gone (r_ref x) else r_ref x)
                                  (if list_target s t' =? t then clean_list gone (r_list x) else r_list x)) tb)) d.

(* doBulkUpdateRecord: last = {row_id: i}; keep = sorted(last.values()); row_ids/columns restricted to keep *)
Fixpoint keep_last {A : Type} (ids : list Z) (vals : list A) : list A :=
  match ids, vals with
  | i :: rest, v :: vs => if py_mem Z.eqb i rest then keep_last rest vs else v :: keep_last rest vs
  | _, _ => []
  end.

Definition step (s : schema) (st : state) (a : action) : py_result (state * retval) :=
  let d := st_doc st in
  let m := st_maps st in
  match a with
  | AAdd t ids rv lv =>
      let tb := get_table d t in
      match alloc (next_row_id (table_ids tb)) ids with
      | PyErr e => PyErr e
      | PyOk out =>
          (* the mapping is recorded before values are converted: a row may refer to itself *)
          let m' := set_map m t (map_update (m t) ids out) in
          match prepare_opt prepare_ref (m' (ref_target s t)) rv with
          | PyErr e => PyErr e
          | PyOk rv' =>
              match prepare_opt prepare_reflist (m' (list_target s t)) lv with
              | PyErr e => PyErr e
              | PyOk lv' =>
                  if existsb (fun r => row_in r (table_ids tb)) out then PyErr PyAssertionError
                  else PyOk (mkstate (set_table d t (fold_left put_row (new_rows out rv' lv') tb)) m', RetIds out)
              end
          end
      end
  | AUpdate t ids rv lv =>
      let tb := get_table d t in
      let ids0 := translate (m t) ids in
      (* since fix 060dc6b: a row named more than once keeps its LAST occurrence only, and the values of the
         dropped occurrences are never converted (so they are not checked either) *)
      let ids' := keep_last ids0 ids0 in
      let rv := option_map (keep_last ids0) rv in
      let lv := option_map (keep_last ids0) lv in
      match prepare_opt prepare_ref (m (ref_target s t)) rv with
      | PyErr e => PyErr e
      | PyOk rv' =>
          match prepare_opt prepare_reflist (m (list_target s t)) lv with
          | PyErr e => PyErr e
          | PyOk lv' =>
              if existsb (fun r => negb (row_in r (table_ids tb))) ids' then PyErr PyAssertionError
              else PyOk (mkstate (set_table d t (update_rows tb ids' rv' lv')) m, RetNone)
          end
      end
  | ARemove t ids =>
      let tb := get_table d t in
      let ids' := translate (m t) ids in
      let d1 := set_table d t (filter (fun x => negb (py_mem Z.eqb (r_id x) ids')) tb) in
      (* the clean-up of references uses row_id_set = set(row_ids), computed AFTER the translation *)
      PyOk (mkstate (clean_doc s t (py_set ids') d1) m, RetNone)
  end.

(* a bundle starts with empty maps (a fresh ActionSummary); the first exception rejects the whole bundle *)
Fixpoint run (s : schema) (st : state) (acts : list action) : py_result (state * list retval) :=
  match acts with
  | [] => PyOk (st, [])
  | a :: rest =>
      match step s st a with
      | PyErr e => PyErr e
      | PyOk (st', r) =>
          match run s st' rest with
          | PyOk (st'', rs) => PyOk (st'', r :: rs)
          | PyErr e => PyErr e
          end
      end
  end.

Definition run_bundle (s : schema) (d : doc) (acts : list action) : py_result (doc * list retval) :=
  match run s (mkstate d no_maps) acts with
  | PyOk (st, rs) => PyOk (st_doc st, rs)
  | PyErr e => PyErr e
  end.

(* ---- boolean equalities for the correspondence check ------------------------------------------------- *)

Definition refval_eqb (a b : refval) : bool :=
  match a, b with
  | RInt x, RInt y => x =? y
  | ROther x, ROther y => x =? y
  | _, _ => false
  end.
Definition reflistval_eqb (a b : reflistval) : bool :=
  match a, b with
  | LNone, LNone => true
  | LList x, LList y => py_list_eqb Z.eqb x y
  | LOther x, LOther y => x =? y
  | _, _ => false
  end.
Definition row_eqb (a b : row) : bool :=
  (r_id a =? r_id b) && refval_eqb (r_ref a) (r_ref b) && reflistval_eqb (r_list a) (r_list b).
Definition table_eqb (a b : table) : bool :=
  Nat.eqb (length a) (length b) && nodupb (table_ids a) &&
  forallb (fun x => existsb (row_eqb x) b) a.
Fixpoint doc_eqb (a b : doc) : bool :=
  match a, b with
  | [], [] => true
  | (t, x) :: a', (t', y) :: b' => (t =? t') && table_eqb x y && doc_eqb a' b'
  | _, _ => false
  end.
Definition retval_eqb (a b : retval) : bool :=
  match a, b with
  | RetIds x, RetIds y => py_list_eqb Z.eqb x y
  | RetNone, RetNone => true
  | _, _ => false
  end.
Definition bundle_result_eqb (a b : py_result (doc * list retval)) : bool :=
  py_result_eqb (fun x y => doc_eqb (fst x) (fst y) && py_list_eqb retval_eqb (snd x) (snd y)) a b.

(* ---- specification vocabulary for the theorems of Props/C26.v ---------------------------------------- *)

Definition keys (tm : tmap) : list Z := map fst tm.

(* "the last pair for key a": the characterisation of a lookup in a map built by successive updates *)
Definition last_pair (ps : list (Z * Z)) (a f : Z) : Prop :=
  exists l1 l2, ps = l1 ++ (a, f) :: l2 /\ ~ In a (keys l2).

(* how one row id inside a reference value must come out: a negative id becomes the id its target table's map
   holds for it, anything else stays *)
Definition id_resolved (tm : tmap) (z z' : Z) : Prop :=
  if z <? 0 then lookup z tm = Some z' else z' = z.

Definition ref_resolved (tm : tmap) (v v' : refval) : Prop :=
  match v with
  | RInt z => exists z', v' = RInt z' /\ id_resolved tm z z'
  | ROther _ => v' = v
  end.

Definition list_resolved (tm : tmap) (v v' : reflistval) : Prop :=
  match v with
  | LList l => exists l', v' = LList l' /\ Forall2 (id_resolved tm) l l'
  | _ => v' = v
  end.

Definition wf_maps (m : maps) : Prop := forall t, wf_tmap (m t).

(* the (temp, allocated) pairs a bundle prefix contributed to table t, read off the actions and their retValues *)
Fixpoint bundle_pairs (acts : list action) (rets : list retval) (t : tid) : list (Z * Z) :=
  match acts, rets with
  | AAdd t' ids _ _ :: acts', RetIds out :: rets' =>
      (if t' =? t then temp_pairs ids out else []) ++ bundle_pairs acts' rets' t
  | _ :: acts', _ :: rets' => bundle_pairs acts' rets' t
  | _, _ => []
  end.

