(* C39 -- executable model of the RenameChoices user action (useractions.py UserActions.RenameChoices,
   column.py ChoiceColumn.rename_choices / ChoiceListColumn._rename_cell_choice) and its specification.

   Python                                                     model
   ------                                                     -----
   renames (dict str -> str)                                  renames: association list, first match = dict lookup
   renames.get(value) / renames.get(choice, choice)           ren_get / ren_apply
   ChoiceColumn.rename_choices: enumerate(self._data) with    updates: ALL slots of _data, also slot 0 (the empty
     `value is not None and is_right_type(value)`               record) and the slots of removed rows
   ChoiceColumn._rename_cell_choice                           rename_cell Choice
   ChoiceListColumn._rename_cell_choice                       rename_cell ChoiceList
   pairs = [... if r in table.row_ids]                        only_records (the repair of commit 789e828)
   self.BulkUpdateRecord(table_id, row_ids, {col_id: values}) trim (trim_update_action drops no-op rows), docactions'
                                                              assertion that every row id is a record, apply_updates
   json.loads(rec.filter) for the filters of this column      filt: FEmpty (falsy text), FObj entries, FNotObj
   {k: [rename(v) for v in values] if isinstance(values,      rename_entry: lists are mapped, any other entry is kept
      list) else values ...}                                    (the repair of commit 9e0465d)
   if col_filter != new_filter: ... json.dumps(new_filter)    Some new (the filter text is rewritten) / None (untouched)

   Values are PyVal.val; a choice is VStr s.  The rename targets are strings (see the check's ASSUMPTIONS). *)
From Coq Require Import ZArith List Bool.
Import ListNotations.
Require Import Grist.Lib.PyVal.
Open Scope Z_scope.

Inductive ckind := Choice | ChoiceList.

Definition str := list Z.
Definition renames := list (str * str).

Fixpoint ren_get (ren : renames) (s : str) : option str :=
  match ren with
  | [] => None
  | (k, n) :: rest => if str_eqb k s then Some n else ren_get rest s
  end.

Definition ren_apply (ren : renames) (s : str) : str :=
  match ren_get ren s with Some n => n | None => s end.

Definition is_str (v : val) : bool := match v with VStr _ => true | _ => false end.

(* `choice in renames` for an element of a choice list *)
Definition in_renames (ren : renames) (v : val) : bool :=
  match v with VStr s => match ren_get ren s with Some _ => true | None => false end | _ => false end.

(* renames.get(choice, choice) on a list element / the `rename` helper for filter values *)
Definition rename_elem (ren : renames) (v : val) : val :=
  match v with VStr s => VStr (ren_apply ren s) | x => x end.

(* the guard of rename_choices followed by _rename_cell_choice: Some new value, or None = leave the cell *)
Definition rename_cell (k : ckind) (ren : renames) (v : val) : option val :=
  match k, v with
  | Choice, VStr s => match ren_get ren s with Some n => Some (VStr n) | None => None end
  | ChoiceList, VTuple l | ChoiceList, VList l =>
      if forallb is_str l then
        if existsb (in_renames ren) l then Some (VTuple (map (rename_elem ren) l)) else None
      else None
  | _, _ => None
  end.

(* rename_choices: (row_ids, values) over every slot of _data *)
Fixpoint updates_from (k : ckind) (ren : renames) (i : nat) (data : list val) : list (nat * val) :=
  match data with
  | [] => []
  | v :: t => match rename_cell k ren v with
              | Some n => (i, n) :: updates_from k ren (S i) t
              | None => updates_from k ren (S i) t
              end
  end.
Definition updates (k : ckind) (ren : renames) (data : list val) : list (nat * val) := updates_from k ren 0 data.

(* `row_id in table.row_ids` *)
Definition is_record (ids : list Z) (i : nat) : bool :=
  (0 <? i)%nat && (i <? length ids)%nat && (0 <? nth i ids 0).

Fixpoint set_nth (i : nat) (x : val) (l : list val) : list val :=
  match l, i with
  | [], _ => []
  | _ :: t, O => x :: t
  | y :: t, S j => y :: set_nth j x t
  end.

(* column.set(row_id, value) for each pair *)
Fixpoint apply_updates (data : list val) (ups : list (nat * val)) : list val :=
  match ups with
  | [] => data
  | (i, x) :: rest => apply_updates (set_nth i x data) rest
  end.

Inductive error := ErrAssertion | ErrTypeError | ErrAttributeError.
Inductive result (A : Type) : Type := Ok (a : A) | Err (e : error).
Arguments Ok {A} a.
Arguments Err {A} e.

(* Engine.trim_update_action (called by doBulkUpdateRecord before the doc action is built): rows whose new
   value == the stored one are dropped *)
(* RenameChoices keeps only the pairs whose row id is a record (`if r in table.row_ids`): rename_choices scans
   the whole storage, also slot 0 and the slots of removed rows, which hold the default value *)
Definition only_records (ids : list Z) (ups : list (nat * val)) : list (nat * val) :=
  filter (fun u => is_record ids (fst u)) ups.

(* Engine.trim_update_action (called by doBulkUpdateRecord before the doc action is built): rows whose new
   value == the stored one are dropped *)
Definition trim (data : list val) (ups : list (nat * val)) : list (nat * val) :=
  filter (fun u => negb (py_eq (snd u) (nth (fst u) data VNone))) ups.

(* the data half of RenameChoices on a non-formula column; the assertion of docactions.BulkUpdateRecord is
   still modelled (it is proved unreachable) *)
Definition rename_column (k : ckind) (ren : renames) (ids : list Z) (data : list val) : result (list val) :=
  let ups := trim data (only_records ids (updates k ren data)) in
  if forallb (fun u => is_record ids (fst u)) ups then Ok (apply_updates data ups) else Err ErrAssertion.

(* ---- filters *)

Inductive fentry :=
| FList (l : list val)          (* "included": [...] *)
| FOther (tok : Z).             (* any other JSON value (a number, a relative-date object, ...), identified by a
                                   token: `... if isinstance(values, list) else values` keeps it as it is *)

Inductive filt :=
| FEmpty                        (* '' : `if not rec.filter: continue` *)
| FObj (entries : list (str * fentry))
| FNotObj.                      (* JSON that is not an object: .items() raises AttributeError *)

Definition rename_entry (ren : renames) (e : fentry) : fentry :=
  match e with
  | FList l => FList (map (rename_elem ren) l)
  | FOther t => FOther t
  end.

Definition rename_entries (ren : renames) (es : list (str * fentry)) : list (str * fentry) :=
  map (fun ke => (fst ke, rename_entry ren (snd ke))) es.

Definition fentry_eqb (a b : fentry) : bool :=
  match a, b with
  | FList l, FList m => vals_eqb l m
  | FOther s, FOther t => Z.eqb s t
  | _, _ => false
  end.

(* col_filter == new_filter *)
Fixpoint entries_eqb (a b : list (str * fentry)) : bool :=
  match a, b with
  | [], [] => true
  | (i, x) :: a', (j, y) :: b' => str_eqb i j && fentry_eqb x y && entries_eqb a' b'
  | _, _ => false
  end.

(* Some new = the record's filter is rewritten to json.dumps(new); None = the record is not touched *)
Definition rename_filter (ren : renames) (f : filt) : result (option (list (str * fentry))) :=
  match f with
  | FEmpty => Ok None
  | FNotObj => Err ErrAttributeError
  | FObj es => let new := rename_entries ren es in Ok (if entries_eqb es new then None else Some new)
  end.

(* the loop over filters.filter_records(colRef=colRef); records of other columns are never looked at *)
Fixpoint rename_filters (ren : renames) (colref : Z) (fs : list (Z * filt))
  : result (list (option (list (str * fentry)))) :=
  match fs with
  | [] => Ok []
  | (cr, f) :: rest =>
      if Z.eqb cr colref then
        match rename_filter ren f with
        | Err x => Err x
        | Ok o => match rename_filters ren colref rest with Err x => Err x | Ok r => Ok (o :: r) end
        end
      else
        match rename_filters ren colref rest with Err x => Err x | Ok r => Ok (None :: r) end
  end.

(* ---- the whole action *)

Record state := mkState {
  s_ids : list Z;                       (* the table's _id_column._data *)
  s_cols : list (str * list val);       (* data of the table's columns (all slots) *)
  s_filters : list (Z * filt)           (* _grist_Filters records in row id order: colRef, parsed filter *)
}.

Definition outcome := (list (str * list val) * list (option (list (str * fentry))))%type.

(* the target column is looked up by id among the table's columns; the others are not touched *)
Fixpoint rename_cols (k : ckind) (ren : renames) (ids : list Z) (cid : str) (cols : list (str * list val))
  : result (list (str * list val)) :=
  match cols with
  | [] => Ok []
  | (c, data) :: rest =>
      if str_eqb c cid then
        match rename_column k ren ids data with
        | Err x => Err x
        | Ok d => match rename_cols k ren ids cid rest with Err x => Err x | Ok r => Ok ((c, d) :: r) end
        end
      else match rename_cols k ren ids cid rest with Err x => Err x | Ok r => Ok ((c, data) :: r) end
  end.

Definition rename_action (st : state) (cid : str) (k : ckind) (is_formula : bool) (colref : Z) (ren : renames)
  : result outcome :=
  (* "We don't set the values of formula columns, they should just recalculate themselves" *)
  match (if is_formula then Ok (s_cols st) else rename_cols k ren (s_ids st) cid (s_cols st)) with
  | Err x => Err x
  | Ok cols => match rename_filters ren colref (s_filters st) with
               | Err x => Err x
               | Ok fl => Ok (cols, fl)
               end
  end.

(* structural equality of (key, list) association lists *)
Fixpoint cols_eqb (a b : list (str * list val)) : bool :=
  match a, b with
  | [], [] => true
  | (i, l) :: a', (j, m) :: b' => str_eqb i j && vals_eqb l m && cols_eqb a' b'
  | _, _ => false
  end.

(* ------------------------------------------------------------------------------------------------
   Specification: one simultaneous substitution, written per cell. *)

(* the choices a cell holds *)
Definition cell_choices (k : ckind) (v : val) : list str :=
  match k, v with
  | Choice, VStr s => [s]
  | ChoiceList, VTuple l | ChoiceList, VList l =>
      if forallb is_str l then flat_map (fun x => match x with VStr s => [s] | _ => [] end) l else []
  | _, _ => []
  end.

Definition spec_cell (k : ckind) (ren : renames) (v : val) : val :=
  match k, v with
  | Choice, VStr s => VStr (ren_apply ren s)
  | ChoiceList, VTuple l => if forallb is_str l then VTuple (map (rename_elem ren) l) else v
  | ChoiceList, VList l =>
      (* a list cell whose choices are all outside the mapping stays the same object; otherwise the column
         stores the renamed sequence as a tuple *)
      if forallb is_str l && existsb (in_renames ren) l then VTuple (map (rename_elem ren) l) else v
  | _, _ => v
  end.


(* the target column afterwards: every record's cell substituted, the other storage slots as they were *)
Fixpoint spec_data_from (k : ckind) (ren : renames) (ids : list Z) (i : nat) (data : list val) : list val :=
  match data with
  | [] => []
  | v :: t => (if is_record ids i then spec_cell k ren v else v) :: spec_data_from k ren ids (S i) t
  end.
Definition spec_data (k : ckind) (ren : renames) (ids : list Z) (data : list val) : list val :=
  spec_data_from k ren ids 0 data.

(* a saved filter: the by-value lists substituted, every other entry (range bounds) kept *)
Definition spec_entries (ren : renames) (es : list (str * fentry)) : list (str * fentry) :=
  map (fun ke => (fst ke, match snd ke with FList l => FList (map (rename_elem ren) l) | o => o end)) es.

(* Some new content when the substitution changes the filter, None when it leaves it as it is *)
Definition spec_filter (ren : renames) (f : filt) : option (list (str * fentry)) :=
  match f with
  | FObj es => if entries_eqb es (spec_entries ren es) then None else Some (spec_entries ren es)
  | _ => None
  end.

(* the whole action, as the property describes it *)
Definition spec_cols (k : ckind) (ren : renames) (ids : list Z) (cid : str) (is_formula : bool)
  (cols : list (str * list val)) : list (str * list val) :=
  if is_formula then cols
  else map (fun c => if str_eqb (fst c) cid then (fst c, spec_data k ren ids (snd c)) else c) cols.

Definition spec_filters (ren : renames) (colref : Z) (fs : list (Z * filt)) : list (option (list (str * fentry))) :=
  map (fun cf => if Z.eqb (fst cf) colref then spec_filter ren (snd cf) else None) fs.

(* the one remaining side condition: the saved filter text of the column is empty or a JSON object (what the
   application stores); other JSON makes `.items()` raise AttributeError *)
Definition is_object_filter (f : filt) : bool := match f with FNotObj => false | _ => true end.
Definition filters_are_objects (colref : Z) (fs : list (Z * filt)) : Prop :=
  forall cr f, In (cr, f) fs -> cr = colref -> is_object_filter f = true.

(* ------------------------------------------------------------------------------------------------
   Equality tests for the generated correspondence cases. *)

Definition ofilter_eqb (a b : option (list (str * fentry))) : bool :=
  match a, b with
  | None, None => true
  | Some x, Some y => entries_eqb x y
  | _, _ => false
  end.

Fixpoint ofilters_eqb (a b : list (option (list (str * fentry)))) : bool :=
  match a, b with
  | [] , [] => true
  | x :: a', y :: b' => ofilter_eqb x y && ofilters_eqb a' b'
  | _, _ => false
  end.

Definition error_eqb (a b : error) : bool :=
  match a, b with
  | ErrAssertion, ErrAssertion | ErrTypeError, ErrTypeError | ErrAttributeError, ErrAttributeError => true
  | _, _ => false
  end.

Definition outcome_eqb (x y : result outcome) : bool :=
  match x, y with
  | Ok (c1, f1), Ok (c2, f2) => cols_eqb c1 c2 && ofilters_eqb f1 f2
  | Err a, Err b => error_eqb a b
  | _, _ => false
  end.
