(* C14 -- what the code TRANSLATED from records.py / sort_key.py / functions/prevnext.py
   (GristGen.Bisect_gen, written by harness/bs2v.py on every run) refers to: the exception monad, statement
   combinators, and the Coq stand-ins ("bindings") for Python objects and library calls.  No proofs here. *)
From Coq Require Import ZArith List Bool.
Import ListNotations.
Require Import Grist.Model.Bisect.
Open Scope Z_scope.

(* ---- exceptions -------------------------------------------------------------------------------- *)
Inductive exn : Type := ExTypeError | ExValueError | ExOther.
Definition exn_eqb (a b : exn) : bool :=
  match a, b with
  | ExTypeError, ExTypeError | ExValueError, ExValueError | ExOther, ExOther => true
  | _, _ => false
  end.
Inductive exc (A : Type) : Type := OK (a : A) | Raise (e : exn).
Arguments OK {A} a.
Arguments Raise {A} e.
Definition bind {A B} (m : exc A) (f : A -> exc B) : exc B :=
  match m with OK a => f a | Raise e => Raise e end.

(* ---- statements: OK (Some r) = `return r` was executed, OK None = control fell through ---------- *)
Definition flow (T : Type) : Type := exc (option T).
Definition fl_seq {T} (s rest : flow T) : flow T := match s with OK None => rest | r => r end.
(* try: s  except <e>: handler *)
Definition fl_try {T} (s : flow T) (e : exn) (handler : flow T) : flow T :=
  match s with Raise e' => if exn_eqb e' e then handler else Raise e' | r => r end.
(* end of a function body; the translated functions never fall off their end *)
Definition fl_finish {T} (s : flow T) : exc T :=
  match s with OK (Some r) => OK r | OK None => Raise ExOther | Raise e => Raise e end.

(* for (a, b, c) in zip(la, lb, lc): body   (body may return) *)
Fixpoint for_zip3 {A B C T} (body : A -> B -> C -> flow T) (la : list A) (lb : list B) (lc : list C) : flow T :=
  match la, lb, lc with
  | a :: la', b :: lb', c :: lc' => match body a b c with OK None => for_zip3 body la' lb' lc' | r => r end
  | _, _, _ => OK None
  end.

(* acc = []; for x in l: ...; acc.append(f(x))      and     tuple(f(x) for x in l) *)
Fixpoint map_m {A B} (f : A -> exc B) (l : list A) : exc (list B) :=
  match l with
  | [] => OK []
  | x :: t => bind (f x) (fun y => bind (map_m f t) (fun ys => OK (y :: ys)))
  end.

(* ---- values ------------------------------------------------------------------------------------ *)
Definition py_lt_e (a b : val) : exc bool :=
  match py_lt a b with Some r => OK r | None => Raise ExTypeError end.
Definition is_none (a : val) : bool := match a with VNone => true | _ => false end.
Definition is_number (a : val) : bool := match a with VNum _ => true | _ => false end.   (* isinstance(a, Number) *)

(* strings *)
Fixpoint str_startswith (s p : list Z) {struct p} : bool :=
  match p with
  | [] => true
  | c :: p' => match s with [] => false | d :: s' => (c =? d) && str_startswith s' p' end
  end.
Definition str_from (s : list Z) (n : nat) : list Z := skipn n s.      (* s[n:] *)

(* l[i] with Python's negative indexes; IndexError is ExOther *)
Definition list_get {A} (l : list A) (i : Z) : exc A :=
  let j := if i <? 0 then i + Z.of_nat (length l) else i in
  if j <? 0 then Raise ExOther
  else match nth_error l (Z.to_nat j) with Some x => OK x | None => Raise ExOther end.
Definition len_z {A} (l : list A) : Z := Z.of_nat (length l).

(* `values or <other>` for values = None or a tuple *)
Definition vals_truthy (v : option (list val)) : bool :=
  match v with Some (_ :: _) => true | _ => false end.
Definition vals_or (v : option (list val)) (other : exc (list val)) : exc (list val) :=
  match v with Some (x :: t) => OK (x :: t) | _ => other end.

(* ---- objects ----------------------------------------------------------------------------------- *)
(* a Table as SortKey uses it: table.get_column(c) (KeyError = ExOther) and .get_cell_value(row_id) *)
Record pytable : Type := mkPytable {
  tb_has_column : colid -> bool;
  tb_cell : colid -> rowid -> exc val
}.
Definition get_column (t : pytable) (c : colid) : exc unit :=
  if tb_has_column t c then OK tt else Raise ExOther.
Definition cell_value (t : pytable) (c : colid) (r : rowid) : exc val :=
  bind (get_column t c) (fun _ => tb_cell t c r).

(* the SortKey class returned by make_sort_key: its closure (table, col_sort_spec) *)
Record skeyclass : Type := mkCls { cls_table : pytable; cls_spec : list (colid * Z) }.

(* a RecordSet; Record objects are their row ids; FindOps(rs) is rs *)
Record pyrset : Type := mkPyrset {
  p_row_ids : list Z;
  p_sort_key : option skeyclass;
  p_sort_by : bool                  (* truthiness of _sort_by *)
}.
Definition cls_truthy (k : option skeyclass) : bool := match k with Some _ => true | None => false end.
(* using self._sort_key as the class: calling None would raise *)
Definition force_cls (k : option skeyclass) : exc skeyclass :=
  match k with Some c => OK c | None => Raise ExOther end.
Definition mk_record (row_id : Z) : Z := row_id.           (* self._table.Record(row_id, relation) *)
Definition record_truthy (r : Z) : bool := negb (r =? 0).  (* Record.__bool__ *)
Definition to_local_row_id (rs : pyrset) (item : Z) : exc Z := OK item.

(* ---- bisect with key= on objects whose < may raise ----------------------------------------------- *)
Inductive side : Type := BLeft | BRight.
Section BisectM.
  Context {A K : Type} (ltb : K -> K -> exc bool) (keyf : A -> exc K) (l : list A) (x : K).
  Fixpoint bisect_loop_m (s : side) (fuel : nat) (lo hi : Z) : exc Z :=
    match fuel with
    | O => OK lo
    | S f =>
        if lo <? hi then
          let mid := (lo + hi) / 2 in
          match nth_error l (Z.to_nat mid) with
          | Some e =>
              bind (keyf e) (fun k =>
                match s with
                | BLeft => bind (ltb k x) (fun c => if c then bisect_loop_m s f (mid + 1) hi else bisect_loop_m s f lo mid)
                | BRight => bind (ltb x k) (fun c => if c then bisect_loop_m s f lo mid else bisect_loop_m s f (mid + 1) hi)
                end)
          | None => OK lo
          end
        else OK lo
    end.
End BisectM.
(* bisect_func(a, x, key=key) *)
Definition bisect_call {A K} (s : side) (ltb : K -> K -> exc bool) (keyf : A -> exc K) (l : list A) (x : K) : exc Z :=
  bisect_loop_m ltb keyf l x s (S (length l)) 0 (Z.of_nat (length l)).

(* ---- for the differential check of the translator ---------------------------------------------- *)
(* a table given by its rows: (row id, [(column, value)]) *)
Definition table_of (cols : list colid) (rows : list (Z * list (colid * val))) : pytable :=
  mkPytable (fun c => str_mem c cols)
            (fun c r => match r with
                        | RId z => match find (fun p => fst p =? z) rows with
                                   | Some p => match assoc c (snd p) with Some v => OK v | None => Raise ExOther end
                                   | None => Raise ExOther
                                   end
                        | _ => Raise ExOther
                        end).
Inductive outcome : Type := OutZ (z : Z) | OutB (b : bool) | OutErr (e : exn).
Definition out_z (m : exc Z) : outcome := match m with OK z => OutZ z | Raise e => OutErr e end.
Definition out_b (m : exc bool) : outcome := match m with OK b => OutB b | Raise e => OutErr e end.
Definition outcome_eqb (a b : outcome) : bool :=
  match a, b with
  | OutZ x, OutZ y => x =? y
  | OutB x, OutB y => Bool.eqb x y
  | OutErr x, OutErr y => exn_eqb x y
  | _, _ => false
  end.

(* ================================================================================================ *)
(* Vocabulary of the bridging theorems (Proofs/Bisect_bridge.v, Props/C14.v).                        *)

Definition signs_ok (cspec : list (colid * Z)) : Prop := Forall (fun p => snd p = 1 \/ snd p = -1) cspec.
Definition spec_of (cspec : list (colid * Z)) : list bool := map (fun p => snd p =? 1) cspec.
Definition res_of (m : exc Z) : res :=
  match m with OK z => Ok z | Raise ExValueError => ErrValue | Raise _ => ErrOther end.

(* the table behind a SortKey class holds the sort values of the record *)
Definition row_in_table (cls : skeyclass) (r : row) : Prop :=
  map_m (fun p => tb_cell (cls_table cls) (fst p) (RId (rid r))) (cls_spec cls) = OK (rvals r).
Record table_ok (cls : skeyclass) (rows : list row) : Prop := {
  tk_cols : forall p, In p (cls_spec cls) -> tb_has_column (cls_table cls) (fst p) = true;
  tk_rows : forall r, In r rows -> row_in_table cls r;
  tk_min : forall c, tb_cell (cls_table cls) c RNegInf = Raise ExOther;
  tk_max : forall c, tb_cell (cls_table cls) c RPosInf = Raise ExOther
}.
(* a Python RecordSet and the model's record set describe the same thing *)
Record rs_rel (self : pyrset) (spec : list bool) (rows : list row) : Prop := {
  rr_ids : p_row_ids self = map rid rows;
  rr_none : spec = [] -> p_sort_key self = None;
  rr_some : spec <> [] -> exists cls, p_sort_key self = Some cls /\ signs_ok (cls_spec cls) /\
                                       spec_of (cls_spec cls) = spec /\ table_ok cls rows
}.


(* col_sort_spec as the model computes it: (column id, +1 / -1) *)
Definition model_cspec (sort_spec : list (list Z)) : list (colid * Z) :=
  map (fun cs => (fst (split_col_spec cs), if snd (split_col_spec cs) then 1 else -1)) sort_spec.

(* the index the model's bisect returns for the side a bisect function stands for *)
Definition model_bisect (s : side) spec rows x : Z :=
  match s with BLeft => bisect_left (key_lt spec) row_key rows x | BRight => bisect_right (key_lt spec) row_key rows x end.

Definition s_asc := [97; 115; 99].
Definition s_desc := [100; 101; 115; 99].
