(* C19 -- hand-written model of the part of codebuilder.make_formula_body that looks at the syntax tree:
   which nodes are "literals spanning lines" and how their indentation is taken back.  The generated
   counterparts (coq/gen/CodeBuilder_gen.v) are proved equal in Proofs/CodeBuilder_bridge.v. *)
From Coq Require Import ZArith List Bool.
Import ListNotations.
Require Import Grist.Model.Codegen Grist.Model.TextBuilder Grist.Lib.CbPrelude.
Open Scope Z_scope.

(* _multiline_string_nodes: the outermost nodes that are an ast.Constant (whatever the value: str or bytes) or an
   ast.JoinedStr and whose source text holds a line end *)
Definition is_literal_kind (k : nkind) : bool :=
  match k with KConstant _ | KJoinedStr => true | _ => false end.

Fixpoint ml_nodes (n : node) : list node :=
  match n with
  | Node k _ t ch => if is_literal_kind k && mem NL t then [n] else flat_map ml_nodes ch
  end.

Definition dummy_def : list Z := [100; 101; 102; 32; 102; 40; 41; 58; 10].          (* "def f():\n" *)

Definition unindent_patch (ind : list Z) (n : node) : patch :=
  (node_start n, node_end n, node_text n, unindent_re ind (node_text n)).

(* make_formula_body, given the body and the hint of _do_make_formula_body and the tree asttokens parsed from
   "def f():\n" + indented body *)
Definition make_body (formula_body : list Z) (have_ml : bool) (tree : node) (ind : list Z) : res (list Z) :=
  let ib := indent_re ind formula_body in
  if nonempty ind && have_ml then
    bind (replacer_init (dummy_def ++ ib)
            ((0, len dummy_def, dummy_def, []) :: map (unindent_patch ind) (ml_nodes tree)))
         (fun r => Ok (snd r))
  else Ok ib.

(* _do_make_formula_body, the loop over ast.walk(tree) (without the lambda wrapping of IF/ISERR/... arguments):
   the hint "some literal spans lines", and for every Name node whose id starts with DOLLAR the patch `$` -> `rec.`
   at the position mapped back through the Replacer of the temporary text (tables io/oo), when DOLLAR_REGEX
   matches there *)
Definition is_ml_literal (n : node) : bool := is_literal_kind (node_kind n) && mem NL (node_text n).

Definition dollar_patches (formula io oo : list Z) (n : node) : list patch :=
  if is_Name n && starts_with Dollar.s_DOLLAR (name_id n) then
    let ip := get_input_pos io oo (node_start n) in
    if Dollar.dollar_match_at formula ip then [make_patch formula ip (ip + 1) Dollar.s_rec] else []
  else [].

Definition walk_model (formula io oo : list Z) (nodes : list node) : bool * list patch :=
  (existsb is_ml_literal nodes, flat_map (dollar_patches formula io oo) nodes).
