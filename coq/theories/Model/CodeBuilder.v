(* C19 -- hand-written model of the part of codebuilder.make_formula_body that looks at the syntax tree:
   which nodes are "literals spanning lines" and how their indentation is taken back.  The generated
   counterparts (coq/gen/CodeBuilder_gen.v) are proved equal in Proofs/CodeBuilder_bridge.v. *)
From Coq Require Import ZArith List Bool.
Import ListNotations.
Require Import Grist.Model.Codegen Grist.Model.TextBuilder Grist.Lib.CbPrelude.
Open Scope Z_scope.

(* _multiline_string_nodes: the outermost nodes that are an ast.Constant (whatever the value: str or bytes) or an
   ast.JoinedStr and whose source text holds a line end *)
Definition is_literal_kind (k : nkind) : bool :=
  match k with KConstant _ | KJoinedStr => true | _ => false end.

Fixpoint ml_nodes (n : node) : list node :=
  match n with
  | Node k _ t ch => if is_literal_kind k && mem NL t then [n] else flat_map ml_nodes ch
  end.

Definition dummy_def : list Z := [100; 101; 102; 32; 102; 40; 41; 58; 10].          (* "def f():\n" *)

Definition unindent_patch (ind : list Z) (n : node) : patch :=
  (node_start n, node_end n, node_text n, unindent_re ind (node_text n)).

(* make_formula_body, given the body and the hint of _do_make_formula_body and the tree asttokens parsed from
   "def f():\n" + indented body *)
Definition make_body (formula_body : list Z) (have_ml : bool) (tree : node) (ind : list Z) : res (list Z) :=
  let ib := indent_re ind formula_body in
  if nonempty ind && have_ml then
    bind (replacer_init (dummy_def ++ ib)
            ((0, len dummy_def, dummy_def, []) :: map (unindent_patch ind) (ml_nodes tree)))
         (fun r => Ok (snd r))
  else Ok ib.
