(* C41 -- executable model of Engine.fetch_table(table_id, formulas, private, query)  (engine.py), and the
   independent declarative specification it is proved equal to.

   Python                                              model
   ------                                              -----
   table._id_column._data, table.all_columns           t_ids, t_cols (all slots, also row 0 and removed rows)
   for r in table.row_ids                              row_ids: indexes r < size with ids[r] > 0, ascending
   table.get_column(col_id)  (KeyError)                get_column / Err (KeyError col_id)
   values = set(values) / except TypeError: pass       prep_values: QSet (py_set vals) when all hashable, else QList vals
   c.raw_get(r) not in values / except TypeError       cell_in: None is the TypeError of hashing an unhashable cell
   for ... break ... else: row_ids.append(r)           row_ok
   the column loop with formulas/private/"id"/'#'      col_selected
   query None or {}                                    the empty list *)
From Coq Require Import ZArith List Bool.
Import ListNotations.
Require Import Grist.Lib.PyVal.
Open Scope Z_scope.

Record column := mkCol {
  col_id : list Z;          (* column id, code points *)
  col_is_formula : bool;
  col_is_private : bool;
  col_data : list val;      (* BaseColumn._data, indexed by row id *)
  col_default : val         (* getdefault(), returned by raw_get beyond the end of _data *)
}.

Record table := mkTable {
  t_ids : list Z;           (* _id_column._data: ids[r] = r for a live row, 0 otherwise *)
  t_cols : list column      (* all_columns, in order *)
}.

Inductive result (A : Type) : Type :=
| Ok (a : A)
| ErrKeyError (col : list Z).
Arguments Ok {A} a.
Arguments ErrKeyError {A} col.

(* BaseColumn.raw_get *)
Definition raw_get (c : column) (r : Z) : val :=
  match nth_error (col_data c) (Z.to_nat r) with
  | Some v => v
  | None => col_default c
  end.

(* Table.RowIDs.__iter__ *)
Definition row_ids (t : table) : list Z :=
  map Z.of_nat (filter (fun i => 0 <? nth i (t_ids t) 0) (seq 0 (length (t_ids t)))).

(* Table.get_column: all_columns[col_id] *)
Definition get_column (t : table) (cid : list Z) : option column :=
  find (fun c => str_eqb (col_id c) cid) (t_cols t).

(* the requested values of one column after `try: values = set(values) except TypeError: pass` *)
Inductive qvalues : Type :=
| QSet (s : list val)
| QList (l : list val).

Definition prep_values (vals : list val) : qvalues :=
  if forallb hashable vals then QSet (py_set vals) else QList vals.

Definition query := list (list Z * list val).

Fixpoint prepare_query (t : table) (q : query) : result (list (column * qvalues)) :=
  match q with
  | [] => Ok []
  | (cid, vals) :: rest =>
      match get_column t cid with
      | None => ErrKeyError cid
      | Some c =>
          match prepare_query t rest with
          | Ok qc => Ok ((c, prep_values vals) :: qc)
          | ErrKeyError e => ErrKeyError e
          end
      end
  end.

(* `cell in values`; None stands for the TypeError raised when an unhashable cell is looked up in a set *)
Definition cell_in (x : val) (qv : qvalues) : option bool :=
  match qv with
  | QSet s => if hashable x then Some (py_in x s) else None
  | QList l => Some (py_in x l)
  end.

(* the inner for/break/else over query_cols *)
Fixpoint row_ok (qc : list (column * qvalues)) (r : Z) : bool :=
  match qc with
  | [] => true                                  (* no break: row_ids.append(r) *)
  | (c, vs) :: rest =>
      match cell_in (raw_get c r) vs with
      | Some true => row_ok rest r
      | Some false => false                     (* break *)
      | None => false                           (* except TypeError: break *)
      end
  end.

Definition is_virtual_column (cid : list Z) : bool :=
  match cid with 35 :: _ => true | _ => false end.      (* col_id.startswith('#') *)

Definition id_str : list Z := [105; 100].               (* "id" *)

Definition col_selected (formulas private : bool) (c : column) : bool :=
  (formulas || negb (col_is_formula c)) && (private || negb (col_is_private c))
  && negb (str_eqb (col_id c) id_str) && negb (is_virtual_column (col_id c)).

Definition table_data := (list Z * list (list Z * list val))%type.   (* row_ids, columns in order *)

Definition fetch (t : table) (formulas private : bool) (q : query) : result table_data :=
  match prepare_query t q with
  | ErrKeyError e => ErrKeyError e
  | Ok qc =>
      let rows := filter (row_ok qc) (row_ids t) in
      Ok (rows, map (fun c => (col_id c, map (raw_get c) rows)) (filter (col_selected formulas private) (t_cols t)))
  end.

(* ------------------------------------------------------------------------------------------------
   Specification, written without reference to sets, hashing or the loop structure. *)

(* r is the id of a record of t *)
Definition live (t : table) (r : Z) : Prop :=
  0 <= r /\ (Z.to_nat r < length (t_ids t))%nat /\ 0 < nth (Z.to_nat r) (t_ids t) 0.

(* the stored value of column cid in row r is among vals, in the sense of Python's == *)
Definition stored_among (t : table) (r : Z) (cid : list Z) (vals : list val) : Prop :=
  exists c v, get_column t cid = Some c /\ In v vals /\ py_eq (raw_get c r) v = true.

Definition matches (t : table) (q : query) (r : Z) : Prop :=
  forall cid vals, In (cid, vals) q -> stored_among t r cid vals.

(* the same as a boolean filter *)
Definition matchesb (t : table) (q : query) (r : Z) : bool :=
  forallb (fun cv => match get_column t (fst cv) with
                     | Some c => existsb (fun v => py_eq (raw_get c r) v) (snd cv)
                     | None => false
                     end) q.

Definition all_ids (t : table) : list Z :=
  filter (fun r => 0 <? nth (Z.to_nat r) (t_ids t) 0) (map Z.of_nat (seq 0 (length (t_ids t)))).

Definition spec_columns (t : table) (formulas private : bool) (rows : list Z) : list (list Z * list val) :=
  map (fun c => (col_id c, map (raw_get c) rows)) (filter (col_selected formulas private) (t_cols t)).

Definition spec_fetch (t : table) (formulas private : bool) (q : query) : table_data :=
  let rows := filter (matchesb t q) (all_ids t) in (rows, spec_columns t formulas private rows).

(* ------------------------------------------------------------------------------------------------
   Equality test used by the generated correspondence cases (structural, so 1 and True differ). *)

Definition cols_eqb (a b : list (list Z * list val)) : bool :=
  (fix go (a b : list (list Z * list val)) : bool :=
     match a, b with
     | [], [] => true
     | (i, l) :: a', (j, m) :: b' => str_eqb i j && vals_eqb l m && go a' b'
     | _, _ => false
     end) a b.

Definition result_eqb (x y : result table_data) : bool :=
  match x, y with
  | Ok (r1, c1), Ok (r2, c2) => str_eqb r1 r2 && cols_eqb c1 c2
  | ErrKeyError a, ErrKeyError b => str_eqb a b
  | _, _ => false
  end.
