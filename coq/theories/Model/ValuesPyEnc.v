(* Run-time functions for the code GENERATED from objtypes.encode_object / decode_object (harness/ot2v.py ->
   gen/Objtypes_gen.v), on top of Model/ValuesPy.v.  `rec_` is the recursive call: it raises RecursionError when the
   interpreter stack (fuel) is exhausted.  The methods the two functions call on objects (RaisedException.encode_args /
   decode_args, RecordSet._get_encodable_row_ids, attribute reads) are modelled here; their source text is pinned by
   AST equality in the translator. *)
From Coq Require Import ZArith List Bool String.
Import ListNotations.
Require Import Grist.Lib.PyFloat Grist.Model.Values Grist.Model.ValuesPy.
Open Scope Z_scope.

(* try: body / except Exception as e: handler e *)
Definition fl_try_e {E} (body : flow E) (handler : str -> E -> flow E) : flow E :=
  match body with FExc e env => handler e env | _ => body end.

Definition p_list (items : list value) : value := PList LPlain items.

(* a + b for two lists *)
Definition p_list_add (a b : value) : result value :=
  match a, b with
  | PList _ x, PList _ y => Ok (PList LPlain (x ++ y))
  | _, _ => Raise E_Type
  end.

(* value[i], value[i:] *)
Definition p_index (v : value) (i : nat) : result value :=
  match v with
  | PList _ l | PTuple l => match nth_error l i with Some x => Ok x | None => Raise E_Index end
  | _ => Raise E_Type
  end.
Definition p_slice_from (v : value) (i : nat) : result value :=
  match v with
  | PList _ l | PTuple l => Ok (PList LPlain (skipn i l))
  | _ => Raise E_Type
  end.

Definition p_bool (v : value) : result value :=
  match v with PBool b => Ok (PBool b) | _ => Raise E_Type end.      (* only reached for bool instances *)

Definition p_is_pending (v : value) : bool := match v with PPending => true | _ => false end.
Definition p_is_censored (v : value) : bool := match v with PCensored => true | _ => false end.

(* attribute reads *)
Definition p_table_id (v : value) : result value :=          (* value._table.table_id / value.table_id *)
  match v with
  | PRecord t _ | PRecordSet t _ _ _ => Ok (PStr false t)
  | PRecordStub t _ | PRecordSetStub t _ => Ok t
  | _ => Raise E_Attribute
  end.
Definition p_row_id (v : value) : result value :=            (* value._row_id / value.row_id *)
  match v with PRecord _ r => Ok (PInt false r) | PRecordStub _ r => Ok r | _ => Raise E_Attribute end.
Definition p_stub_row_ids (v : value) : result value :=      (* value.row_ids *)
  match v with PRecordSetStub _ rows => Ok rows | _ => Raise E_Attribute end.
Definition p_value_repr (v : value) : result value :=
  match v with PUnmarsh r => Ok r | _ => Raise E_Attribute end.
(* value.tzinfo.zone.name if value.tzinfo else 'UTC' *)
Definition p_zone_name (v : value) : result value :=
  match v with
  | PDateTime _ TzNaive => Ok (PStr false (Str "UTC"))
  | PDateTime _ (TzMoment z _) => Ok (PStr false z)
  | _ => Raise E_Attribute
  end.
(* RecordSet._get_encodable_row_ids *)
Definition p_encodable_row_ids (v : value) : result value :=
  match v with
  | PRecordSet _ RTuple rows _ => Ok (PTuple (map (PInt false) rows))
  | PRecordSet _ _ rows _ => Ok (PList LPlain (map (PInt false) rows))
  | _ => Raise E_Attribute
  end.
(* value.items() *)
Definition p_items (v : value) : result (list (value * value)) :=
  match v with PDict l => Ok l | _ => Raise E_Attribute end.

(* RaisedException.encode_args *)
Definition p_encode_args (rec_ : value -> result value) (v : value) : result value :=
  match v with
  | PErr name msg details None => Ok (PList LPlain (trim_args [name; msg; details; PNone]))
  | PErr name msg details (Some u) =>
      bind (rec_ u) (fun eu => Ok (PList LPlain (trim_args [name; msg; details; PDict [(PStr false (Str "u"), eu)]])))
  | _ => Raise E_Attribute
  end.

(* RaisedException.decode_args( *args ) *)
Definition p_decode_args (rec_ : value -> result value) (args : value) : result value :=
  match args with
  | PList _ [] => Raise E_Assertion
  | PList _ l =>
      let '(name, a1) := shift_or PNone l in
      let '(msg, a2) := shift_or PNone a1 in
      let '(details, a3) := shift_or PNone a2 in
      let '(ui, _) := shift_or (PDict []) a3 in
      match ui with
      | PDict d => match dict_get (Str "u") d with
                   | None => Ok (PErr name msg details None)
                   | Some u => bind (rec_ u) (fun du => Ok (PErr name msg details (Some du)))
                   end
      | _ => Raise E_Attribute
      end
  | _ => Raise E_Type
  end.

(* ReferenceLookup( *args ) *)
Definition p_reflookup (orc : oracles) (args : value) : result value :=
  match args with
  | PList _ [a] => Ok (PRefLookup a (PDict []))
  | PList _ [a; o] => Ok (PRefLookup a (match py_truthy orc o with Some false => PDict [] | _ => o end))
  | _ => Raise E_Type
  end.

(* moment.ts_to_dt(ts, moment.Zone(label)) / moment.ts_to_date(ts) *)
Definition p_ts_to_dt (orc : oracles) (ts label : value) : result value :=
  bind (o_zone_known orc label) (fun known =>
  if negb known then Raise E_Key else
  match label with
  | PStr _ zs => match ts with
                 | PList _ _ | PDict _ | PSet _ => Raise E_Type
                 | _ => ts_to_dt orc ts zs
                 end
  | _ => Raise E_Key
  end).
Definition p_ts_to_date (orc : oracles) (ts : value) : result value :=
  match ts with
  | PList _ _ | PDict _ | PSet _ => Raise E_Type
  | _ => ts_to_date orc ts
  end.
