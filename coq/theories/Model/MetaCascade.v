(* K6 -- the metadata record sets of a Grist document and the cascades of useractions.py that keep the
   references between them resolvable (C09).  Executable model only; proofs are in Proofs/MetaCascade_*.v.

   Source anchors (sandbox/grist): useractions.py doBulkRemoveRecord (back-reference clearing),
   _removeTableRecords, _removeColumnRecords/doRemoveColumns, _removeViewRecords, _removePageRecords,
   _removeViewSectionRecords/_doRemoveViewSectionRecords, _removeViewSectionFieldRecords, doAddTable, AddColumn/
   doAddColumn, doAddView, CreateViewSection/create_plain_view_section/_RebuildViewFields, SetDisplayFormula/
   _add_or_update_helper_col, doAddRule; docmodel.py MetaTableExtras.*.setAutoRemove, DocModel.apply_auto_removes;
   summary.py _get_or_create_summary/create_new_summary_section/update_summary_section (reference level only).

   Only reference-carrying columns of the metadata tables are kept.  A reference is a row id (Z), 0 = none. *)
From Coq Require Import ZArith List Bool.
Import ListNotations.
Open Scope Z_scope.

(* ---------------------------------------------------------------------------------------------- *)
(* records *)

(* _grist_Tables: id, tableId (a name token), primaryViewId, summarySourceTable, rawViewSectionRef,
   recordCardViewSectionRef *)
Record trec := mkT { t_id : Z; t_name : Z; t_pview : Z; t_src : Z; t_raw : Z; t_card : Z }.

(* column kinds, decided by colId: 0 ordinary visible column, 1 hidden (manualSort and other gristHelper columns),
   2 the 'group' column of summary tables, 3 gristHelper_Display*, 4 gristHelper_ConditionalRule*,
   5 gristHelper_RowConditionalRule* *)
Definition K_NORMAL := 0.
Definition K_HIDDEN := 1.
Definition K_GROUP := 2.
Definition K_DISPLAY := 3.
Definition K_RULE := 4.
Definition K_ROWRULE := 5.

(* _grist_Tables_column: id, parentId, kind (from colId), displayCol, visibleCol, summarySourceCol, rules,
   and the table a Ref:/RefList: type points at (0 when the type is not a reference) *)
Record crec := mkC { c_id : Z; c_parent : Z; c_kind : Z; c_display : Z; c_visible : Z; c_src : Z;
                     c_rules : list Z; c_reft : Z }.

(* _grist_Views_section: id, tableRef, parentId (view), rules, "customised" = layoutSpec/options/theme set *)
Record srec := mkS { s_id : Z; s_table : Z; s_view : Z; s_rules : list Z; s_custom : bool }.

(* _grist_Views_section_field: id, parentId (section), colRef, displayCol, visibleCol, rules, widgetOptions set *)
Record frec := mkF { f_id : Z; f_section : Z; f_col : Z; f_display : Z; f_visible : Z; f_rules : list Z;
                     f_wopt : bool }.

(* _grist_Views: ids only.  _grist_TabBar / _grist_Pages: (id, viewRef).  m_schema: the names of the user
   tables of Engine.tables *)
Record meta := mkM { m_tables : list trec; m_columns : list crec; m_views : list Z; m_sections : list srec;
                     m_fields : list frec; m_tabbar : list (Z * Z); m_pages : list (Z * Z);
                     m_schema : list Z }.

Definition empty_meta : meta := mkM [] [] [] [] [] [] [] [].

Inductive res (A : Type) : Type :=
| Ok (a : A)          (* the action succeeds *)
| Fail                (* the engine raises: the bundle fails *)
| Unmodelled.         (* outside the modelled fragment: nothing is claimed *)
Arguments Ok {A} a.
Arguments Fail {A}.
Arguments Unmodelled {A}.

Definition bind {A B} (r : res A) (f : A -> res B) : res B :=
  match r with Ok a => f a | Fail => Fail | Unmodelled => Unmodelled end.

(* ---------------------------------------------------------------------------------------------- *)
(* small helpers *)

Definition mem (x : Z) (l : list Z) : bool := existsb (Z.eqb x) l.
Definition isnil {A} (l : list A) : bool := match l with [] => true | _ => false end.

Fixpoint nodupb (l : list Z) : bool :=
  match l with [] => true | x :: t => negb (mem x t) && nodupb t end.

Fixpoint zlist_eqb (a b : list Z) : bool :=
  match a, b with
  | [], [] => true
  | x :: a', y :: b' => (x =? y) && zlist_eqb a' b'
  | _, _ => false
  end.

(* Table.next_row_id: max + 1 (1 for an empty table) *)
Definition next_id (ids : list Z) : Z := 1 + fold_right Z.max 0 ids.

(* n consecutive ids from a *)
Fixpoint zseq (a : Z) (n : nat) : list Z :=
  match n with O => [] | S k => a :: zseq (a + 1) k end.

Definition tids (m : meta) := map t_id (m_tables m).
Definition cids (m : meta) := map c_id (m_columns m).
Definition sids (m : meta) := map s_id (m_sections m).
Definition fids (m : meta) := map f_id (m_fields m).

Definition find_table (m : meta) (i : Z) := find (fun t => t_id t =? i) (m_tables m).
Definition find_column (m : meta) (i : Z) := find (fun c => c_id c =? i) (m_columns m).
Definition find_section (m : meta) (i : Z) := find (fun s => s_id s =? i) (m_sections m).
Definition find_field (m : meta) (i : Z) := find (fun f => f_id f =? i) (m_fields m).

(* ---------------------------------------------------------------------------------------------- *)
(* doBulkRemoveRecord on one metadata table: the records go, then every Ref/RefList cell of the other
   metadata tables that pointed at them is cleared (Ref -> 0, RefList -> without them) *)

Definition clr (ids : list Z) (x : Z) : Z := if mem x ids then 0 else x.
Definition clrl (ids : list Z) (l : list Z) : list Z := filter (fun x => negb (mem x ids)) l.

(* nothing refers to field, tab-bar or page records *)
Definition rm_fields (ids : list Z) (m : meta) : meta :=
  mkM (m_tables m) (m_columns m) (m_views m) (m_sections m)
      (filter (fun f => negb (mem (f_id f) ids)) (m_fields m)) (m_tabbar m) (m_pages m) (m_schema m).

Definition rm_tabbar (ids : list Z) (m : meta) : meta :=
  mkM (m_tables m) (m_columns m) (m_views m) (m_sections m) (m_fields m)
      (filter (fun b => negb (mem (fst b) ids)) (m_tabbar m)) (m_pages m) (m_schema m).

Definition rm_pages (ids : list Z) (m : meta) : meta :=
  mkM (m_tables m) (m_columns m) (m_views m) (m_sections m) (m_fields m) (m_tabbar m)
      (filter (fun b => negb (mem (fst b) ids)) (m_pages m)) (m_schema m).

(* sections: referred to by tables.rawViewSectionRef/recordCardViewSectionRef and fields.parentId *)
Definition rm_sections (ids : list Z) (m : meta) : meta :=
  mkM (map (fun t => mkT (t_id t) (t_name t) (t_pview t) (t_src t) (clr ids (t_raw t)) (clr ids (t_card t)))
           (m_tables m))
      (m_columns m) (m_views m)
      (filter (fun s => negb (mem (s_id s) ids)) (m_sections m))
      (map (fun f => mkF (f_id f) (clr ids (f_section f)) (f_col f) (f_display f) (f_visible f) (f_rules f)
                         (f_wopt f)) (m_fields m))
      (m_tabbar m) (m_pages m) (m_schema m).

(* views: referred to by sections.parentId, tabbar.viewRef, pages.viewRef, tables.primaryViewId *)
Definition rm_views (ids : list Z) (m : meta) : meta :=
  mkM (map (fun t => mkT (t_id t) (t_name t) (clr ids (t_pview t)) (t_src t) (t_raw t) (t_card t)) (m_tables m))
      (m_columns m)
      (filter (fun v => negb (mem v ids)) (m_views m))
      (map (fun s => mkS (s_id s) (s_table s) (clr ids (s_view s)) (s_rules s) (s_custom s)) (m_sections m))
      (m_fields m)
      (map (fun b => (fst b, clr ids (snd b))) (m_tabbar m))
      (map (fun b => (fst b, clr ids (snd b))) (m_pages m))
      (m_schema m).

(* columns: referred to by columns.displayCol/visibleCol/summarySourceCol/rules, fields.colRef/displayCol/
   visibleCol/rules, sections.rules.  The clearing of a column record goes through _updateColumnRecords, and
   _adjust_one_column_update copies a cleared displayCol/visibleCol of a column of an ordinary table to the
   group-by columns based on it (summaryGroupByColumns). *)
Definition is_summary_table (m : meta) (tref : Z) : bool :=
  existsb (fun t => (t_id t =? tref) && negb (t_src t =? 0)) (m_tables m).

Definition display_cleared (ids : list Z) (m : meta) : list Z :=
  map c_id (filter (fun c => mem (c_display c) ids && negb (mem (c_id c) ids)
                             && negb (is_summary_table m (c_parent c))) (m_columns m)).
Definition visible_cleared (ids : list Z) (m : meta) : list Z :=
  map c_id (filter (fun c => mem (c_visible c) ids && negb (mem (c_id c) ids)
                             && negb (is_summary_table m (c_parent c))) (m_columns m)).

Definition rm_columns (ids : list Z) (m : meta) : meta :=
  let dc := display_cleared ids m in
  let vc := visible_cleared ids m in
  mkM (m_tables m)
      (map (fun c => mkC (c_id c) (c_parent c) (c_kind c)
                         (if mem (c_src c) dc then 0 else clr ids (c_display c))
                         (if mem (c_src c) vc then 0 else clr ids (c_visible c))
                         (clr ids (c_src c)) (clrl ids (c_rules c)) (c_reft c))
           (filter (fun c => negb (mem (c_id c) ids)) (m_columns m)))
      (m_views m)
      (map (fun s => mkS (s_id s) (s_table s) (s_view s) (clrl ids (s_rules s)) (s_custom s)) (m_sections m))
      (map (fun f => mkF (f_id f) (f_section f) (clr ids (f_col f)) (clr ids (f_display f))
                         (clr ids (f_visible f)) (clrl ids (f_rules f)) (f_wopt f)) (m_fields m))
      (m_tabbar m) (m_pages m) (m_schema m).

(* tables: referred to by columns.parentId, sections.tableRef, tables.summarySourceTable; the RemoveTable doc
   actions drop the names from Engine.tables *)
Definition rm_tables (ids : list Z) (m : meta) : meta :=
  let names := map t_name (filter (fun t => mem (t_id t) ids) (m_tables m)) in
  mkM (map (fun t => mkT (t_id t) (t_name t) (t_pview t) (clr ids (t_src t)) (t_raw t) (t_card t))
           (filter (fun t => negb (mem (t_id t) ids)) (m_tables m)))
      (map (fun c => mkC (c_id c) (clr ids (c_parent c)) (c_kind c) (c_display c) (c_visible c) (c_src c)
                         (c_rules c) (clr ids (c_reft c))) (m_columns m))
      (m_views m)
      (map (fun s => mkS (s_id s) (clr ids (s_table s)) (s_view s) (s_rules s) (s_custom s)) (m_sections m))
      (m_fields m) (m_tabbar m) (m_pages m)
      (filter (fun n => negb (mem n names)) (m_schema m)).

(* An update of displayCol/visibleCol of a formula column of a summary table is copied by
   _adjust_one_column_update to its sister columns (same colId in the other summary tables of the source);
   column names are not modelled, so removals that clear such a cell are outside the modelled fragment. *)
Definition sister_hazard (ids : list Z) (m : meta) : bool :=
  existsb (fun c => negb (mem (c_id c) ids) && (c_src c =? 0) && is_summary_table m (c_parent c) &&
                    (mem (c_display c) ids || mem (c_visible c) ids)) (m_columns m).

(* ---------------------------------------------------------------------------------------------- *)
(* derived notions used by the cascades (the private lookup columns of docmodel.MetaTableExtras) *)

(* _grist_Views_section.isRaw / isRecordCard: rec.tableRef.rawViewSectionRef == rec *)
Definition is_raw (m : meta) (s : srec) : bool :=
  existsb (fun t => (t_id t =? s_table s) && (t_raw t =? s_id s)) (m_tables m).
Definition is_card (m : meta) (s : srec) : bool :=
  existsb (fun t => (t_id t =? s_table s) && (t_card t =? s_id s)) (m_tables m).

(* numDisplayColUsers, numRuleColUsers, numRuleTableUsers *)
Definition display_users (m : meta) (h : Z) : nat :=
  length (filter (fun c => c_display c =? h) (m_columns m)) +
  length (filter (fun f => f_display f =? h) (m_fields m)).
Definition rule_col_users (m : meta) (h : Z) : nat :=
  length (filter (fun c => mem h (c_rules c)) (m_columns m)) +
  length (filter (fun f => mem h (f_rules f)) (m_fields m)).
Definition rule_table_users (m : meta) (h : Z) : nat :=
  length (filter (fun s => mem h (s_rules s)) (m_sections m)).

(* _grist_Tables_column.setAutoRemove: a display/rule helper column without users *)
Definition col_unused (m : meta) (c : crec) : bool :=
  ((c_kind c =? K_DISPLAY) && (display_users m (c_id c) =? 0)%nat) ||
  ((c_kind c =? K_RULE) && (rule_col_users m (c_id c) =? 0)%nat) ||
  ((c_kind c =? K_ROWRULE) && (rule_table_users m (c_id c) =? 0)%nat).

(* _grist_Tables.setAutoRemove: a summary table without a non-raw view section *)
Definition table_unused (m : meta) (t : trec) : bool :=
  negb (t_src t =? 0) &&
  negb (existsb (fun s => (s_table s =? t_id t) && negb (is_raw m s)) (m_sections m)).

(* ---------------------------------------------------------------------------------------------- *)
(* removal cascades *)

Definition all_in (ids : list Z) (pool : list Z) : bool := forallb (fun i => mem i pool) ids.

(* _doRemoveViewSectionRecords: the fields of the sections, then the sections (no raw/record-card check) *)
Definition remove_sections_raw (secs : list Z) (m : meta) : meta :=
  let fs := map f_id (filter (fun f => mem (f_section f) secs) (m_fields m)) in
  rm_sections secs (rm_fields fs m).

(* _removeViewSectionRecords: get_record raises on an unknown id; raw and record-card sections are refused *)
Definition remove_sections (secs : list Z) (m : meta) : res meta :=
  if negb (all_in secs (sids m)) then Fail
  else if existsb (fun s => mem (s_id s) secs && (is_raw m s || is_card m s)) (m_sections m) then Fail
  else Ok (remove_sections_raw secs m).

(* _removeViewSectionFieldRecords: fields of a raw section cannot be removed by the user *)
Definition remove_fields (fs : list Z) (m : meta) : res meta :=
  if negb (all_in fs (fids m)) then Fail
  else if existsb (fun f => mem (f_id f) fs &&
                           existsb (fun s => (s_id s =? f_section f) && is_raw m s) (m_sections m)) (m_fields m)
       then Fail
  else Ok (rm_fields fs m).

(* _removeViewRecords: tab-bar items, sections (through the checked user-level removal), pages, the views *)
Definition remove_views (vs : list Z) (m : meta) : res meta :=
  if negb (all_in vs (m_views m)) then Fail
  else
    let m1 := rm_tabbar (map fst (filter (fun b => mem (snd b) vs) (m_tabbar m))) m in
    let secs := map s_id (filter (fun s => mem (s_view s) vs) (m_sections m1)) in
    bind (if isnil secs then Ok m1 else remove_sections secs m1) (fun m2 =>
      let m3 := rm_pages (map fst (filter (fun b => mem (snd b) vs) (m_pages m2))) m2 in
      Ok (rm_views vs m3)).

(* doRemoveColumns, for columns none of which is the source of a group-by column (those first regroup the
   summary sections, see regroup below).  `more`: rules of the fields of the removed columns, display helpers
   of the removed columns and of the columns/fields that use a removed column as visibleCol, rules of the
   removed columns.  The extra columns are removed together with the requested ones by one direct
   doBulkRemoveRecord; a field that shows one of the extra columns is outside the modelled fragment. *)
Definition nonzero (l : list Z) : list Z := filter (fun x => negb (x =? 0)) l.

Definition more_removals (cols : list Z) (m : meta) : list Z :=
  let cs := filter (fun c => mem (c_id c) cols) (m_columns m) in
  let fs := filter (fun f => mem (f_col f) cols) (m_fields m) in
  nonzero (concat (map f_rules fs) ++ map c_display cs
           ++ map c_display (filter (fun c => mem (c_visible c) cols) (m_columns m))
           ++ map f_display (filter (fun f => mem (f_visible f) cols) (m_fields m))
           ++ concat (map c_rules cs)).

Definition remove_columns_core (cols : list Z) (m : meta) : res meta :=
  let fs := map f_id (filter (fun f => mem (f_col f) cols) (m_fields m)) in
  let extra := filter (fun x => negb (mem x cols) && mem x (cids m)) (more_removals cols m) in
  let all := cols ++ extra in
  if existsb (fun f => negb (mem (f_id f) fs) && mem (f_col f) extra) (m_fields m) then Unmodelled
  else if sister_hazard all m then Unmodelled
  else Ok (rm_columns all (rm_fields fs m)).

(* _removeColumnRecords: unknown id raises; group-by columns of summary tables are refused *)
Definition has_groupby_users (cols : list Z) (m : meta) : bool :=
  existsb (fun c => mem (c_src c) cols) (m_columns m).

Definition remove_columns (cols : list Z) (m : meta) : res meta :=
  if negb (all_in cols (cids m)) then Fail
  else if negb (nodupb cols) then Unmodelled
  else if existsb (fun c => mem (c_id c) cols && negb (c_src c =? 0)) (m_columns m) then Fail
  else if has_groupby_users cols m then Unmodelled
  else remove_columns_core cols m.

(* _removeTableRecords: the tables and the summary tables based on them; their sections and fields; every view
   left without a section; their column records and the table records.  Columns of other tables whose type
   refers to a removed table are converted by ModifyColumn first: outside the modelled fragment. *)
(* _convert_reference_col_for_deleted_table on the columns of surviving tables whose type refers to a removed
   table (group-by columns are skipped: they follow their source column): ModifyColumn to a plain type (through
   CopyFromColumn when the column has a visible and a display column, which also takes over the rules of the
   display column, i.e. none).  The type change clears displayCol/visibleCol of the column, of the group-by
   columns based on it, and of the fields that show any of these. *)
Definition convert_refs (tabs : list Z) (m : meta) : meta :=
  let conv := map c_id (filter (fun c => mem (c_reft c) tabs && negb (mem (c_parent c) tabs) && (c_src c =? 0))
                               (m_columns m)) in
  let hits := map c_id (filter (fun c => mem (c_id c) conv || mem (c_src c) conv) (m_columns m)) in
  mkM (m_tables m)
      (map (fun c => if mem (c_id c) conv
                     then mkC (c_id c) (c_parent c) (c_kind c) 0 0 (c_src c)
                              (if negb (c_visible c =? 0) && negb (c_display c =? 0) then [] else c_rules c) 0
                     else if mem (c_src c) conv
                     then mkC (c_id c) (c_parent c) (c_kind c) 0 0 (c_src c) (c_rules c) 0
                     else c) (m_columns m))
      (m_views m) (m_sections m)
      (map (fun f => if mem (f_col f) hits
                     then mkF (f_id f) (f_section f) (f_col f) 0 0 (f_rules f) (f_wopt f) else f) (m_fields m))
      (m_tabbar m) (m_pages m) (m_schema m).

Definition remove_tables (trefs : list Z) (m0 : meta) : res meta :=
  if negb (all_in trefs (tids m0)) then Fail
  else
    let tabs := trefs ++ map t_id (filter (fun t => mem (t_src t) trefs) (m_tables m0)) in
    if negb (nodupb tabs) then Unmodelled
    else
      let m := convert_refs tabs m0 in
      let secs := map s_id (filter (fun s => mem (s_table s) tabs) (m_sections m)) in
      let m1 := remove_sections_raw secs m in
      let vs := filter (fun v => negb (existsb (fun s => s_view s =? v) (m_sections m1))) (m_views m1) in
      bind (if isnil vs then Ok m1 else remove_views vs m1) (fun m2 =>
        let cols := map c_id (filter (fun c => mem (c_parent c) tabs) (m_columns m2)) in
        if sister_hazard cols m2 then Unmodelled else Ok (rm_tables tabs (rm_columns cols m2))).

(* ---------------------------------------------------------------------------------------------- *)
(* additions *)

Definition set_fields (m : meta) (fs : list frec) : meta :=
  mkM (m_tables m) (m_columns m) (m_views m) (m_sections m) fs (m_tabbar m) (m_pages m) (m_schema m).
Definition set_columns (m : meta) (cs : list crec) : meta :=
  mkM (m_tables m) cs (m_views m) (m_sections m) (m_fields m) (m_tabbar m) (m_pages m) (m_schema m).
Definition set_sections (m : meta) (ss : list srec) : meta :=
  mkM (m_tables m) (m_columns m) (m_views m) ss (m_fields m) (m_tabbar m) (m_pages m) (m_schema m).
Definition set_tables (m : meta) (ts : list trec) : meta :=
  mkM ts (m_columns m) (m_views m) (m_sections m) (m_fields m) (m_tabbar m) (m_pages m) (m_schema m).

(* one new field per column, in the given order; ids as Table.next_row_id gives them *)
Definition new_fields (start sec : Z) (cols : list Z) : list frec :=
  map (fun p => mkF (fst p) sec (snd p) 0 0 [] false) (combine (zseq start (length cols)) cols).
Definition add_fields (sec : Z) (cols : list Z) (m : meta) : meta :=
  set_fields m (m_fields m ++ new_fields (next_id (fids m)) sec cols).

Definition add_section (t v : Z) (custom : bool) (m : meta) : meta * Z :=
  let s := next_id (sids m) in (set_sections m (m_sections m ++ [mkS s t v [] custom]), s).

(* _RebuildViewFields for record-like sections: the columns meant for the user (not 'group'), by position *)
Definition visible_cols (m : meta) (t : Z) : list Z :=
  map c_id (filter (fun c => (c_parent c =? t) && (c_kind c =? K_NORMAL)) (m_columns m)).

(* doAddView: view record, tab-bar item, page; for 'raw_data' a record section showing table t *)
Definition add_view (t : Z) (raw_data : bool) (m : meta) : res (meta * Z) :=
  let v := next_id (m_views m) in
  let m1 := mkM (m_tables m) (m_columns m) (m_views m ++ [v]) (m_sections m) (m_fields m)
                (m_tabbar m ++ [(next_id (map fst (m_tabbar m)), v)])
                (m_pages m ++ [(next_id (map fst (m_pages m)), v)]) (m_schema m) in
  if raw_data then
    if negb (mem t (tids m)) then Fail
    else let '(m2, s) := add_section t v false m1 in Ok (add_fields s (visible_cols m2 t) m2, v)
  else Ok (m1, v).

Definition new_columns (start t : Z) (kinds : list Z) : list crec :=
  map (fun p => mkC (fst p) t (snd p) 0 0 0 [] 0) (combine (zseq start (length kinds)) kinds).

(* doAddTable as AddTable/AddEmptyTable/AddRawTable call it: manualSort + the given columns, optional primary
   view, raw section, record-card section.  `name` is the final (sanitised, unique) table id. *)
Definition add_table (name : Z) (kinds : list Z) (pview : bool) (m : meta) : res (meta * Z) :=
  if mem name (m_schema m) || mem name (map t_name (m_tables m)) then Unmodelled
  else
    let t := next_id (tids m) in
    let m0 := mkM (m_tables m ++ [mkT t name 0 0 0 0])
                  (m_columns m ++ new_columns (next_id (cids m)) t (K_HIDDEN :: kinds))
                  (m_views m) (m_sections m) (m_fields m) (m_tabbar m) (m_pages m) (m_schema m ++ [name]) in
    bind (if pview then add_view t true m0 else Ok (m0, 0)) (fun '(m1, v) =>
      let '(m2, sraw) := add_section t 0 false m1 in
      let m3 := add_fields sraw (visible_cols m2 t) m2 in
      let '(m4, scard) := add_section t 0 false m3 in
      let m5 := add_fields scard (visible_cols m4 t) m4 in
      Ok (set_tables m5 (map (fun r => if t_id r =? t then mkT t name v 0 sraw scard else r) (m_tables m5)), t)).

(* the record-card section counts as modified when layoutSpec/options/theme/rules are set or a field of it
   has widgetOptions *)
Definition section_modified (m : meta) (sid : Z) : bool :=
  existsb (fun s => (s_id s =? sid) && (s_custom s || negb (isnil (s_rules s)))) (m_sections m) ||
  existsb (fun f => (f_section f =? sid) && f_wopt f) (m_fields m).

Definition do_add_column (t kind reft : Z) (m : meta) : meta * Z :=
  let c := next_id (cids m) in (set_columns m (m_columns m ++ [mkC c t kind 0 0 0 [] reft]), c).

(* AddHiddenColumn = doAddColumn *)
Definition add_hidden_column (t kind reft : Z) (m : meta) : res (meta * Z) :=
  if mem t (tids m) then Ok (do_add_column t kind reft m) else Fail.

(* AddColumn: the column, a field in the table's raw section, a field in its record-card section unless that
   section was customised *)
Definition add_column (t kind reft : Z) (m : meta) : res meta :=
  match find_table m t with
  | None => Fail
  | Some tr =>
    let '(m1, c) := do_add_column t kind reft m in
    let m2 := if t_raw tr =? 0 then m1 else add_fields (t_raw tr) [c] m1 in
    Ok (if (t_card tr =? 0) || section_modified m2 (t_card tr) then m2 else add_fields (t_card tr) [c] m2)
  end.

(* CreateViewSection without group-by columns.  table 0: AddRawTable (three empty columns) named `newname`;
   view 0: AddView 'empty'.  Card-like sections ('single', 'detail') copy the fields of the table's record-card
   section (plain copies only: display columns and rules of those fields are outside the fragment). *)
Definition create_section (t v : Z) (cardlike : bool) (newname : Z) (m : meta) : res meta :=
  bind (if t =? 0 then add_table newname [K_NORMAL; K_NORMAL; K_NORMAL] false m
        else if mem t (tids m) then Ok (m, t) else Fail) (fun '(m1, t1) =>
  bind (if v =? 0 then add_view t1 false m1
        else if mem v (m_views m1) then Ok (m1, v) else Fail) (fun '(m2, v2) =>
    if cardlike then
      match find_table m2 t1 with
      | None => Fail
      | Some tr =>
        let cf := filter (fun f => f_section f =? t_card tr) (m_fields m2) in
        if existsb (fun f => negb (f_display f =? 0) || negb (f_visible f =? 0) || negb (isnil (f_rules f))) cf
        then Unmodelled
        else
          let custom := existsb (fun s => (s_id s =? t_card tr) && s_custom s) (m_sections m2) in
          let '(m3, s) := add_section t1 v2 custom m2 in
          let start := next_id (fids m3) in
          Ok (set_fields m3 (m_fields m3 ++
                map (fun p => mkF (fst p) s (f_col (snd p)) 0 0 [] (f_wopt (snd p)))
                    (combine (zseq start (length cf)) cf)))
      end
    else
      let '(m3, s) := add_section t1 v2 false m2 in Ok (add_fields s (visible_cols m3 t1) m3))).

(* direct AddRecord of a field (showing a hidden column in a widget) *)
Definition col_of_section (m : meta) (s c : Z) : bool :=
  existsb (fun sr => (s_id sr =? s) &&
                     existsb (fun cr => (c_id cr =? c) && (c_parent cr =? s_table sr)) (m_columns m)) (m_sections m).

Definition add_field (s c : Z) (m : meta) : res meta :=
  if col_of_section m s c then Ok (add_fields s [c] m) else Unmodelled.

(* AddVisibleColumn: AddColumn, then a field in every 'record' section of the table other than the raw one
   (the section kinds are not modelled: the sections are named by the caller and checked to show the table) *)
Fixpoint add_field_each (secs : list Z) (c : Z) (m : meta) : meta :=
  match secs with [] => m | s :: r => add_field_each r c (add_fields s [c] m) end.

Definition add_visible_column (t kind reft : Z) (secs : list Z) (m : meta) : res meta :=
  let c := next_id (cids m) in
  bind (add_column t kind reft m) (fun m1 =>
    if forallb (fun s => col_of_section m1 s c) secs then Ok (add_field_each secs c m1) else Unmodelled).


(* ---------------------------------------------------------------------------------------------- *)
(* display columns and conditional rules *)

Definition upd_column (i : Z) (g : crec -> crec) (m : meta) : meta :=
  set_columns m (map (fun c => if c_id c =? i then g c else c) (m_columns m)).
Definition upd_field (i : Z) (g : frec -> frec) (m : meta) : meta :=
  set_fields m (map (fun f => if f_id f =? i then g f else f) (m_fields m)).
Definition upd_section (i : Z) (g : srec -> srec) (m : meta) : meta :=
  set_sections m (map (fun s => if s_id s =? i then g s else s) (m_sections m)).

Definition with_display (d : Z) (c : crec) : crec :=
  mkC (c_id c) (c_parent c) (c_kind c) d (c_visible c) (c_src c) (c_rules c) (c_reft c).
Definition with_crules (r : list Z) (c : crec) : crec :=
  mkC (c_id c) (c_parent c) (c_kind c) (c_display c) (c_visible c) (c_src c) r (c_reft c).
Definition with_fdisplay (d : Z) (f : frec) : frec :=
  mkF (f_id f) (f_section f) (f_col f) d (f_visible f) (f_rules f) (f_wopt f).
Definition with_frules (r : list Z) (f : frec) : frec :=
  mkF (f_id f) (f_section f) (f_col f) (f_display f) (f_visible f) r (f_wopt f).
Definition with_srules (r : list Z) (s : srec) : srec :=
  mkS (s_id s) (s_table s) (s_view s) r (s_custom s).

(* update of a column record's displayCol through _updateColumnRecords: a cleared displayCol of a column of an
   ordinary table is cleared in the group-by columns based on it as well *)
Definition set_col_display (c d : Z) (m : meta) : meta :=
  let own := existsb (fun cr => (c_id cr =? c) && negb (is_summary_table m (c_parent cr))) (m_columns m) in
  set_columns m (map (fun cr => if (c_id cr =? c) || ((d =? 0) && own && (c_src cr =? c))
                                then with_display d cr else cr) (m_columns m)).

(* _add_or_update_helper_col.  set=false: empty formula.  reuse: the first gristHelper_Display column of the
   table with the same formula text, 0 when there is none (formula texts are not modelled: the caller says) *)
Definition helper_col (t old : Z) (set : bool) (reuse : Z) (m : meta) : res (meta * option Z) :=
  if negb set then Ok (m, Some 0)
  else if (display_users m old =? 1)%nat then Ok (m, None)
  else if reuse =? 0 then let '(m1, h) := do_add_column t K_DISPLAY 0 m in Ok (m1, Some h)
  else if existsb (fun c => (c_id c =? reuse) && (c_parent c =? t) && (c_kind c =? K_DISPLAY)) (m_columns m)
       then Ok (m, Some reuse) else Unmodelled.

Definition field_in_raw (m : meta) (f : frec) : bool :=
  existsb (fun s => (s_id s =? f_section f) && is_raw m s) (m_sections m).

(* SetDisplayFormula table field col formula *)
Definition set_display (t fld col : Z) (set : bool) (reuse : Z) (m : meta) : res meta :=
  if negb (mem t (tids m)) then Fail
  else if negb (fld =? 0) then
    if negb (col =? 0) then Fail else
    match find_field m fld with
    | None => Fail
    | Some f =>
      bind (helper_col t (f_display f) set reuse m) (fun '(m1, r) =>
        match r with
        | None => Ok m1
        | Some d => if d =? f_display f then Ok m1
                    else if field_in_raw m1 f then Fail
                    else Ok (upd_field fld (with_fdisplay d) m1)
        end)
    end
  else if negb (col =? 0) then
    match find_column m col with
    | None => Fail
    | Some c =>
      if (c_src c =? 0) && is_summary_table m (c_parent c) then Unmodelled else
      bind (helper_col t (c_display c) set reuse m) (fun '(m1, r) =>
        match r with
        | None => Ok m1
        | Some d => if d =? c_display c then Ok m1 else Ok (set_col_display col d m1)
        end)
    end
  else Ok m.

(* SetDisplayFormula on a formula column of a summary table: _adjust_one_column_update copies the displayCol
   update to the sister columns (same colId, formula columns of the other summary tables of the source table;
   named by the caller): they all point at the helper column of this table *)
Definition set_display_sisters (t col : Z) (set : bool) (reuse : Z) (sisters : list Z) (m : meta) : res meta :=
  if negb (mem t (tids m)) then Fail
  else match find_column m col with
       | None => Fail
       | Some c =>
         if negb ((c_src c =? 0) && is_summary_table m (c_parent c)) then Unmodelled
         else bind (helper_col t (c_display c) set reuse m) (fun '(m1, r) =>
           match r with
           | None => Ok m1
           | Some d => Ok (set_columns m1 (map (fun x => if (c_id x =? col) || mem (c_id x) sisters
                                                          then with_display d x else x) (m_columns m1)))
           end)
       end.

(* UpdateRecord _grist_Tables_column c {visibleCol: v}, v an existing column (the "show column" of a reference
   column; the client sends it together with SetDisplayFormula).  Formula columns of summary tables copy the
   update to their sister columns: outside the fragment. *)
Definition set_visible (col v : Z) (m : meta) : res meta :=
  match find_column m col with
  | None => Fail
  | Some c =>
    if (v =? 0) || negb (mem v (cids m)) then Unmodelled
    else if (c_src c =? 0) && is_summary_table m (c_parent c) then Unmodelled
    else Ok (upd_column col (fun c => mkC (c_id c) (c_parent c) (c_kind c) (c_display c) v (c_src c) (c_rules c)
                                          (c_reft c)) m)
  end.

(* ModifyColumn with a type among the updated values (given, or guessed when an Any formula column becomes a data
   column), on a column of an ordinary table.  compatible: old and new type are Ref/RefList of the same table:
   nothing else changes.  Otherwise _adjust_one_column_update clears displayCol/visibleCol of the column and of
   the group-by columns based on it, and _updateColumnRecords clears them in the fields of those of these columns
   whose type really changed (changed: the column itself, gchanged: its group-by copies). *)
Definition modify_type (col newreft : Z) (compatible changed gchanged : bool) (m : meta) : res meta :=
  match find_column m col with
  | None => Fail
  | Some c =>
    if is_summary_table m (c_parent c) then Unmodelled
    else if compatible then Ok m
    else
      let copies := map c_id (filter (fun x => c_src x =? col) (m_columns m)) in
      let cleared := (if changed then [col] else []) ++ (if gchanged then copies else []) in
      Ok (mkM (m_tables m)
              (map (fun x => if (c_id x =? col) || (c_src x =? col)
                             then mkC (c_id x) (c_parent x) (c_kind x) 0 0 (c_src x) (c_rules x) newreft else x)
                   (m_columns m))
              (m_views m) (m_sections m)
              (map (fun f => if mem (f_col f) cleared
                             then mkF (f_id f) (f_section f) (f_col f) 0 0 (f_rules f) (f_wopt f) else f) (m_fields m))
              (m_tabbar m) (m_pages m) (m_schema m))
  end.

(* doAddRule: a new helper column in table t, appended to the rules of the field / column / raw section *)
Definition add_rule (t fld col : Z) (m : meta) : res meta :=
  if negb (fld =? 0) then
    match find_field m fld with
    | None => Fail
    | Some f =>
      bind (add_hidden_column t K_RULE 0 m) (fun '(m1, h) =>
        if field_in_raw m1 f then Fail else Ok (upd_field fld (with_frules (f_rules f ++ [h])) m1))
    end
  else if negb (col =? 0) then
    match find_column m col with
    | None => Fail
    | Some c =>
      bind (add_hidden_column t K_RULE 0 m) (fun '(m1, h) => Ok (upd_column col (with_crules (c_rules c ++ [h])) m1))
    end
  else
    match find_table m t with
    | None => Fail
    | Some tr =>
      match find_section m (t_raw tr) with
      | None => Unmodelled
      | Some s =>
        bind (add_hidden_column t K_ROWRULE 0 m) (fun '(m1, h) =>
          Ok (upd_section (s_id s) (with_srules (s_rules s ++ [h])) m1))
      end
    end.

(* direct update of a rules cell to a sublist of itself (the client removes a rule this way).
   owner: 0 column, 1 field, 2 section *)
Definition sublist_of (a b : list Z) : bool := forallb (fun x => mem x b) a.

Definition set_rules (owner i : Z) (r : list Z) (m : meta) : res meta :=
  if owner =? 0 then
    match find_column m i with
    | None => Fail
    | Some c => if sublist_of r (c_rules c) then Ok (upd_column i (with_crules r) m) else Unmodelled
    end
  else if owner =? 1 then
    match find_field m i with
    | None => Fail
    | Some f => if negb (sublist_of r (f_rules f)) then Unmodelled
                else if field_in_raw m f then Fail else Ok (upd_field i (with_frules r) m)
    end
  else
    match find_section m i with
    | None => Fail
    | Some s => if negb (sublist_of r (s_rules s)) then Unmodelled
                else if is_card m s then Fail else Ok (upd_section i (with_srules r) m)
    end.

(* options/theme/layoutSpec of a section set or cleared *)
Definition set_custom (i : Z) (b : bool) (m : meta) : res meta :=
  match find_section m i with
  | None => Fail
  | Some s => Ok (upd_section i (fun s => mkS (s_id s) (s_table s) (s_view s) (s_rules s) b) m)
  end.

(* RenameTable of an ordinary table without summary tables, to the final name *)
Definition rename_table (t name : Z) (m : meta) : res meta :=
  match find_table m t with
  | None => Fail
  | Some tr =>
    if mem name (m_schema m) || negb (t_src tr =? 0) || existsb (fun x => t_src x =? t) (m_tables m)
    then Unmodelled
    else Ok (mkM (map (fun x => if t_id x =? t then mkT t name (t_pview x) (t_src x) (t_raw x) (t_card x) else x)
                      (m_tables m))
                 (m_columns m) (m_views m) (m_sections m) (m_fields m) (m_tabbar m) (m_pages m)
                 (map (fun n => if n =? t_name tr then name else n) (m_schema m)))
  end.

(* ---------------------------------------------------------------------------------------------- *)
(* summary tables, at the level of references.  What summary.py decides from column names, types and formula
   texts (which formula columns a summary table gets, which column a field is moved to) is supplied by the
   caller; the model places the records and runs the cascades. *)

Definition with_fcol (c : Z) (f : frec) : frec :=
  mkF (f_id f) (f_section f) c (f_display f) (f_visible f) (f_rules f) (f_wopt f).
Definition with_stable (t : Z) (s : srec) : srec :=
  mkS (s_id s) t (s_view s) (s_rules s) (s_custom s).

Fixpoint lookup (k : Z) (l : list (Z * Z)) : option Z :=
  match l with [] => None | (a, b) :: t => if a =? k then Some b else lookup k t end.

(* summaryKey of a table: the sources of its group-by columns *)
Definition table_key (m : meta) (t : Z) : list Z :=
  map c_src (filter (fun c => (c_parent c =? t) && negb (c_src c =? 0)) (m_columns m)).
Definition same_set (a b : list Z) : bool := all_in a b && all_in b a.
Definition find_summary (m : meta) (src : Z) (gb : list Z) : option trec :=
  find (fun t => (t_src t =? src) && same_set (table_key m (t_id t)) gb) (m_tables m).

(* _get_or_create_summary, no table with that key yet: doAddTable (summarySourceTable set, raw section, no
   record card, no manualSort), then summarySourceCol/visibleCol of the group-by columns.  A source column with
   a display column gets a copy of it (SetDisplayFormula): outside the fragment. *)
Definition add_summary_table (name src : Z) (gb gbkinds fkinds : list Z) (m : meta) : res (meta * Z) :=
  if mem name (m_schema m) || mem name (map t_name (m_tables m)) then Unmodelled
  else if negb (Nat.eqb (length gb) (length gbkinds)) || negb (nodupb gb) then Unmodelled
  else
    let t := next_id (tids m) in
    let c0 := next_id (cids m) in
    let gcols := map (fun p => match find_column m (snd (fst p)) with
                               | Some sc => mkC (fst (fst p)) t (snd p) 0 (c_visible sc) (c_id sc) [] (c_reft sc)
                               | None => mkC (fst (fst p)) t (snd p) 0 0 0 [] 0
                               end)
                     (combine (combine (zseq c0 (length gb)) gb) gbkinds) in
    let fcols := map (fun c => if c_kind c =? K_GROUP      (* 'group' has type RefList:<source table> *)
                               then mkC (c_id c) t (c_kind c) 0 0 0 [] src else c)
                     (new_columns (c0 + Z.of_nat (length gb)) t fkinds) in
    let m0 := mkM (m_tables m ++ [mkT t name 0 src 0 0]) (m_columns m ++ gcols ++ fcols)
                  (m_views m) (m_sections m) (m_fields m) (m_tabbar m) (m_pages m) (m_schema m ++ [name]) in
    let '(m1, sraw) := add_section t 0 false m0 in
    let m2 := add_fields sraw (visible_cols m1 t) m1 in
    Ok (set_tables m2 (map (fun r => if t_id r =? t then mkT t name 0 src sraw 0 else r) (m_tables m2)), t).

(* maybe_copy_display_formula for the group-by columns, in order: a source column with a display column gives
   its group-by column one too (SetDisplayFormula on the new table: a new helper column, or the helper made for
   an earlier group-by column when the formula text is the same -- the caller says which id it got) *)
Fixpoint copy_displays (t : Z) (ps : list (Z * Z * Z)) (m : meta) : res meta :=
  match ps with
  | [] => Ok m
  | (g, sd, d) :: rest =>
    if sd =? 0 then (if d =? 0 then copy_displays t rest m else Unmodelled)
    else if d =? next_id (cids m)
         then let '(m1, h) := do_add_column t K_DISPLAY 0 m in
              copy_displays t rest (upd_column g (with_display h) m1)
    else if existsb (fun c => (c_id c =? d) && (c_parent c =? t) && (c_kind c =? K_DISPLAY)) (m_columns m)
         then copy_displays t rest (upd_column g (with_display d) m)
    else Unmodelled
  end.

Definition add_summary_table_d (name src : Z) (gb gbkinds fkinds dcopies : list Z) (m : meta) : res (meta * Z) :=
  if negb (Nat.eqb (length dcopies) (length gb)) then Unmodelled
  else bind (add_summary_table name src gb gbkinds fkinds m) (fun '(m1, t) =>
    let sds := map (fun g => match find_column m g with Some sc => c_display sc | None => 0 end) gb in
    let ps := combine (combine (zseq (next_id (cids m)) (length gb)) sds) dcopies in
    bind (copy_displays t ps m1) (fun m2 => Ok (m2, t))).

Definition cols_of_table (m : meta) (cols : list Z) (t : Z) : bool :=
  forallb (fun c => existsb (fun cr => (c_id cr =? c) && (c_parent cr =? t)) (m_columns m)) cols.

(* CreateViewSection with group-by columns, when no summary table with that key exists *)
Definition create_summary (src v : Z) (gb : list Z) (name : Z) (gbkinds fkinds dcopies : list Z) (m : meta) : res meta :=
  if (src =? 0) || negb (mem src (tids m)) then (if src =? 0 then Unmodelled else Fail)
  else if negb (cols_of_table m gb src) then Fail
  else
    bind (if v =? 0 then add_view src false m else if mem v (m_views m) then Ok (m, v) else Fail) (fun '(m1, v1) =>
      match find_summary m1 src gb with
      | Some _ => Unmodelled
      | None =>
        bind (add_summary_table_d name src gb gbkinds fkinds dcopies m1) (fun '(m2, t) =>
          let '(m3, s) := add_section t v1 false m2 in
          let shown := map c_id (filter (fun c => (c_parent c =? t) && negb (c_kind c =? K_GROUP) && negb (c_kind c =? K_DISPLAY)) (m_columns m3)) in
          Ok (add_fields s shown m3))
      end).

(* RenameColumn / RenameTable as far as the modelled cells go: the columns whose id changed (the column, the
   group-by columns based on it, same-named formula columns of summary tables) get the kind their new id has;
   the tables whose id changed (the table, its summary tables, summary tables grouped by a renamed column) get
   their new names, in the metadata and in Engine.tables.  Which ids the engine picks is given by the caller;
   the new names must again be unique and the same in both places. *)
Definition reident (ckinds tnames : list (Z * Z)) (m : meta) : res meta :=
  let newname t := match lookup (t_id t) tnames with Some n => n | None => t_name t end in
  let rho n := match find (fun t => t_name t =? n) (m_tables m) with Some t => newname t | None => n end in
  let m' := mkM (map (fun t => mkT (t_id t) (newname t) (t_pview t) (t_src t) (t_raw t) (t_card t)) (m_tables m))
                (map (fun c => match lookup (c_id c) ckinds with
                               | Some k => mkC (c_id c) (c_parent c) k (c_display c) (c_visible c) (c_src c)
                                               (c_rules c) (c_reft c)
                               | None => c end) (m_columns m))
                (m_views m) (m_sections m) (m_fields m) (m_tabbar m) (m_pages m) (map rho (m_schema m)) in
  let names := map t_name (m_tables m') in
  if nodupb names && nodupb (m_schema m') && all_in names (m_schema m') && all_in (m_schema m') names
  then Ok m' else Unmodelled.

(* the view of a new section: 0 = AddView 'empty' *)
Definition view_for (t v : Z) (m : meta) : res (meta * Z) :=
  if v =? 0 then add_view t false m else if mem v (m_views m) then Ok (m, v) else Fail.

(* CreateViewSection of a chart or form section: _RebuildViewFields picks some of the visible columns by type,
   formula and position (given by the caller, checked to be columns of the table) *)
Definition create_section_shown (t v : Z) (shown : list Z) (m : meta) : res meta :=
  if (t =? 0) then Unmodelled
  else if negb (mem t (tids m)) then Fail
  else bind (view_for t v m) (fun '(m1, v1) =>
    if negb (cols_of_table m1 shown t) then Unmodelled
    else let '(m2, s) := add_section t v1 false m1 in Ok (add_fields s shown m2)).

(* CreateViewSection with group-by columns when the summary table exists already: _get_or_add_columns may add
   formula columns to it (kinds given), the new section shows the group-by and formula columns the code finds
   by name (given, checked to be columns of that table) *)
Definition create_summary_existing (src v : Z) (gb : list Z) (target : Z) (added shown : list Z) (m : meta)
  : res meta :=
  if (src =? 0) || negb (mem src (tids m)) then (if src =? 0 then Unmodelled else Fail)
  else if negb (cols_of_table m gb src) then Fail
  else bind (view_for src v m) (fun '(m1, v1) =>
    match find_summary m1 src gb with
    | None => Unmodelled
    | Some st =>
      if negb (t_id st =? target) then Unmodelled
      else
        let m2 := set_columns m1 (m_columns m1 ++ new_columns (next_id (cids m1)) target added) in
        if negb (cols_of_table m2 shown target) then Unmodelled
        else let '(m3, s) := add_section target v1 false m2 in Ok (add_fields s shown m3)
    end).

(* update_summary_section for one section: the target table (0: created, else an existing summary table which
   may get further formula columns), the fields moved to columns of the target (every other field of the
   section is deleted), the new group-by fields *)
Record regroup := mkRG { rg_sec : Z; rg_target : Z; rg_name : Z; rg_src : Z; rg_gb : list Z; rg_gbkinds : list Z;
                         rg_fkinds : list Z; rg_dcopies : list Z; rg_added : list Z; rg_remap : list (Z * Z); rg_new : list Z }.

(* the target table: created, or an existing one that may get further formula columns *)
Definition regroup_target (r : regroup) (m : meta) : res (meta * Z) :=
  if negb (mem (rg_sec r) (sids m)) then Fail
  else if negb (mem (rg_src r) (tids m) && cols_of_table m (rg_gb r) (rg_src r)) then Fail   (* _fetch_table_col_recs *)
  else if rg_target r =? 0
       then add_summary_table_d (rg_name r) (rg_src r) (rg_gb r) (rg_gbkinds r) (rg_fkinds r) (rg_dcopies r) m
  else if mem (rg_target r) (tids m)
       then Ok (set_columns m (m_columns m ++ new_columns (next_id (cids m)) (rg_target r) (rg_added r)),
                rg_target r)
  else Fail.

(* update_summary_section on the fields of the section (delete_fields; the colRef updates of e.g. ae5ee6e; the
   new group-by fields): a field of the section is moved when the caller names its new column, else it is
   deleted; fields of other sections are not touched; then the section shows the target table *)
Definition moved (r : regroup) (f : frec) : bool :=
  match lookup (f_id f) (rg_remap r) with Some _ => true | None => false end.

Definition regroup_fields (r : regroup) (tgt : Z) (m1 : meta) : meta :=
  let sec := rg_sec r in
  let kept := filter (fun f => negb (f_section f =? sec) || moved r f) (m_fields m1) in
  let m3 := set_fields m1 (map (fun f => if f_section f =? sec
                                         then match lookup (f_id f) (rg_remap r) with
                                              | Some c => with_fcol c f | None => f end
                                         else f) kept) in
  let m4 := add_fields sec (rg_new r) m3 in
  upd_section sec (with_stable tgt) m4.

Definition sec_is_raw (m : meta) (sec : Z) : bool := existsb (fun t => t_raw t =? sec) (m_tables m).
Definition sec_is_card (m : meta) (sec : Z) : bool := existsb (fun t => t_card t =? sec) (m_tables m).

(* UpdateSummaryViewSection (as a user action and as doRemoveColumns calls it): get_record raises on an unknown
   section; the raw section of a table is refused (section.isRaw, commit ea10a38).  The columns named by the
   caller must be columns of the target table; record-card sections of summary tables do not occur (summary
   tables are created without one); a section that is the raw section of a table it does not show cannot
   occur in a consistent document. *)
Definition apply_regroup (r : regroup) (m : meta) : res meta :=
  match find_section m (rg_sec r) with
  | None => Fail
  | Some s =>
    if is_raw m s then Fail
    else bind (regroup_target r m) (fun '(m1, tgt) =>
      if sec_is_card m1 (rg_sec r) || sec_is_raw m1 (rg_sec r) then Unmodelled
      else if negb (cols_of_table m1 (map snd (rg_remap r) ++ rg_new r) tgt) then Unmodelled
      else Ok (regroup_fields r tgt m1))
  end.

(* DetachSummaryViewSection: AddTable with copies of the columns the section shows and a 'group' formula column
   (final table id, column kinds and the tables their types refer to given by the caller), then the section and
   all its fields move to the new table.  The raw section of the summary table is refused (section.isRaw,
   commit 811c657). *)
Definition set_refts (refts : list (Z * Z)) (m : meta) : meta :=
  set_columns m (map (fun c => match lookup (c_id c) refts with
                               | Some r => mkC (c_id c) (c_parent c) (c_kind c) (c_display c) (c_visible c)
                                               (c_src c) (c_rules c) r
                               | None => c end) (m_columns m)).

Definition detach (sec name : Z) (kinds : list Z) (refts remap : list (Z * Z)) (m : meta) : res meta :=
  match find_section m sec with
  | None => Fail
  | Some s =>
    if negb (is_summary_table m (s_table s)) then Fail
    else if is_raw m s then Fail
    else bind (add_table name kinds true m) (fun '(m1, t) =>
      let m2 := set_refts refts m1 in
      if sec_is_card m2 sec || sec_is_raw m2 sec then Unmodelled
      else if negb (cols_of_table m2 (map snd remap) t) then Unmodelled
      else Ok (regroup_fields (mkRG sec 0 0 0 [] [] [] [] [] remap []) t m2))
  end.

Fixpoint apply_regroups (rs : list regroup) (m : meta) : res meta :=
  match rs with [] => Ok m | r :: t => bind (apply_regroup r m) (apply_regroups t) end.

(* the sections doRemoveColumns regroups: for every summary table with a group-by column based on a removed
   column (sorted), its view sections except the raw one *)
Definition regroup_sections (cols : list Z) (m : meta) : list Z :=
  concat (map (fun t => map s_id (filter (fun s => (s_table s =? t_id t) && negb (s_id s =? t_raw t))
                                         (m_sections m)))
              (filter (fun t => existsb (fun c => (c_parent c =? t_id t) && mem (c_src c) cols) (m_columns m))
                      (m_tables m))).

(* _removeColumnRecords for source columns of group-by columns: doRemoveColumns first runs
   UpdateSummaryViewSection on those sections *)
Definition remove_columns_regroup (cols : list Z) (rs : list regroup) (m : meta) : res meta :=
  if negb (all_in cols (cids m)) then Fail
  else if negb (nodupb cols) then Unmodelled
  else if existsb (fun c => mem (c_id c) cols && negb (c_src c =? 0)) (m_columns m) then Fail
  else if negb (zlist_eqb (map rg_sec rs) (regroup_sections cols m)) then Unmodelled
  else bind (apply_regroups rs m) (remove_columns_core cols).

(* ---------------------------------------------------------------------------------------------- *)
(* DocModel.apply_auto_removes, repeated by Engine.apply_user_actions after the last user action of a bundle
   until nothing is marked: unused helper columns (through _removeColumnRecords), then unused summary tables
   (through _removeTableRecords); both sets are those marked by the same recalculation *)

Definition auto_cols (m : meta) : list Z := map c_id (filter (col_unused m) (m_columns m)).
Definition auto_tabs (m : meta) : list Z := map t_id (filter (table_unused m) (m_tables m)).

Definition auto_round (m : meta) : res meta :=
  let cs := auto_cols m in
  let ts := auto_tabs m in
  bind (if isnil cs then Ok m else remove_columns cs m) (fun m1 =>
    if isnil ts then Ok m1 else remove_tables ts m1).

Fixpoint auto_fix (fuel : nat) (m : meta) : res meta :=
  if isnil (auto_cols m) && isnil (auto_tabs m) then Ok m
  else match fuel with
       | O => Unmodelled
       | S k => bind (auto_round m) (auto_fix k)
       end.

(* how many times apply_auto_removes removes something (the engine loops while it does) *)
Fixpoint auto_rounds (fuel : nat) (m : meta) : nat :=
  if isnil (auto_cols m) && isnil (auto_tabs m) then O
  else match fuel with
       | O => O
       | S k => match auto_round m with Ok m1 => S (auto_rounds k m1) | _ => O end
       end.

(* ---------------------------------------------------------------------------------------------- *)
(* user actions of the modelled fragment *)

Inductive op :=
| OAddTable (name : Z) (kinds : list Z) (pview : bool)   (* AddTable, AddEmptyTable; AddRawTable: no view *)
| ORemoveTables (trefs : list Z)                         (* RemoveTable, BulkRemoveRecord _grist_Tables *)
| OAddColumn (t kind reft : Z)                           (* AddColumn *)
| OAddHiddenColumn (t kind reft : Z)                     (* AddHiddenColumn, AddColumn of a transform column *)
| ORemoveColumns (cols : list Z)                         (* RemoveColumn, BulkRemoveRecord _grist_Tables_column *)
| OAddView (t : Z) (raw_data : bool)                     (* AddView *)
| OCreateSection (t v : Z) (cardlike : bool) (newname : Z)   (* CreateViewSection, no group-by *)
| ORemoveSections (secs : list Z)                        (* RemoveViewSection, BulkRemoveRecord _grist_Views_section *)
| ORemoveViews (vs : list Z)                             (* RemoveView, BulkRemoveRecord _grist_Views *)
| ORemovePages (ps : list Z)                             (* BulkRemoveRecord _grist_Pages *)
| ORemoveTabs (bs : list Z)                              (* BulkRemoveRecord _grist_TabBar *)
| ORemoveFields (fs : list Z)                            (* BulkRemoveRecord _grist_Views_section_field *)
| OAddField (s c : Z)                                    (* AddRecord _grist_Views_section_field *)
| OSetDisplay (t fld col : Z) (set : bool) (reuse : Z)   (* SetDisplayFormula *)
| OAddRule (t fld col : Z)                               (* AddEmptyRule *)
| OSetRules (owner i : Z) (r : list Z)                   (* UpdateRecord ... {rules: shorter list} *)
| OSetCustom (s : Z) (b : bool)                          (* UpdateRecord _grist_Views_section {options/theme/layoutSpec} *)
| ORenameTable (t name : Z)                              (* RenameTable *)
| OCreateSummary (src v : Z) (gb : list Z) (name : Z) (gbkinds fkinds dcopies : list Z)  (* CreateViewSection, group-by *)
| ORegroup (r : regroup)                                 (* UpdateSummaryViewSection *)
| ORemoveColumnsG (cols : list Z) (rs : list regroup)    (* RemoveColumn of group-by source columns *)
| OSetVisible (col v : Z)                                (* UpdateRecord _grist_Tables_column {visibleCol} *)
| OModifyType (col newreft : Z) (compatible changed gchanged : bool)   (* ModifyColumn that sets a type *)
| OSetDisplaySisters (t col : Z) (set : bool) (reuse : Z) (sisters : list Z)   (* SetDisplayFormula, summary formula col *)
| OReident (ckinds tnames : list (Z * Z))                (* RenameColumn, RenameTable *)
| ODetach (sec name : Z) (kinds : list Z) (refts remap : list (Z * Z))   (* DetachSummaryViewSection *)
| OAddTableR (name : Z) (kinds : list Z) (pview : bool) (refts : list (Z * Z))   (* AddTable with reference columns *)
| OAddVisibleColumn (t kind reft : Z) (secs : list Z)    (* AddVisibleColumn *)
| OCreateSectionShown (t v : Z) (shown : list Z)         (* CreateViewSection, chart or form *)
| OCreateSummaryExisting (src v : Z) (gb : list Z) (target : Z) (added shown : list Z)  (* ..., existing summary *)
| ONoMeta                                               (* an action that touches none of the modelled cells *)
| OUnmodelled.                                           (* any other action *)

Definition step (o : op) (m : meta) : res meta :=
  match o with
  | OAddTable name kinds pview => bind (add_table name kinds pview m) (fun p => Ok (fst p))
  | ORemoveTables trefs => remove_tables trefs m
  | OAddColumn t kind reft => add_column t kind reft m
  | OAddHiddenColumn t kind reft => bind (add_hidden_column t kind reft m) (fun p => Ok (fst p))
  | ORemoveColumns cols => remove_columns cols m
  | OAddView t raw_data => bind (add_view t raw_data m) (fun p => Ok (fst p))
  | OCreateSection t v cardlike newname => create_section t v cardlike newname m
  | ORemoveSections secs => remove_sections secs m
  | ORemoveViews vs => remove_views vs m
  | ORemovePages ps => Ok (rm_pages ps m)
  | ORemoveTabs bs => Ok (rm_tabbar bs m)
  | ORemoveFields fs => remove_fields fs m
  | OAddField s c => add_field s c m
  | OSetDisplay t fld col set reuse => set_display t fld col set reuse m
  | OAddRule t fld col => add_rule t fld col m
  | OSetRules owner i r => set_rules owner i r m
  | OSetCustom s b => set_custom s b m
  | ORenameTable t name => rename_table t name m
  | OCreateSummary src v gb name gbkinds fkinds dcopies => create_summary src v gb name gbkinds fkinds dcopies m
  | ORegroup r => apply_regroup r m
  | ORemoveColumnsG cols rs => remove_columns_regroup cols rs m
  | OSetVisible col v => set_visible col v m
  | OModifyType col newreft compatible changed gchanged => modify_type col newreft compatible changed gchanged m
  | OSetDisplaySisters t col set reuse sisters => set_display_sisters t col set reuse sisters m
  | OReident ckinds tnames => reident ckinds tnames m
  | ODetach sec name kinds refts remap => detach sec name kinds refts remap m
  | OAddTableR name kinds pview refts => bind (add_table name kinds pview m) (fun p => Ok (set_refts refts (fst p)))
  | OAddVisibleColumn t kind reft secs => add_visible_column t kind reft secs m
  | OCreateSectionShown t v shown => create_section_shown t v shown m
  | OCreateSummaryExisting src v gb target added shown => create_summary_existing src v gb target added shown m
  | ONoMeta => Ok m
  | OUnmodelled => Unmodelled
  end.

Fixpoint steps (os : list op) (m : meta) : res meta :=
  match os with [] => Ok m | o :: t => bind (step o m) (steps t) end.

Definition fuel_of (m : meta) : nat := S (length (m_columns m) + length (m_tables m)).

(* one bundle: the user actions in order, then the auto-removals *)
Definition run_bundle (os : list op) (m : meta) : res meta :=
  bind (steps os m) (fun m1 => auto_fix (fuel_of m1) m1).

(* ---------------------------------------------------------------------------------------------- *)
(* the property: written once, as a boolean.  Used as the invariant of the theorems, evaluated on the real
   metadata after every bundle, and transliterated as the search oracle (harness/props/c09.py refs_resolve). *)

Definition optref (ids : list Z) (x : Z) : bool := (x =? 0) || mem x ids.
Definition posb (ids : list Z) : bool := forallb (fun x => 0 <? x) ids.

(* row ids are unique and positive in each of the seven tables *)
Definition ids_ok (m : meta) : bool :=
  nodupb (tids m) && posb (tids m) && nodupb (cids m) && posb (cids m) &&
  nodupb (m_views m) && posb (m_views m) && nodupb (sids m) && posb (sids m) &&
  nodupb (fids m) && posb (fids m) &&
  nodupb (map fst (m_tabbar m)) && posb (map fst (m_tabbar m)) &&
  nodupb (map fst (m_pages m)) && posb (map fst (m_pages m)).

(* a column belongs to a table; its optional references exist *)
Definition col_ok (m : meta) (c : crec) : bool :=
  mem (c_parent c) (tids m) && optref (cids m) (c_display c) && optref (cids m) (c_visible c) &&
  optref (cids m) (c_src c) && all_in (c_rules c) (cids m).

(* a field belongs to a section and shows a column of that section's table *)
Definition field_ok (m : meta) (f : frec) : bool :=
  col_of_section m (f_section f) (f_col f) &&
  optref (cids m) (f_display f) && optref (cids m) (f_visible f) && all_in (f_rules f) (cids m).

(* a section shows a table and sits in a view or in none *)
Definition sec_ok (m : meta) (s : srec) : bool :=
  mem (s_table s) (tids m) && optref (m_views m) (s_view s) && all_in (s_rules s) (cids m).

Definition sec_of_table (m : meta) (sid t : Z) : bool :=
  existsb (fun s => (s_id s =? sid) && (s_table s =? t)) (m_sections m).

(* a table has its raw section; the record-card section, when set, is a section of the table *)
Definition table_ok (m : meta) (t : trec) : bool :=
  sec_of_table m (t_raw t) (t_id t) &&
  ((t_card t =? 0) || sec_of_table m (t_card t) (t_id t)) &&
  optref (m_views m) (t_pview t) && optref (tids m) (t_src t).

(* exactly one table record per user table of the engine *)
Definition names_ok (m : meta) : bool :=
  let names := map t_name (m_tables m) in
  nodupb names && nodupb (m_schema m) && all_in names (m_schema m) && all_in (m_schema m) names.

(* every display / rule helper column is used by a column, field or section *)
Definition helpers_used (m : meta) : bool := forallb (fun c => negb (col_unused m c)) (m_columns m).

Definition refs_core (m : meta) : bool :=
  ids_ok m &&
  forallb (col_ok m) (m_columns m) && forallb (field_ok m) (m_fields m) &&
  forallb (sec_ok m) (m_sections m) && forallb (table_ok m) (m_tables m) &&
  forallb (fun b => mem (snd b) (m_views m)) (m_tabbar m) &&
  forallb (fun b => mem (snd b) (m_views m)) (m_pages m) &&
  names_ok m.

Definition RefsResolve (m : meta) : bool := refs_core m && helpers_used m.

(* ---------------------------------------------------------------------------------------------- *)
(* equality of states, for the comparison with the engine's metadata *)

Fixpoint list_eqb {A} (eqb : A -> A -> bool) (a b : list A) : bool :=
  match a, b with
  | [], [] => true
  | x :: a', y :: b' => eqb x y && list_eqb eqb a' b'
  | _, _ => false
  end.
Definition zl_eqb := list_eqb Z.eqb.

Definition trec_eqb (a b : trec) : bool :=
  (t_id a =? t_id b) && (t_name a =? t_name b) && (t_pview a =? t_pview b) && (t_src a =? t_src b) &&
  (t_raw a =? t_raw b) && (t_card a =? t_card b).
Definition crec_eqb (a b : crec) : bool :=
  (c_id a =? c_id b) && (c_parent a =? c_parent b) && (c_kind a =? c_kind b) && (c_display a =? c_display b) &&
  (c_visible a =? c_visible b) && (c_src a =? c_src b) && zl_eqb (c_rules a) (c_rules b) && (c_reft a =? c_reft b).
Definition srec_eqb (a b : srec) : bool :=
  (s_id a =? s_id b) && (s_table a =? s_table b) && (s_view a =? s_view b) && zl_eqb (s_rules a) (s_rules b) &&
  Bool.eqb (s_custom a) (s_custom b).
Definition frec_eqb (a b : frec) : bool :=
  (f_id a =? f_id b) && (f_section a =? f_section b) && (f_col a =? f_col b) && (f_display a =? f_display b) &&
  (f_visible a =? f_visible b) && zl_eqb (f_rules a) (f_rules b) && Bool.eqb (f_wopt a) (f_wopt b).
Definition pair_eqb (a b : Z * Z) : bool := (fst a =? fst b) && (snd a =? snd b).

(* the schema is a set of names *)
Definition meta_eqb (a b : meta) : bool :=
  list_eqb trec_eqb (m_tables a) (m_tables b) && list_eqb crec_eqb (m_columns a) (m_columns b) &&
  zl_eqb (m_views a) (m_views b) && list_eqb srec_eqb (m_sections a) (m_sections b) &&
  list_eqb frec_eqb (m_fields a) (m_fields b) && list_eqb pair_eqb (m_tabbar a) (m_tabbar b) &&
  list_eqb pair_eqb (m_pages a) (m_pages b) &&
  all_in (m_schema a) (m_schema b) && all_in (m_schema b) (m_schema a).

Definition res_is (r : res meta) (expected : meta) : bool :=
  match r with Ok m => meta_eqb m expected | _ => false end.
Definition res_ok {A} (r : res A) : bool := match r with Ok _ => true | _ => false end.
Definition res_unmodelled {A} (r : res A) : bool := match r with Unmodelled => true | _ => false end.

(* ==== end of file ==== *)
