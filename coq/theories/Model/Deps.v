(* K2 (dependency part) -- depend.py (Graph: add_edge, clear_dependencies, reset_dependencies,
   invalidate_deps, ALL_ROWS), relation.py (IdentityRelation, SingleRowsIdentityRelation,
   ReferenceRelation, ComposedRelation), lookup.py (_LookupRelation), engine.py (_use_node,
   invalidate_column).  Executable model only.

   Cells are (node, row); a node is a column of a table.  An edge (out, inn, rel) says that node
   [out] depends on node [inn]; [rel] maps changed rows of [inn] to affected rows of [out].
   The row relations are stateful objects in the engine; their state lives in [relst]:
     inv c t        ReferenceRelation.inverse_map of reference column c: referring rows of target t
     lkrows m n     _LookupRelation._row_key_map of the relation (referring node n -> lookup map m):
                    pairs (referring row, key looked up)
     lkkeys m t     lookup_map._get_keys(t): the keys under which target row t is indexed in m
   Formulas are interaction trees (all formula programs, not a grammar): a formula returns a value
   or reads a cell through an access path (the relation recorded by Engine._use_node for it) and
   continues with what it observes of the value. *)
From Coq Require Import ZArith List Bool Lia.
Import ListNotations.
Open Scope Z_scope.

Definition node := Z.
Definition row := Z.
Definition cell := (node * row)%type.
Definition cell_eqb (a b : cell) : bool := Z.eqb (fst a) (fst b) && Z.eqb (snd a) (snd b).

Inductive rowset := AllRows | Rows (l : list row).

Inductive rel :=
| RId                         (* IdentityRelation *)
| RSingle                     (* SingleRowsIdentityRelation: does not pass ALL_ROWS on *)
| RRef (c : node)             (* ReferenceRelation of reference column c *)
| RComp (a b : rel)           (* ComposedRelation(referring_side a, target_side b) *)
| RLook (m : node) (n : node) (* _LookupRelation(lookup map m, referring node n) *).

Fixpoint rel_eqb (a b : rel) : bool :=
  match a, b with
  | RId, RId => true
  | RSingle, RSingle => true
  | RRef x, RRef y => Z.eqb x y
  | RComp a1 a2, RComp b1 b2 => rel_eqb a1 b1 && rel_eqb a2 b2
  | RLook m n, RLook m' n' => Z.eqb m m' && Z.eqb n n'
  | _, _ => false
  end.

Record relst := mkR {
  inv : node -> row -> list row;
  lkrows : node -> node -> list (row * Z);
  lkkeys : node -> row -> list Z
}.

Definition zmem (x : Z) (l : list Z) : bool := existsb (Z.eqb x) l.

(* _LookupRelation.get_affected_rows_by_keys *)
Definition rows_by_keys (rk : list (row * Z)) (keys : list Z) : list row :=
  map fst (filter (fun p => zmem (snd p) keys) rk).

(* Relation.get_affected_rows *)
Fixpoint affected (R : relst) (r : rel) (x : rowset) : rowset :=
  match r with
  | RId => x
  | RSingle => match x with AllRows => Rows [] | _ => x end
  | RRef c => match x with AllRows => AllRows | Rows l => Rows (flat_map (inv R c) l) end
  | RComp a b => affected R a (affected R b x)
  | RLook m n =>
      match x with
      | AllRows => AllRows
      | Rows l => Rows (rows_by_keys (lkrows R m n) (flat_map (lkkeys R m) l))
      end
  end.

Definition in_rowset (r : row) (x : rowset) : bool :=
  match x with AllRows => true | Rows l => zmem r l end.

(* "the relation maps the read row [rd] back to the reading row [rr]" *)
Definition covers (R : relst) (via : rel) (rd rr : row) : bool :=
  in_rowset rr (affected R via (Rows [rd])).

(* ---- interaction trees ------------------------------------------------------------------ *)

(* Read d via p k: Engine._use_node(node d, via, (row d,)) followed by col.get_cell_value; the
   formula only uses [p (value)] of what it read ([p] = identity for ordinary field access; for a
   lookup, [p] is "does this row's key equal the key looked up"). *)
Inductive itree :=
| Ret (z : Z)
| Read (d : cell) (via : rel) (p : Z -> Z) (k : Z -> itree).

Fixpoint run (v : cell -> Z) (t : itree) : Z :=
  match t with
  | Ret z => z
  | Read d _ p k => run v (k (p (v d)))
  end.

Definition access := (cell * rel * (Z -> Z))%type.

Fixpoint trace (v : cell -> Z) (t : itree) : list access :=
  match t with
  | Ret _ => []
  | Read d via p k => (d, via, p) :: trace v (k (p (v d)))
  end.

Definition upd (v : cell -> Z) (c : cell) (x : Z) : cell -> Z :=
  fun y => if cell_eqb y c then x else v y.
