(* Executable model of the evaluation of one dirty formula cell (engine.py Engine._recompute_step for one
   row + Engine._use_node + lookup._LookupRelation._add_lookup):
     reset_dependencies(node, rows)   before re-evaluation, for the row about to be recomputed
     the formula runs                 every Read records the edge (node, read node, relation) (add_edge)
     lookups made                     (lookup map m, key) are registered for the row in _LookupRelation(m, node)
     the value is stored, the row leaves recompute_map.
   The engine resets all rows of the node that are dirty when the node is first visited in an update and
   evaluates them one after the other; the model resets each row just before it is evaluated (rows that are
   dirtied later in the same update keep their old registrations in the engine: a superset). *)
From Coq Require Import ZArith List Bool Lia.
Import ListNotations.
Require Import Grist.Model.Deps Grist.Model.DepsSpec Grist.Model.DepsExec.
Open Scope Z_scope.

Definition record_reads (E : list edge) (n : node) (tr : list access) : list edge :=
  fold_left (fun E a => add_edge E (n, fst (acell a), snd (fst a))) tr E.

(* _add_lookup(row, key) on the relation (m, n) *)
Definition add_lookup (R : relst) (m n : node) (r : row) (k : Z) : relst :=
  set_lkrows R m n ((r, k) :: lkrows R m n).

Definition add_lookups (R : relst) (n : node) (r : row) (lks : list (node * Z)) : relst :=
  fold_left (fun R mk => add_lookup R (fst mk) n r (snd mk)) lks R.

Definition rows_remove (r : row) (l : list row) : list row := filter (fun x => negb (Z.eqb x r)) l.

Definition map_remove (M : node -> option rowset) (c : cell) : node -> option rowset :=
  fun n => if Z.eqb n (fst c)
           then match M n with Some (Rows l) => Some (Rows (rows_remove (snd c) l)) | o => o end
           else M n.

(* lks: the lookups (lookup map node, key) the formula makes for this row *)
Definition eval_exec (v : cell -> Z) (g : gst) (c : cell) (t : itree) (lks : list (node * Z))
  : (cell -> Z) * gst :=
  let R1 := reset_dependencies (g_edges g) (g_rel g) (fst c) (Rows [snd c]) in
  let R2 := add_lookups R1 (fst c) (snd c) lks in
  (upd v c (run v t),
   mkG (record_reads (g_edges g) (fst c) (trace v t)) R2 (map_remove (g_map g) c) (g_nodes g)).

(* relations as Record/RecordSet field access builds them: a lookup relation only at the referring end *)
Fixpoint no_look (r : rel) : bool :=
  match r with RLook _ _ => false | RComp a b => no_look a && no_look b | _ => true end.
Fixpoint head_look (r : rel) : bool :=
  match r with RComp a b => head_look a && no_look b | _ => true end.
