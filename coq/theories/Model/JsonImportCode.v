(* The generated functions (GristGen.JsonImport_gen) composed along the two pieces of import_json.py that are
   not translated but pinned by AST equality in harness/ij2v_spec.py:
     dumps():        tables = Tables(parse_options); data = [data] unless it is a list;
                     for val in data: tables.add_row(name, val); tables.dumps()
     Tables.dumps(): [_dump_table(name, rows) for name, rows in self._tables.items()]
   `rtables` (Model/JsonImport.v) decodes the event log threaded through the generated add_row into the content of
   self._tables.  Python's recursion has no bound; the generated recursion gets fuel = height of the value + 1
   (more fuel changes nothing: C33_bridge_add_row).  Definitions only. *)
From Coq Require Import ZArith List Bool Arith.
Import ListNotations.
Require Import Grist.Model.JsonImport Grist.Model.JsonImportPy GristGen.JsonImport_gen.

Fixpoint jheight (v : json) : nat :=
  match v with
  | JS _ => O
  | JArr l => S (fold_right (fun e m => Nat.max (jheight e) m) O l)
  | JObj kvs => S (fold_right (fun kv m => Nat.max (jheight (snd kv)) m) O kvs)
  end.

Definition code_log (incs excs name : str) (d : json) : list event :=
  fold_left (fun st v => fst (gen_add_row (S (jheight v)) (gen_init_includes_opt incs) (gen_init_excludes_opt excs)
                                         name v None st))
            (top_items d) [].

Definition dumped := (list (str * str) * list (list dcell) * str)%type.   (* column_metadata, table_data, table_name *)

Definition code_import (incs excs name : str) (d : json) : list dumped :=
  map (fun t => gen_dump_table (fst t) (snd t)) (rtables (code_log incs excs name d)).

(* lookups in the output *)
Definition code_table (out : list dumped) (T : str) : option dumped := find (fun t => str_eqb (snd t) T) out.

(* the entry for row r of the last column of table T (the parent column, when some row of T has a parent) *)
Definition code_parent_entry (out : list dumped) (T : str) (r : nat) : option dcell :=
  match code_table out T with
  | Some (_, data, _) => nth_error (last data []) (pred r)
  | None => None
  end.

(* comparison with the output of the running importer (harness/props/c33.py) *)
Definition triple_dt (t : dumped) : dtable :=
  (snd t, map (fun mc => (fst (fst mc), snd (fst mc), snd mc)) (combine (fst (fst t)) (snd (fst t)))).

Definition code_case_ok (c : str * str * str * json * list dtable * list (str * Z)) : bool :=
  match c with
  | (incs, excs, name, d, out, _) =>
      let ts := code_import incs excs name d in
      list_eqb dtable_eqb (map triple_dt ts) out &&
      forallb (fun t => Nat.eqb (length (fst (fst t))) (length (snd (fst t)))) ts
  end.
