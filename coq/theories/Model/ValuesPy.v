(* The Python run time that the code GENERATED from usertypes.py (harness/ut2v.py -> gen/Usertypes_gen.v) runs on:
   dynamically typed expressions over the value universe V of Model/Values.v.  Every Python expression becomes a
   term of type `result value` (or a bool for tests), every statement block a `flow`.  Hand-written and generic
   (nothing here knows about column types); validated on every run by evaluating the generated functions against
   the running ones. *)
From Coq Require Import ZArith List Bool String.
Import ListNotations.
Require Import Grist.Lib.PyFloat Grist.Model.Values.
Open Scope Z_scope.

(* ---- control flow of a statement block over the tuple E of the function's local variables ---- *)
Inductive flow (E : Type) :=
| FRet (v : value)              (* return v *)
| FFall (env : E)               (* fell off the end of the block *)
| FExc (e : str) (env : E).     (* raised e; the locals as they were at that point *)
Arguments FRet {E} v.
Arguments FFall {E} env.
Arguments FExc {E} e env.

Definition fl_seq {E} (f : flow E) (k : E -> flow E) : flow E :=
  match f with FFall env => k env | _ => f end.
(* evaluate an expression inside a statement *)
Definition fl_bind {E A} (r : result A) (env : E) (k : A -> flow E) : flow E :=
  match r with Ok a => k a | Raise e => FExc e env end.
(* try: body / except Exception: handler *)
Definition fl_try {E} (body : flow E) (handler : E -> flow E) : flow E :=
  match body with FExc _ env => handler env | _ => body end.
(* a function body: falling off the end returns None *)
Definition run_flow {E} (f : flow E) : result value :=
  match f with FRet v => Ok v | FFall _ => Ok PNone | FExc e _ => Raise e end.

Definition bindb {A} (r : result bool) (k : bool -> result A) : result A := bind r k.
(* a and b / a or b on tests that may raise: b is only evaluated when needed *)
Definition r_and (a b : result bool) : result bool := bind a (fun x => if x then b else Ok false).
Definition r_or (a b : result bool) : result bool := bind a (fun x => if x then Ok true else b).
Definition r_not (a : result bool) : result bool := bind a (fun x => Ok (negb x)).

(* all(f(x) for x in l): stops at the first false *)
Fixpoint all_m {A} (f : A -> result bool) (l : list A) : result bool :=
  match l with
  | [] => Ok true
  | x :: t => bind (f x) (fun b => if b then all_m f t else Ok false)
  end.

(* ---- classes named in isinstance / type(..) is tests ---- *)
Inductive pyclass :=
| C_NoneType | C_bool | C_int | C_float | C_str | C_bytes | C_list | C_tuple | C_dict | C_set | C_frozenset
| C_date | C_datetime | C_Record | C_RecordSet | C_RecordList | C_AltText | C_RaisedException
| C_RecordStub | C_RecordSetStub | C_Unmarshallable.

Definition isinstance1 (c : pyclass) (v : value) : bool :=
  match c, v with
  | C_NoneType, PNone => true
  | C_bool, PBool _ => true
  | C_int, (PInt _ _ | PBool _) => true
  | C_float, PFloat _ _ => true
  | C_str, PStr _ _ => true
  | C_bytes, PBytes _ _ => true
  | C_list, PList _ _ => true
  | C_RecordList, PList (LRecordList _) _ => true
  | C_tuple, PTuple _ => true
  | C_dict, PDict _ => true
  | C_set, PSet _ => true
  | C_date, (PDate _ | PDateTime _ _) => true
  | C_datetime, PDateTime _ _ => true
  | C_Record, PRecord _ _ => true
  | C_RecordSet, PRecordSet _ _ _ _ => true
  | C_AltText, PAltText _ => true
  | C_RaisedException, PErr _ _ _ _ => true
  | C_RecordStub, PRecordStub _ _ => true
  | C_RecordSetStub, PRecordSetStub _ _ => true
  | C_Unmarshallable, PUnmarsh _ => true
  | _, _ => false            (* frozensets and every other object are opaque in V: no listed class *)
  end.
Definition p_isinstance (cs : list pyclass) (v : value) : bool := existsb (fun c => isinstance1 c v) cs.

(* type(v) is c *)
Definition type_is1 (c : pyclass) (v : value) : bool :=
  match c, v with
  | C_NoneType, PNone | C_bool, PBool _ | C_int, PInt false _ | C_float, PFloat false _
  | C_str, PStr false _ | C_bytes, PBytes false _ | C_list, PList LPlain _ | C_tuple, PTuple _
  | C_dict, PDict _ | C_set, PSet _ => true
  | _, _ => false
  end.
Definition p_type_in (cs : list pyclass) (v : value) : bool := existsb (fun c => type_is1 c v) cs.

Definition p_is_none (v : value) : bool := match v with PNone => true | _ => false end.

(* a == b for the operand kinds the translated code compares: None, str, numbers (exactly), bytes *)
Definition int_like (v : value) : option Z :=
  match v with PInt _ z => Some z | PBool b => Some (if b then 1 else 0) | _ => None end.
Definition p_eq (a b : value) : bool :=
  match a, b with
  | PNone, PNone => true
  | PStr _ s, PStr _ t => str_eqb s t
  | PBytes _ s, PBytes _ t => zlist_eqb s t
  | PFloat _ f, PFloat _ g => f_eq f g
  | PFloat _ f, _ => match int_like b with Some n => f_eq_Z f n | None => false end
  | _, PFloat _ g => match int_like a with Some n => f_eq_Z g n | None => false end
  | _, _ => match int_like a, int_like b with Some x, Some y => x =? y | _, _ => false end
  end.
Definition p_in (v : value) (consts : list value) : bool := existsb (p_eq v) consts.

(* f < n for a float and an int, exactly *)
Definition f_lt_Z (f : pyfloat) (n : Z) : bool :=
  match f with
  | FNan => false
  | FInf neg => neg
  | FZero _ => 0 <? n
  | FNum m e => if 0 <=? e then m * 2 ^ e <? n else m <? n * 2 ^ (- e)
  end.
Definition f_absv (f : pyfloat) : pyfloat :=
  match f with FInf _ => FInf false | FZero _ => FZero false | FNum m e => FNum (Z.abs m) e | FNan => FNan end.

(* a < b: ints with ints, a float with an int; anything else is outside what the translated code compares *)
Definition p_lt (a b : value) : result bool :=
  match a, int_like b with
  | PFloat _ f, Some n => Ok (f_lt_Z f n)
  | _, Some n => match int_like a with Some m => Ok (m <? n) | None => Raise E_Type end
  | _, None => Raise E_Type
  end.
Definition p_le (a b : value) : result bool :=
  match int_like a, int_like b with Some m, Some n => Ok (m <=? n) | _, _ => Raise E_Type end.
Definition p_gt (a b : value) : result bool := p_lt b a.

Section Runtime.
Variable orc : oracles.

Definition p_truth (v : value) : result bool :=
  match py_truthy orc v with Some b => Ok b | None => Raise E_Type end.

Definition p_float (v : value) : result value := bind (py_float orc v) (fun f => Ok (PFloat false f)).
Definition p_str (v : value) : result value :=
  match py_str orc v with Some s => Ok (PStr false s) | None => Raise E_Value end.
Definition p_int (v : value) : result value :=
  match v with
  | PFloat _ f => bind (py_int_of_float f) (fun z => Ok (PInt false z))
  | PInt _ z => Ok (PInt false z)
  | PBool b => Ok (PInt false (if b then 1 else 0))
  | PRecord _ r => Ok (PInt false r)
  | PStr _ s => match o_int_of_str orc s with Some z => Ok (PInt false z) | None => Raise E_Value end
  | PAltText _ => bind (py_float orc v) (fun f => bind (py_int_of_float f) (fun z => Ok (PInt false z)))
  | _ => Raise E_Type
  end.
Definition p_abs (v : value) : result value :=
  match v with
  | PFloat _ f => Ok (PFloat false (f_absv f))
  | PInt _ z => Ok (PInt false (Z.abs z))
  | PBool b => Ok (PInt false (if b then 1 else 0))
  | _ => Raise E_Type
  end.
Definition p_isinf (v : value) : result bool :=
  match v with PFloat _ f => Ok (f_is_inf f) | PInt _ _ | PBool _ => Ok false | _ => Raise E_Type end.
Definition p_isnan (v : value) : result bool :=
  match v with PFloat _ f => Ok (f_is_nan f) | PInt _ _ | PBool _ => Ok false | _ => Raise E_Type end.
Definition p_fmt15g (v : value) : result value :=
  match v with PFloat _ f => Ok (PStr false (o_fmt15g orc f)) | _ => Raise E_Type end.
Definition p_decode_utf8 (v : value) : result value :=
  match v with
  | PBytes _ b => match o_utf8_decode orc b with Some s => Ok (PStr false s) | None => Raise E_Unicode end
  | _ => Raise E_Attribute
  end.
Definition p_lower (v : value) : result value :=
  match v with PStr _ s => Ok (PStr false (o_lower orc s)) | _ => Raise E_Attribute end.
Definition p_startswith (v : value) (prefix : str) : result bool :=
  match v with PStr _ s => Ok (starts_with prefix s) | _ => Raise E_Attribute end.
Definition p_safe_repr (v : value) : value := PStr false (safe_repr orc v).
Definition p_iter (v : value) : result (list value) := py_iter orc v.
Definition p_json_loads (v : value) : result value :=
  match v with
  | PStr _ s => match o_json_loads orc s with Some j => Ok j | None => Raise E_Value end
  | _ => Raise E_Type
  end.
(* sorted(l) for a list of str values *)
Definition p_sorted_strs (l : list value) : result (list value) :=
  bind (map_result (fun x => match x with PStr _ s => Ok s | _ => Raise E_Type end) l)
       (fun ss => Ok (map (PStr false) (sort_strs ss))).

(* ---- moment.py / objtypes.py / records.py entry points the translated code calls (models of Values.v) ---- *)
Definition p_dt_date (v : value) : result value :=         (* value.date() *)
  match v with PDateTime wall _ => Ok (PDate (date_of_wall wall)) | _ => Raise E_Attribute end.
Definition p_date_to_ts (v : value) (zone : option str) : result value :=
  match v with PDate d => Ok (PFloat false (date_to_ts orc d zone)) | _ => Raise E_Type end.
Definition p_dt_to_ts (v : value) (zone : option str) : result value :=
  match v with
  | PDateTime wall tz => bind (dt_to_ts orc wall tz zone) (fun f => Ok (PFloat false f))
  | _ => Raise E_Attribute
  end.
Definition p_parse_iso_date (v : value) : result value :=
  match v with PStr _ s => bind (parse_iso_date orc s) (fun f => Ok (PFloat false f)) | _ => Raise E_Type end.
Definition p_parse_iso (v : value) (zone : str) : result value :=
  match v with PStr _ s => bind (parse_iso orc s zone) (fun f => Ok (PFloat false f)) | _ => Raise E_Type end.
Definition p_reclist_from_repr (v : value) : result value :=
  match v with PStr _ s => reclist_from_repr orc s | _ => Raise E_Attribute end.
(* value._table.table_id == table_id *)
Definition p_table_is (v : value) (t : str) : result bool :=
  match v with PRecordSet t' _ _ _ => Ok (str_eqb t' t) | PRecord t' _ => Ok (str_eqb t' t) | _ => Raise E_Attribute end.
(* objtypes.RecordList(value._row_ids, group_by=value._group_by, sort_by=value._sort_by, sort_key=value._sort_key) *)
Definition p_recordlist_of (v : value) : result value :=
  match v with
  | PRecordSet _ _ rows info => Ok (PList (LRecordList info) (map (PInt false) rows))
  | _ => Raise E_Attribute
  end.
Definition p_row_ids (v : value) : result (list value) :=  (* iterating rset._row_ids *)
  match v with PRecordSet _ _ rows _ => Ok (map (PInt false) rows) | _ => Raise E_Attribute end.
Definition p_rec_id (v : value) : result value :=          (* rec.id *)
  match v with PRecord _ r => Ok (PInt false r) | _ => Raise E_Attribute end.
(* list(OrderedDict((el, None) for el in l).keys()) for a list of row ids *)
Definition p_dedup (l : list value) : result (list value) :=
  bind (map_result (fun x => match x with PInt _ z => Ok z | _ => Raise E_Type end) l)
       (fun zs => Ok (map (PInt false) (dedup_Z [] zs))).

End Runtime.
