(* C39 -- the typed primitives that harness/imp2v.py maps the library calls of ChoiceColumn.rename_choices,
   ChoiceColumn/ChoiceListColumn._rename_cell_choice and the two translated fragments of
   UserActions.RenameChoices to.  The code itself is translated from /repo on every run into
   GristGen.Choices_gen; Proofs/Choices_bridge.v proves it equal to the hand model Model/Choices.v. *)
From Coq Require Import ZArith List Bool.
Import ListNotations.
Require Import Grist.Lib.PyVal Grist.Lib.PyImp Grist.Model.Choices.
Open Scope Z_scope.

Definition val_is_none (v : val) : bool := match v with VNone => true | _ => false end.

(* renames.get(key): None when absent.  Only string keys occur in the dict, so any other hashable key misses
   (an unhashable key would raise; the callers only pass cells that passed is_right_type) *)
Definition py_ren_get (ren : renames) (k : val) : val :=
  match k with VStr s => match ren_get ren s with Some n => VStr n | None => VNone end | _ => VNone end.

(* renames.get(key, default) *)
Definition py_ren_get_default (ren : renames) (k d : val) : val :=
  match k with VStr s => match ren_get ren s with Some n => VStr n | None => d end | _ => d end.

(* renames.items() *)
Definition py_ren_items (ren : renames) : list (val * val) := map (fun kn => (VStr (fst kn), VStr (snd kn))) ren.

(* iteration over a cell value (tuples and lists; the callers only iterate values that passed is_right_type) *)
Definition py_iter_val (v : val) : list val := match v with VTuple l | VList l => l | _ => [] end.

(* usertypes: Text.is_right_type (Choice) and ChoiceList.is_right_type *)
Definition py_is_right_type (k : ckind) (v : val) : bool :=
  match k, v with
  | _, VNone => true
  | Choice, VStr _ => true
  | ChoiceList, VTuple l | ChoiceList, VList l => forallb is_str l
  | _, _ => false
  end.

(* row_id in table.row_ids *)
Definition py_is_record (ids : list Z) (r : Z) : bool :=
  (0 <? r) && (r <? Z.of_nat (length ids)) && (0 <? nth (Z.to_nat r) ids 0).

(* objtypes.encode_object / actions.decode_bulk_values / the column's convert on the way back: the identity on the
   strings and tuples of strings rename_choices produces (checked by the correspondence through the engine) *)
Definition py_encode_object (v : val) : val := v.

(* a _grist_Filters record of the column: (id, filter) *)
Definition frec := (Z * filt)%type.

(* truth value of rec.filter *)
Definition filt_nonempty (f : filt) : bool := match f with FEmpty => false | _ => true end.

(* json.loads(rec.filter) (the text is valid JSON) and .items() of the result *)
Definition py_json_loads (f : filt) : filt := f.
Definition py_jv_items (f : filt) : exc (list (str * fentry)) :=
  match f with FObj es => Val es | _ => Exn AttributeError end.
(* dict(x) for parsed JSON x *)
Definition py_jv_dict (f : filt) : exc (list (str * fentry)) :=
  match f with FObj es => Val es | _ => Exn TypeError end.

Definition fentry_is_list (e : fentry) : bool := match e with FList _ => true | _ => false end.
Definition fentry_elems (e : fentry) : list val := match e with FList l => l | _ => [] end.

(* col_filter == new_filter *)
Definition py_jv_eq_dict (f : filt) (d : list (str * fentry)) : bool :=
  match f with FObj es => entries_eqb es d | _ => false end.

(* ---- equality tests for the differential validation of the translated functions (harness/props/c39.py) *)
Definition scan_ok (r : exc (list Z * list val)) (e : list Z * list val) : bool :=
  match r with Val (a, b) => str_eqb a (fst e) && vals_eqb b (snd e) | Exn _ => false end.

Fixpoint news_eqb (a b : list (list (str * fentry))) : bool :=
  match a, b with
  | [], [] => true
  | x :: a', y :: b' => entries_eqb x y && news_eqb a' b'
  | _, _ => false
  end.

Definition filters_ok (r : exc (list Z * list (list (str * fentry)))) (e : option (list Z * list (list (str * fentry)))) : bool :=
  match r, e with
  | Val (a, b), Some (c, d) => str_eqb a c && news_eqb b d
  | Exn AttributeError, None => true
  | _, _ => false
  end.
