(* Executable model of /repo/sandbox/grist/imports/import_json.py (C33).

   Python values after json.loads:  dict -> JObj (association list, document order, keys unique),
   list -> JArr, str -> list of code points, int -> Z, float -> its IEEE-754 bit pattern as Z, bool, None.

   The importer mutates Row objects after they were appended to their table.  The model writes the same
   history as a log of events (ERow = `rows.append(row)`, ECell = `row.values[k] = ...`) and then builds,
   from the log, first the content of `Tables._tables` (rtable), then what `_dump_table` computes before
   `_dump_value` (ttable: typed cells, references still distinguishable) and finally the dumped tables
   (dtable).  The correspondence check (harness/props/c33.py) compares rtable row counts with
   `Tables._tables` and dtables with `Tables.dumps()` on generated documents.  No proofs in this file. *)
From Coq Require Import ZArith List Bool Arith DecimalString.
Import ListNotations.

Definition str := list Z.

Inductive scalar :=
| SNull | SBool (b : bool) | SInt (n : Z) | SFloat (bits : Z) | SStr (s : str).

Inductive json :=
| JS (s : scalar)
| JArr (l : list json)
| JObj (kvs : list (str * json)).

(* ---------------------------------------------------------------- strings *)

Fixpoint str_eqb (a b : str) : bool :=
  match a, b with
  | [], [] => true
  | x :: a', y :: b' => Z.eqb x y && str_eqb a' b'
  | _, _ => false
  end.

(* str.startswith *)
Fixpoint prefixb (p s : str) : bool :=
  match p, s with
  | [], _ => true
  | x :: p', y :: s' => Z.eqb x y && prefixb p' s'
  | _ :: _, [] => false
  end.

(* a < b for Python str (code point order) *)
Fixpoint str_ltb (a b : str) : bool :=
  match a, b with
  | [], [] => false
  | [], _ :: _ => true
  | _ :: _, [] => false
  | x :: a', y :: b' => if Z.ltb x y then true else if Z.eqb x y then str_ltb a' b' else false
  end.

(* s.split(';') followed by filter(None, ...) *)
Fixpoint split_semi_aux (s cur : str) : list str :=
  match s with
  | [] => [rev cur]
  | c :: s' => if Z.eqb c 59 then rev cur :: split_semi_aux s' [] else split_semi_aux s' (c :: cur)
  end.
Definition split_opt (s : str) : list str :=
  filter (fun x => match x with [] => false | _ => true end) (split_semi_aux s []).

(* Tables._is_included *)
Definition is_included (incs excs : list str) (path : str) : bool :=
  (match incs with [] => true | _ => existsb (fun i => prefixb i path) incs end) &&
  negb (match excs with [] => false | _ => existsb (fun e => prefixb e path) excs end).

(* table + '_' + k *)
Definition sub (T k : str) : str := T ++ 95%Z :: k.

(* ---------------------------------------------------------------- scalars, cells *)

Definition scalar_eqb (a b : scalar) : bool :=
  match a, b with
  | SNull, SNull => true
  | SBool x, SBool y => Bool.eqb x y
  | SInt x, SInt y => Z.eqb x y
  | SFloat x, SFloat y => Z.eqb x y
  | SStr x, SStr y => str_eqb x y
  | _, _ => false
  end.

Definition ref := (str * nat)%type.            (* Ref(table_name, rowid), rowid 1-based *)
Inductive cell := CS (s : scalar) | CR (r : ref).   (* CS SNull is Python's None *)
Definition cnone : cell := CS SNull.

Definition cell_eqb (a b : cell) : bool :=
  match a, b with
  | CS x, CS y => scalar_eqb x y
  | CR (t, r), CR (t', r') => str_eqb t t' && Nat.eqb r r'
  | _, _ => false
  end.

Inductive event :=
| ERow (T : str) (parent : option ref)             (* rows.append(Row({}, parent, Ref(T, len(rows)+1))) *)
| ECell (T : str) (r : nat) (k : str) (c : cell).  (* row.values[k] = c, for row r of table T *)

Definition is_row (T : str) (e : event) : bool :=
  match e with ERow T' _ => str_eqb T' T | _ => false end.
(* len(self._tables[T]) after the events lg *)
Definition count (T : str) (lg : list event) : nat := length (filter (is_row T) lg).

(* ---------------------------------------------------------------- Tables.add_row *)

Section Importer.
Variable inc : str -> bool.      (* Tables._is_included for the given options *)

Definition scalar_evs (T : str) (row : option nat) (k : str) (s : scalar) : list event :=
  match row with
  | Some r => if inc (sub T k) then [ECell T r k (CS s)] else []
  | None => []
  end.

(* `if row and val: row.values[k] = val.ref` *)
Definition link_evs (T : str) (row : option nat) (k : str) (res : option nat) : list event :=
  match row, res with
  | Some r, Some r' => [ECell T r k (CR (sub T k, r'))]
  | _, _ => []
  end.

Definition myref (T : str) (row : option nat) : option ref := option_map (fun r => (T, r)) row.

(* add_row v T parent pre: the events appended by `self.add_row(T, v, parent)` when the events so far
   are `pre`, and the row id of the returned Row (None when the table is excluded).  Keys are taken in
   the order of the association list: `import_doc` sorts them first (`sorted(value.items())`). *)
Fixpoint add_row (v : json) (T : str) (parent : option ref) (pre : list event) {struct v}
  : list event * option nat :=
  let row := if inc T then Some (S (count T pre)) else None in
  let e0 := if inc T then [ERow T parent] else [] in
  let elems := fun (k : str) (l : list json) (acc : list event) =>
    fold_left (fun acc e => acc ++ fst (add_row e (sub T k) (myref T row) (pre ++ acc))) l acc in
  let evs :=
    match v with
    | JS s => e0 ++ scalar_evs T row [] s                 (* _dictify: {'': value} *)
    | JArr l => elems [] l e0
    | JObj kvs =>
        fold_left (fun acc kv =>
          match kv with
          | (k, x) =>
              match x with
              | JS s => acc ++ scalar_evs T row k s
              | JArr l => elems k l acc
              | JObj _ =>
                  match add_row x (sub T k) None (pre ++ acc) with
                  | (ev, res) => acc ++ ev ++ link_evs T row k res
                  end
              end
          end) kvs e0
    end in
  (evs, row).

(* The same computation seen as a flat list of actions per item (used by the proofs, and proved equal
   to add_row there). *)
Inductive action :=
| AScalar (k : str) (s : scalar)
| AObj (k : str) (x : json)          (* nested object under key k *)
| AElem (k : str) (e : json).        (* one element of the array under key k *)

Definition field_plan (k : str) (x : json) : list action :=
  match x with
  | JS s => [AScalar k s]
  | JArr l => map (AElem k) l
  | JObj _ => [AObj k x]
  end.

(* _dictify *)
Definition fields (v : json) : list (str * json) :=
  match v with JObj kvs => kvs | _ => [([], v)] end.

Definition plan (v : json) : list action :=
  flat_map (fun kv => field_plan (fst kv) (snd kv)) (fields v).

Definition step (T : str) (row : option nat) (pre : list event) (acc : list event) (a : action)
  : list event :=
  match a with
  | AScalar k s => acc ++ scalar_evs T row k s
  | AObj k x =>
      match add_row x (sub T k) None (pre ++ acc) with
      | (ev, res) => acc ++ ev ++ link_evs T row k res
      end
  | AElem k e => acc ++ fst (add_row e (sub T k) (myref T row) (pre ++ acc))
  end.

(* dumps(): `if not isinstance(data, list): data = [data]`, then add_row(name, val) for each *)
Definition top_items (d : json) : list json :=
  match d with JArr l => l | _ => [d] end.

Definition run_items (name : str) (items : list json) (pre : list event) : list event :=
  fold_left (fun lg v => lg ++ fst (add_row v name None lg)) items pre.

End Importer.

(* ---------------------------------------------------------------- sorted(value.items()) *)

Fixpoint insert_kv (kv : str * json) (l : list (str * json)) : list (str * json) :=
  match l with
  | [] => [kv]
  | h :: t => if str_ltb (fst kv) (fst h) then kv :: l else h :: insert_kv kv t
  end.
Definition sort_kvs (l : list (str * json)) : list (str * json) := fold_right insert_kv [] l.

(* every dict's items in key order, recursively *)
Fixpoint normalize (v : json) : json :=
  match v with
  | JS s => JS s
  | JArr l => JArr (map normalize l)
  | JObj kvs => JObj (sort_kvs (map (fun kv => match kv with (k, x) => (k, normalize x) end) kvs))
  end.

Definition import_log (incs excs : list str) (name : str) (d : json) : list event :=
  run_items (is_included incs excs) name (top_items (normalize d)) [].

(* ---------------------------------------------------------------- Tables._tables from the log *)

Definition dict := list (str * cell).     (* OrderedDict key -> cell *)

Fixpoint dict_set (k : str) (c : cell) (d : dict) : dict :=
  match d with
  | [] => [(k, c)]
  | (k', c') :: t => if str_eqb k' k then (k', c) :: t else (k', c') :: dict_set k c t
  end.

Fixpoint dict_find (k : str) (d : dict) : option cell :=
  match d with
  | [] => None
  | (k', c) :: t => if str_eqb k' k then Some c else dict_find k t
  end.

(* row.get(key, None) *)
Definition dict_get (k : str) (d : dict) : cell :=
  match dict_find k d with Some c => c | None => cnone end.

Definition apply_cell (T : str) (r : nat) (d : dict) (e : event) : dict :=
  match e with
  | ECell T' r' k c => if str_eqb T' T && Nat.eqb r' r then dict_set k c d else d
  | _ => d
  end.

(* the `values` of row r of table T *)
Definition row_values (lg : list event) (T : str) (r : nat) : dict :=
  fold_left (apply_cell T r) lg [].

Definition cell_of (lg : list event) (T : str) (r : nat) (k : str) : cell :=
  dict_get k (row_values lg T r).

(* parents of the rows of T, in row order *)
Fixpoint parents_of (T : str) (lg : list event) : list (option ref) :=
  match lg with
  | [] => []
  | ERow T' p :: t => if str_eqb T' T then p :: parents_of T t else parents_of T t
  | _ :: t => parents_of T t
  end.

Definition parent_of (lg : list event) (T : str) (r : nat) : option ref :=
  nth (pred r) (parents_of T lg) None.

Fixpoint mem_str (s : str) (l : list str) : bool :=
  match l with [] => false | x :: t => str_eqb x s || mem_str s t end.

(* keys of the OrderedDict self._tables: order of first setdefault *)
Fixpoint table_names_aux (lg : list event) (seen : list str) : list str :=
  match lg with
  | [] => []
  | ERow T _ :: t => if mem_str T seen then table_names_aux t seen else T :: table_names_aux t (T :: seen)
  | _ :: t => table_names_aux t seen
  end.
Definition table_names (lg : list event) : list str := table_names_aux lg [].

Definition rrow := (dict * option ref)%type.          (* Row.values, Row.parent *)
Definition rtable := (str * list rrow)%type.

Definition rows_of_table (lg : list event) (T : str) : list rrow :=
  map (fun r => (row_values lg T r, parent_of lg T r)) (seq 1 (count T lg)).

Definition rtables (lg : list event) : list rtable :=
  map (fun T => (T, rows_of_table lg T)) (table_names lg).

(* ---------------------------------------------------------------- _transpose, _dump_table *)

Definition s_Numeric : str := [78; 117; 109; 101; 114; 105; 99]%Z.
Definition s_Bool : str := [66; 111; 111; 108]%Z.
Definition s_Text : str := [84; 101; 120; 116]%Z.
Definition s_RefColon : str := [82; 101; 102; 58]%Z.

Definition grist_type (c : cell) : str :=
  match c with
  | CR (t, _) => s_RefColon ++ t
  | CS (SInt _) => s_Numeric
  | CS (SFloat _) => s_Numeric
  | CS (SBool _) => s_Bool
  | CS (SStr _) => s_Text
  | CS SNull => s_Text
  end.

(* OrderedDict.update *)
Definition dict_update (d row : dict) : dict :=
  fold_left (fun d kc => dict_set (fst kc) (snd kc) d) row d.

Record tcol := mk_tcol { col_id : str; col_type : str; col_cells : list cell }.

Definition transpose (rows : list dict) : list tcol :=
  let values := fold_left dict_update (rev rows) [] in
  map (fun kv => mk_tcol (fst kv) (grist_type (snd kv)) (map (dict_get (fst kv)) rows)) values.

(* decimal digits of a nat, as code points *)
Definition dec (n : nat) : str :=
  map (fun a => Z.of_nat (Ascii.nat_of_ascii a))
      (String.list_ascii_of_string (NilEmpty.string_of_uint (Nat.to_uint n))).

(* first_available_key: name, name2, name3, ...; `fuel` candidates are tried starting at name<i>; one
   more candidate than there are keys always suffices (proved: fak_fresh). *)
Fixpoint fak_from (keys : list str) (name : str) (i : nat) (fuel : nat) : str :=
  match fuel with
  | O => name ++ dec i
  | S f => if mem_str (name ++ dec i) keys then fak_from keys name (S i) f else name ++ dec i
  end.
Definition first_available_key (keys : list str) (name : str) : str :=
  if mem_str name keys then fak_from keys name 2 (length keys) else name.

Fixpoint first_parent (ps : list (option ref)) : option ref :=
  match ps with
  | [] => None
  | Some r :: _ => Some r
  | None :: t => first_parent t
  end.

Definition parent_cell (p : option ref) : cell :=
  match p with Some r => CR r | None => cnone end.

(* _dump_table before _dump_value; the row count is kept although the dumped form does not carry it *)
Record ttable := mk_ttable {
  t_name : str;
  t_nrows : nat;
  t_data : list tcol;            (* _transpose *)
  t_parent : option tcol         (* the column that stores the reference to the parent row *)
}.

Definition dump_rtable (t : rtable) : ttable :=
  let rows := snd t in
  let data := transpose (map fst rows) in
  let ps := map snd rows in
  mk_ttable (fst t) (length rows) data
    (match first_parent ps with
     | Some (pt, _) =>
         Some (mk_tcol (first_available_key (map col_id data) pt) (s_RefColon ++ pt) (map parent_cell ps))
     | None => None
     end).

Definition ttables (lg : list event) : list ttable := map dump_rtable (rtables lg).

Definition t_columns (t : ttable) : list tcol :=
  t_data t ++ match t_parent t with Some c => [c] | None => [] end.

(* _dump_value *)
Inductive dcell := DNone | DBool (b : bool) | DInt (n : Z) | DFloat (bits : Z) | DStr (s : str).

Definition dump_value (c : cell) : dcell :=
  match c with
  | CR (_, r) => DInt (Z.of_nat r)
  | CS SNull => DNone
  | CS (SBool b) => DBool b
  | CS (SInt n) => DInt n
  | CS (SFloat f) => DFloat f
  | CS (SStr s) => DStr s
  end.

Definition dcol := (str * str * list dcell)%type.       (* id, type, table_data entry *)
Definition dtable := (str * list dcol)%type.            (* table_name, columns *)

Definition dump_col (c : tcol) : dcol := (col_id c, col_type c, map dump_value (col_cells c)).
Definition dump_ttable (t : ttable) : dtable := (t_name t, map dump_col (t_columns t)).

(* import_json.dumps(data, name, {'includes': incs, 'excludes': excs})['tables'] *)
Definition import_ttables (incs excs : str) (name : str) (d : json) : list ttable :=
  ttables (import_log (split_opt incs) (split_opt excs) name d).
Definition import_json (incs excs : str) (name : str) (d : json) : list dtable :=
  map dump_ttable (import_ttables incs excs name d).

(* ---------------------------------------------------------------- equality tests for the cases *)

Definition dcell_eqb (a b : dcell) : bool :=
  match a, b with
  | DNone, DNone => true
  | DBool x, DBool y => Bool.eqb x y
  | DInt x, DInt y => Z.eqb x y
  | DFloat x, DFloat y => Z.eqb x y
  | DStr x, DStr y => str_eqb x y
  | _, _ => false
  end.

Fixpoint list_eqb {A} (eq : A -> A -> bool) (a b : list A) : bool :=
  match a, b with
  | [], [] => true
  | x :: a', y :: b' => eq x y && list_eqb eq a' b'
  | _, _ => false
  end.

Definition dcol_eqb (a b : dcol) : bool :=
  str_eqb (fst (fst a)) (fst (fst b)) && str_eqb (snd (fst a)) (snd (fst b)) &&
  list_eqb dcell_eqb (snd a) (snd b).
Definition dtable_eqb (a b : dtable) : bool :=
  str_eqb (fst a) (fst b) && list_eqb dcol_eqb (snd a) (snd b).

(* a case: (includes, excludes, name, document, dumped tables of the implementation,
            len(rows) of every table of Tables._tables) *)
Definition case_ok (c : str * str * str * json * list dtable * list (str * Z)) : bool :=
  match c with
  | (incs, excs, name, d, out, nrows) =>
      let ts := import_ttables incs excs name d in
      list_eqb dtable_eqb (map dump_ttable ts) out &&
      list_eqb (fun a b => str_eqb (fst a) (fst b) && Z.eqb (snd a) (snd b))
               (map (fun t => (t_name t, Z.of_nat (t_nrows t))) ts) nrows
  end.

(* ---------------------------------------------------------------- specification vocabulary *)

(* every (table path, key, scalar) of an item v added to table T, nulls included, no filtering *)
Fixpoint doc_scalars (v : json) (T : str) : list (str * str * scalar) :=
  match v with
  | JS s => [(T, [], s)]
  | JArr l => flat_map (fun e => doc_scalars e (sub T [])) l
  | JObj kvs =>
      flat_map (fun kv =>
        match kv with
        | (k, x) =>
            match x with
            | JS s => [(T, k, s)]
            | JArr l => flat_map (fun e => doc_scalars e (sub T k)) l
            | JObj _ => doc_scalars x (sub T k)
            end
        end) kvs
  end.

(* the table path of every item (row candidate) of v added to table T, v itself included *)
Fixpoint doc_items (v : json) (T : str) : list str :=
  T ::
  match v with
  | JS _ => []
  | JArr l => flat_map (fun e => doc_items e (sub T [])) l
  | JObj kvs =>
      flat_map (fun kv =>
        match kv with
        | (k, x) =>
            match x with
            | JS _ => []
            | JArr l => flat_map (fun e => doc_items e (sub T k)) l
            | JObj _ => doc_items x (sub T k)
            end
        end) kvs
  end.

Definition triple_eqb (a b : str * str * scalar) : bool :=
  str_eqb (fst (fst a)) (fst (fst b)) && str_eqb (snd (fst a)) (snd (fst b)) && scalar_eqb (snd a) (snd b).

Definition count_if {A} (f : A -> bool) (l : list A) : nat := length (filter f l).

(* keys of every dict are pairwise different (a Python dict) *)
Fixpoint wf_json (v : json) : Prop :=
  match v with
  | JS _ => True
  | JArr l => (fix all (l : list json) : Prop := match l with [] => True | e :: t => wf_json e /\ all t end) l
  | JObj kvs =>
      NoDup (map fst kvs) /\
      (fix all (l : list (str * json)) : Prop :=
         match l with [] => True | kv :: t => wf_json (snd kv) /\ all t end) kvs
  end.

Definition find_table (T : str) (ts : list ttable) : option ttable :=
  find (fun t => str_eqb (t_name t) T) ts.

Definition find_col (k : str) (cs : list tcol) : option tcol :=
  find (fun c => str_eqb (col_id c) k) cs.

(* the cell of data column k at row r (1-based) of table T; None when the table, the column or the row
   does not exist *)
Definition tcell (ts : list ttable) (T k : str) (r : nat) : option cell :=
  match find_table T ts with
  | Some t => match find_col k (t_data t) with
              | Some c => nth_error (col_cells c) (pred r)
              | None => None
              end
  | None => None
  end.

(* the entry of the parent column at row r of table T *)
Definition tparent (ts : list ttable) (T : str) (r : nat) : option cell :=
  match find_table T ts with
  | Some t => match t_parent t with
              | Some c => nth_error (col_cells c) (pred r)
              | None => None
              end
  | None => None
  end.

Definition tnrows (ts : list ttable) (T : str) : nat :=
  match find_table T ts with Some t => t_nrows t | None => 0 end.

(* number of cells equal to c in data column k of table T *)
Definition tcount (ts : list ttable) (T k : str) (c : cell) : nat :=
  match find_table T ts with
  | Some t => match find_col k (t_data t) with
              | Some col => count_if (cell_eqb c) (col_cells col)
              | None => 0
              end
  | None => 0
  end.
