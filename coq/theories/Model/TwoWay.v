(* K4, part 2 -- two-way references.

   Executable model (no proofs) of
     reverse_references.get_reverse_adjustments        (get_reverse_adjustments_ref below; the check ALSO regenerates
                                                        it from the source text on every run, coq/gen/RevAdj_gen.v,
                                                        and Proofs/TwoWay_gen.v proves the two equal)
     column.py  BaseReferenceColumn.prepare_new_values, recalc_from_reverse_values, _adjustments_to_action,
                ReferenceColumn._list_to_value (UniqueReferenceError), ReferenceListColumn._list_to_value
     engine.py  convert_action_values (the prepare_new_values part), trim_update_action (one column)
     useractions.py doBulkUpdateRecord / doBulkAddOrReplace: extra actions first, then the trimmed action
                    (both applied as doc actions: docactions.BulkUpdateRecord).

   A pair: column A of table TA with type Ref/RefList:TB, column B of table TB with type Ref/RefList:TA, each the
   reverse of the other.  Rows of TA index A's cells and are the targets in B's cells, and vice versa. *)
From Coq Require Import ZArith List Bool Arith Lia.
Import ListNotations.
Require Import Grist.Model.RefIndex.

(* ---- get_reverse_adjustments ------------------------------------------------------------------------ *)
(* _RefUpdates: two sets of source rows *)
Record ref_updates := { ru_removals : list nat; ru_additions : list nat }.
Definition ru_empty : ref_updates := {| ru_removals := []; ru_additions := [] |}.
Definition ru_remove (r : nat) (u : ref_updates) : ref_updates :=
  {| ru_removals := set_add r (ru_removals u); ru_additions := ru_additions u |}.
Definition ru_add (r : nat) (u : ref_updates) : ref_updates :=
  {| ru_removals := ru_removals u; ru_additions := set_add r (ru_additions u) |}.

(* defaultdict(_RefUpdates), in insertion order *)
Definition affected := list (Z * ref_updates).

Fixpoint aff_update (t : Z) (f : ref_updates -> ref_updates) (m : affected) : affected :=
  match m with
  | [] => [(t, f ru_empty)]
  | (k, u) :: m' => if Z.eqb t k then (k, f u) :: m' else (k, u) :: aff_update t f m'
  end.

Definition get_reverse_adjustments_ref (row_ids : list nat) (old_values new_values : list cell)
    (value_iterator : cell -> list Z) (relation : invmap) : list (Z * list nat) :=
  let affected_target_rows :=
    fold_left
      (fun aff (x : nat * (cell * cell)) =>
         let source_row_id := fst x in
         let old_value := fst (snd x) in
         let new_value := snd (snd x) in
         if negb (cell_eqb new_value old_value) then
           let aff1 := fold_left (fun a target_row_id => aff_update target_row_id (ru_remove source_row_id) a)
                                 (value_iterator old_value) aff in
           fold_left (fun a target_row_id => aff_update target_row_id (ru_add source_row_id) a)
                     (value_iterator new_value) aff1
         else aff)
      (combine row_ids (combine old_values new_values)) [] in
  map (fun (tu : Z * ref_updates) =>
         let target_row_id := fst tu in
         let updates := snd tu in
         let reverse_value := get_affected_rows [target_row_id] relation in
         let reverse_value1 := fold_left (fun s source_row_id => set_discard source_row_id s)
                                         (ru_removals updates) reverse_value in
         let reverse_value2 := fold_left (fun s source_row_id => set_add source_row_id s)
                                         (ru_additions updates) reverse_value1 in
         (target_row_id, reverse_value2))
      affected_target_rows.

(* ---- _list_to_value ------------------------------------------------------------------------------------ *)
Definition list_to_value (k : kind) (l : list nat) : res cell :=
  match k with
  | KRef => match l with
            | [] => Ok (CInt 0)
            | [x] => Ok (CInt (Z.of_nat x))
            | _ => Err EUnique          (* UniqueReferenceError("UNIQUE reference constraint violated") *)
            end
  | KRefList => match l with [] => Ok CNone | _ => Ok (CList (map Z.of_nat l)) end
  end.

(* a target row id must be an existing row of the reverse column's table (docactions.BulkUpdateRecord asserts it) *)
Definition target_row (rows : list nat) (t : Z) : res nat :=
  if (0 <=? t)%Z && memN (Z.to_nat t) rows then Ok (Z.to_nat t) else Err ENoRow.

Record pair_state := { p_a : refcol; p_b : refcol; p_rows_a : list nat; p_rows_b : list nat }.

Definition swap (s : pair_state) : pair_state :=
  {| p_a := p_b s; p_b := p_a s; p_rows_a := p_rows_b s; p_rows_b := p_rows_a s |}.

Section TwoWay.
  Variable hack : list Z -> option (list Z).
  (* the function used for get_reverse_adjustments: the hand model above or the regenerated one *)
  Variable gra : list nat -> list cell -> list cell -> (cell -> list Z) -> invmap -> list (Z * list nat).

  (* prepare_new_values of column A whose reverse column has kind kb: cleaned values + the reverse adjustments *)
  Definition prepare_new_values (a : refcol) (kb : kind) (row_ids : list nat) (values : list cell)
      : res (list cell * list (Z * cell)) :=
    let ka := rc_kind a in
    let values' := map (clean_up hack ka) values in
    let old_values := map (raw_get a) row_ids in
    let radj := gra row_ids old_values values' (value_iterable ka) (rc_inv a) in
    bind (mapM (fun tl => bind (list_to_value kb (snd tl)) (fun v => Ok (fst tl, v))) radj)
         (fun adj => Ok (values', adj)).

  (* the extra action on the reverse column (a doc-level BulkUpdateRecord; none when there is no adjustment) *)
  Definition apply_adjustments (rows_b : list nat) (b : refcol) (adj : list (Z * cell)) : res refcol :=
    match adj with
    | [] => Ok b
    | _ => bind (mapM (target_row rows_b) (map fst adj))
                (fun rs => fold_left (fun acc rv => bind acc (fun c' => col_set hack c' (fst rv) (snd rv)))
                                     (combine rs (map snd adj)) (Ok b))
    end.

  (* trim_update_action for this column, then the doc action (none when nothing is left) *)
  Definition apply_trimmed (rows_a : list nat) (a : refcol) (row_ids : list nat) (values : list cell) : res refcol :=
    let kept := filter (fun rv => negb (cell_eqb (snd rv) (raw_get a (fst rv)))) (combine row_ids values) in
    match kept with
    | [] => Ok a
    | _ => doc_bulk_update hack rows_a a (map fst kept) (map snd kept)
    end.

  (* user-level [Bulk]UpdateRecord / [Bulk]AddRecord writing `values` into column A for `row_ids` *)
  Definition update_a (s : pair_state) (row_ids : list nat) (values : list cell) : res pair_state :=
    bind (prepare_new_values (p_a s) (rc_kind (p_b s)) row_ids values)
         (fun va =>
            bind (apply_adjustments (p_rows_b s) (p_b s) (snd va))
                 (fun b' =>
                    bind (apply_trimmed (p_rows_a s) (p_a s) row_ids (fst va))
                         (fun a' => Ok {| p_a := a'; p_b := b'; p_rows_a := p_rows_a s; p_rows_b := p_rows_b s |}))).

  Definition update_b (s : pair_state) (row_ids : list nat) (values : list cell) : res pair_state :=
    bind (update_a (swap s) row_ids values) (fun s' => Ok (swap s')).

  (* user-level [Bulk]AddRecord of new rows `row_ids` of TA with `values` for column A (doBulkAddOrReplace): the
     adjustments are applied BEFORE the rows exist, then Engine.add_records sets every given cell (no trimming).
     same_table: B lives in TA too, so its table gains the rows as well. *)
  Definition add_a (same_table : bool) (s : pair_state) (row_ids : list nat) (values : list cell) : res pair_state :=
    bind (prepare_new_values (p_a s) (rc_kind (p_b s)) row_ids values)
         (fun va =>
            bind (apply_adjustments (p_rows_b s) (p_b s) (snd va))
                 (fun b' =>
                    bind (fold_left (fun acc rv => bind acc (fun c' => col_set hack c' (fst rv) (snd rv)))
                                    (combine row_ids (fst va)) (Ok (p_a s)))
                         (fun a' =>
                            let rows_a' := set_union (p_rows_a s) row_ids in
                            Ok {| p_a := a'; p_b := b'; p_rows_a := rows_a';
                                  p_rows_b := if same_table then set_union (p_rows_b s) row_ids else p_rows_b s |}))).

  Definition add_b (same_table : bool) (s : pair_state) (row_ids : list nat) (values : list cell) : res pair_state :=
    bind (add_a same_table (swap s) row_ids values) (fun s' => Ok (swap s')).

  (* ONE user-level update writing BOTH columns of a self-referential pair (A and B in the same table):
     convert_action_values prepares each column from the state before the action; trim_update_action keeps the
     columns with some changed value and the rows where a kept column changes; the two extra actions are applied,
     then the trimmed action sets both columns. *)
  Definition changed_flags (c : refcol) (row_ids : list nat) (values : list cell) : list bool :=
    map (fun rv => negb (cell_eqb (snd rv) (raw_get c (fst rv)))) (combine row_ids values).

  Fixpoint select {A} (flags : list bool) (l : list A) : list A :=
    match flags, l with
    | f :: flags', x :: l' => if f then x :: select flags' l' else select flags' l'
    | _, _ => []
    end.

  Definition update_both (s : pair_state) (row_ids : list nat) (vals_a vals_b : list cell) : res pair_state :=
    bind (prepare_new_values (p_a s) (rc_kind (p_b s)) row_ids vals_a) (fun va =>
    bind (prepare_new_values (p_b s) (rc_kind (p_a s)) row_ids vals_b) (fun vb =>
      let ch_a := changed_flags (p_a s) row_ids (fst va) in
      let ch_b := changed_flags (p_b s) row_ids (fst vb) in
      let keep_a := existsb (fun x => x) ch_a in
      let keep_b := existsb (fun x => x) ch_b in
      let row_keep := map (fun xy => (keep_a && fst xy) || (keep_b && snd xy)) (combine ch_a ch_b) in
      let rows_k := select row_keep row_ids in
      bind (apply_adjustments (p_rows_b s) (p_b s) (snd va)) (fun b1 =>
      bind (apply_adjustments (p_rows_a s) (p_a s) (snd vb)) (fun a1 =>
      bind (if keep_a then doc_bulk_update hack (p_rows_a s) a1 rows_k (select row_keep (fst va)) else Ok a1) (fun a2 =>
      bind (if keep_b then doc_bulk_update hack (p_rows_b s) b1 rows_k (select row_keep (fst vb)) else Ok b1) (fun b2 =>
        Ok {| p_a := a2; p_b := b2; p_rows_a := p_rows_a s; p_rows_b := p_rows_b s |})))))).

  (* ---- the user action.  doBulkUpdateRecord (since /repo commit 060dc6b) first keeps only the LAST occurrence of
     a row id named more than once (all columns alike); update_a / update_b / update_both above are what follows. *)
  Fixpoint keep_last (row_ids : list nat) : list bool :=
    match row_ids with
    | [] => []
    | r :: t => negb (memN r t) :: keep_last t
    end.

  Definition user_update_a (s : pair_state) (row_ids : list nat) (values : list cell) : res pair_state :=
    update_a s (select (keep_last row_ids) row_ids) (select (keep_last row_ids) values).

  Definition user_update_b (s : pair_state) (row_ids : list nat) (values : list cell) : res pair_state :=
    update_b s (select (keep_last row_ids) row_ids) (select (keep_last row_ids) values).

  Definition user_update_both (s : pair_state) (row_ids : list nat) (vals_a vals_b : list cell) : res pair_state :=
    update_both s (select (keep_last row_ids) row_ids) (select (keep_last row_ids) vals_a)
                (select (keep_last row_ids) vals_b).

  (* recalc_from_reverse_values of column A: B is rebuilt from A's relation, row by row of TB (AddReverseColumn,
     and after a Ref<->RefList switch of A) *)
  Definition recalc_from_a (s : pair_state) : res pair_state :=
    let radj := map (fun t => (Z.of_nat t, get_affected_rows [Z.of_nat t] (rc_inv (p_a s)))) (p_rows_b s) in
    bind (mapM (fun tl => bind (list_to_value (rc_kind (p_b s)) (snd tl)) (fun v => Ok (fst tl, v))) radj)
         (fun adj => bind (apply_adjustments (p_rows_b s) (p_b s) adj)
                          (fun b' => Ok {| p_a := p_a s; p_b := b'; p_rows_a := p_rows_a s; p_rows_b := p_rows_b s |})).
End TwoWay.

(* symmetry of a pair: row a's cell in A refers to row b exactly when row b's cell in B refers to row a *)
Definition sym (s : pair_state) : Prop :=
  forall a b, In (Z.of_nat b) (refs (p_a s) a) <-> In (Z.of_nat a) (refs (p_b s) b).

Definition pair_eqb (x y : pair_state) : bool :=
  col_eqb (p_a x) (p_a y) && col_eqb (p_b x) (p_b y) &&
  list_eqb Nat.eqb (p_rows_a x) (p_rows_a y) && list_eqb Nat.eqb (p_rows_b x) (p_rows_b y).

(* comparison up to trailing default cells (table.grow_to_max pads every column of a table) *)
Fixpoint strip_rev (d : cell) (l : list cell) : list cell :=
  match l with
  | x :: t => if cell_eqb x d then strip_rev d t else l
  | [] => []
  end.
Definition strip (d : cell) (l : list cell) : list cell := rev (strip_rev d (rev l)).

Definition col_eqv (a b : refcol) : bool :=
  kind_eqb (rc_kind a) (rc_kind b) &&
  list_eqb cell_eqb (strip (default (rc_kind a)) (rc_data a)) (strip (default (rc_kind a)) (rc_data b)) &&
  inv_eqb (rc_inv a) (rc_inv b).

Definition pair_eqv (x y : pair_state) : bool :=
  col_eqv (p_a x) (p_a y) && col_eqv (p_b x) (p_b y) &&
  list_eqb Nat.eqb (p_rows_a x) (p_rows_a y) && list_eqb Nat.eqb (p_rows_b x) (p_rows_b y).
