(* C08: vocabulary for the code REGENERATED from /repo (GristGen.SchemaSync_gen, translated by harness/sm2v.py from
   schema.py and docactions.py), and the model of what ModifyColumn's undo action must carry. *)
From Coq Require Import ZArith List Bool.
Import ListNotations.
Require Import Grist.Model.SchemaSync.
Open Scope Z_scope.

(* a SchemaColumn: its colId and the other four attributes *)
Definition scol := (str * colinfo)%type.
Definition scol_eqb (a b : scol) : bool := str_eqb (fst a) (fst b) && colinfo_eqb (snd a) (snd b).

(* Python dicts over the key universe of column-info dicts: "type", "isFormula", "formula", "reverseColId", "id";
   a field is None when the key is absent.  reverseColId may be present with the value None. *)
Record cdict := { d_type : option str; d_isf : option bool; d_formula : option str; d_rev : option (option str);
                  d_id : option str }.
Definition set_d_rev (v : option str) (d : cdict) : cdict :=
  {| d_type := d_type d; d_isf := d_isf d; d_formula := d_formula d; d_rev := Some v; d_id := d_id d |}.
Definition set_d_id (v : str) (d : cdict) : cdict :=
  {| d_type := d_type d; d_isf := d_isf d; d_formula := d_formula d; d_rev := d_rev d; d_id := Some v |}.

(* the col_info of a ModifyColumn doc action built from such a dict (the "id" key plays no role there) *)
Definition patch_of_cdict (d : cdict) : colpatch :=
  {| p_type := d_type d; p_isf := d_isf d; p_formula := d_formula d; p_rev := d_rev d |}.

Definition is_some {A} (o : option A) : bool := match o with Some _ => true | None => false end.

(* truthiness of an Optional[str]: None and '' are falsy *)
Definition truthy_ostr (o : option str) : bool := match o with Some (_ :: _) => true | _ => false end.

(* columns[col_id] after the assertion `table.has_column(col_id)` *)
Definition scol_at (k : str) (cols : scols) : scol :=
  (k, match od_get k cols with
      | Some i => i
      | None => {| ci_type := []; ci_isf := false; ci_formula := []; ci_rev := None |}
      end).

(* what the undo of ModifyColumn(col_info) must be: for every key of col_info, the old value -- reverseColId
   included even when the old value is None (col_to_dict(..., include_default=True)) *)
Definition undo_patch (old : colinfo) (p : colpatch) : colpatch :=
  {| p_type := match p_type p with Some _ => Some (ci_type old) | None => None end;
     p_isf := match p_isf p with Some _ => Some (ci_isf old) | None => None end;
     p_formula := match p_formula p with Some _ => Some (ci_formula old) | None => None end;
     p_rev := match p_rev p with Some _ => Some (ci_rev old) | None => None end |}.

(* generic versions of the library calls build_schema makes *)
Section Sorted.
  Context {A : Type}.
  (* sorted(l, key=lambda c: (k1 c, k2 c)) on integer keys: stable *)
  Fixpoint ins_by (k1 k2 : A -> Z) (x : A) (l : list A) : list A :=
    match l with
    | [] => [x]
    | y :: t => if (k1 x <? k1 y) || ((k1 x =? k1 y) && (k2 x <=? k2 y)) then x :: l else y :: ins_by k1 k2 x t
    end.
  Definition sorted_by2 (k1 k2 : A -> Z) (l : list A) : list A := fold_right (ins_by k1 k2) [] l.

  (* itertools.groupby(l, key) *)
  Fixpoint groupby_key (key : A -> Z) (l : list A) : list (Z * list A) :=
    match l with
    | [] => []
    | x :: t => match groupby_key key t with
                | (k, g) :: rest => if k =? key x then (k, x :: g) :: rest else (key x, [x]) :: (k, g) :: rest
                | [] => [(key x, [x])]
                end
    end.
End Sorted.

(* {k: v for k, v in pairs}.get(key): the last pair with the key *)
Fixpoint zdict_get {B} (k : Z) (l : list (Z * B)) : option B :=
  match l with
  | [] => None
  | (k', v) :: t => match zdict_get k t with
                    | Some x => Some x
                    | None => if k' =? k then Some v else None
                    end
  end.
