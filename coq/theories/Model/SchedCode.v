(* Vocabulary for the code of the scheduler that is REGENERATED from /repo on every run (coq/gen/Sched_gen.v, written
   by harness/sk2v.py), and the hand-written model counterparts the generated definitions are proved equal to
   (Proofs/Sched_bridge.v).  Definitions only. *)
From Coq Require Import ZArith List Bool.
Import ListNotations.
Require Import Grist.Model.Sched.
Open Scope Z_scope.

(* --- Engine._make_sorted_work_items / the pop in Engine._update_loop ---------------------------------------------
   nodes are sorted by the key (first component, node), possibly reversed, and the work items are taken from the end
   or from the front of the list.  [processed_before kf rev last a b]: an item whose first key component is computed
   from lookup-flag a is processed before one with flag b (when the components differ). *)
Definition model_key_first (is_lookup : bool) : bool := negb is_lookup.
Definition bool_lt (x y : bool) : bool := negb x && y.
Definition processed_before (key_first : bool -> bool) (reverse pop_last : bool) (a b : bool) : bool :=
  (* ascending processing order iff the list is reversed exactly when it is consumed from the end *)
  if Bool.eqb reverse pop_last then bool_lt (key_first a) (key_first b) else bool_lt (key_first b) (key_first a).

(* --- the row loop of Engine._recompute_step -------------------------------------------------------------------- *)
Inductive row_action :=
| RSkip            (* continue: a required row that is already clean *)
| RBreak           (* leave the loop *)
| RClean           (* cleaned.append(row_id); continue: absent or already computed row *)
| ROrder           (* raise OrderError for this row (required, evaluation not allowed) *)
| RStop            (* return: not required and evaluation not allowed *)
| REval (cycle : bool).   (* evaluate the cell; cycle = the CircularRefError flag *)

Definition model_required (i_lt_count count_zero : bool) : bool := i_lt_count || count_zero.
Definition model_row_action (i_lt_count count_zero in_dirty in_table in_exclude allow locked : bool) : row_action :=
  if negb count_zero && negb in_dirty then RSkip
  else if negb in_table || in_exclude then RClean
  else if negb allow then (if model_required i_lt_count count_zero then ROrder else RStop)
  else REval (model_required i_lt_count count_zero && locked).

(* what happens when the evaluation of the cell raises OrderError *)
Inductive order_outcome := OAbandon | OPropagate.
Definition model_on_order (required : bool) : order_outcome := if required then OPropagate else OAbandon.

(* a nested access (allow_evaluation = False) that requires the rows [rs] of one column: the scan of the row loop *)
Fixpoint scan_required (act : bool -> row_action) (rs : list Z) (isdirty : Z -> bool) : option Z :=
  match rs with
  | [] => None
  | r :: t => match act (isdirty r) with
              | RSkip => scan_required act t isdirty
              | ROrder => Some r
              | _ => None
              end
  end.

(* --- BaseColumn.get_cell_value on a cell that holds a RaisedException ----------------------------------------- *)
Inductive cell_read := RUserInput | RRaiseStored | RRaiseCellError | RPlain.
Definition model_cell_read (restore has_input is_cre : bool) : cell_read :=
  if restore && has_input then RUserInput else if is_cre then RRaiseStored else RRaiseCellError.

(* --- Engine._use_node: order of its steps ------------------------------------------------------------------------ *)
Inductive use_step := UPeekReturn | UAddEdge | UCleanReturn | URecompute.
Definition model_use_node : list use_step := [UPeekReturn; UAddEdge; UCleanReturn; URecompute].
Fixpoint index_of (x : use_step) (l : list use_step) : nat :=
  match l with
  | [] => O
  | y :: t => match x, y with
              | UPeekReturn, UPeekReturn | UAddEdge, UAddEdge | UCleanReturn, UCleanReturn | URecompute, URecompute => O
              | _, _ => S (index_of x t)
              end
  end.
Definition edge_before_recompute (l : list use_step) : bool := Nat.ltb (index_of UAddEdge l) (index_of URecompute l).

(* --- Engine._update_loop: what the handler of OrderError does ---------------------------------------------------- *)
Inductive loop_op :=
| OpRequeue          (* work_items.append(WorkItem(node, row_ids, locks)): the interrupted item goes back *)
| OpKeepLocks        (* locks = []: its locks are not released now *)
| OpLockRequirer     (* lock = (node, e.requiring_row_id) *)
| OpLockNeeded       (* lock = (e.node, e.row_id)  (what the model does NOT do) *)
| OpPushNeeded       (* work_items.append(WorkItem(e.node, [e.row_id], [lock])) *)
| OpAddLock.         (* self._locked_cells.add(lock) *)
Definition model_on_order_error : list loop_op := [OpRequeue; OpKeepLocks; OpLockRequirer; OpPushNeeded; OpAddLock].
Definition loop_op_eqb (a b : loop_op) : bool :=
  match a, b with
  | OpRequeue, OpRequeue | OpKeepLocks, OpKeepLocks | OpLockRequirer, OpLockRequirer | OpLockNeeded, OpLockNeeded
  | OpPushNeeded, OpPushNeeded | OpAddLock, OpAddLock => true
  | _, _ => false
  end.

(* --- Engine._recompute_one_cell: the value of a cell evaluated with cycle = True ---------------------------------- *)
Definition model_cycle_value : value := VErr CircularRef.

(* --- Engine._recompute_step: the list collecting the changes (row, previous, value) of a node --------------------
   [AcquireKeep]: self._changes_map.setdefault(node, []) - what earlier steps of the same loop recorded for the node is
   kept, so at _post_update the map holds every change of the loop ([calc_changes]); [AcquireReset] would drop them. *)
Inductive changes_acquire := AcquireKeep | AcquireReset.
Definition model_changes_acquire : changes_acquire := AcquireKeep.

(* --- Engine._recompute_one_cell: an OrderError raised inside the user's code may be swallowed there (IFERROR,
   try/except); the engine remembers it (_cell_required_error) and re-raises it after the user code returned - for
   formula columns AND for trigger formulas of data columns.  In the model a read of a dirty cell ends the evaluation
   ([eval] returns ONeed) whatever the continuation would do with an error, for every cell alike. *)
Inductive pending_reraise := ReraiseAlways | ReraiseFormulaOnly.
Definition model_pending_reraise : pending_reraise := ReraiseAlways.
