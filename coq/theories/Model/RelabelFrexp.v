(* C20: math.frexp / math.ldexp / math.floor on the integer model of binary64 (Lib/Fl64.v): the vocabulary into which
   harness/relabel2v.py translates relabeling.range_around_float.  Hand-written, compared with CPython on every run. *)
From Coq Require Import ZArith List Bool.
Import ListNotations.
Require Import Grist.Lib.Fl64 Grist.Model.Relabel.
Open Scope Z_scope.

(* math.frexp(x) = (m, e) with x = m * 2^e and 0.5 <= |m| < 1; (x, 0) for 0, inf and nan *)
Definition ffrexp (x : fl) : fl * Z :=
  match x with
  | FFin s u =>
      if u =? 0 then (x, 0) else
      let l := Z.log2 u in
      (FFin s (if l <=? 1073 then Z.shiftl u (1073 - l) else Z.shiftr u (l - 1073)), l - 1073)
  | _ => (x, 0)
  end.

(* math.ldexp(x, n) = x * 2^n correctly rounded; OverflowError (code 5) when a finite non-zero x overflows *)
Definition fldexp (x : fl) (n : Z) : res fl :=
  match x with
  | FFin s u =>
      if u =? 0 then Ok x else
      match (if 0 <=? n then round_p2 s (Z.shiftl u n) 0 else round_p2 s u (- n)) with
      | FInf _ => Err 5
      | r => Ok r
      end
  | _ => Ok x
  end.

(* math.floor(x) for finite x (it raises for inf and nan, which the callers exclude) *)
Definition ffloor (x : fl) : Z :=
  match x with
  | FFin false u => Z.shiftr u 1074
  | FFin true u => - Z.shiftr (u + Z.ones 1074) 1074
  | _ => 0
  end.

(* harness interface: (opcode, pattern, n, expected) *)
Definition fx_bits (c : Z * Z * Z * list Z) : bool :=
  let '(op, a, n, e) := c in
  let x := decode a in
  let out :=
    match op with
    | 0 => [encode (fst (ffrexp x)); snd (ffrexp x)]
    | 1 => match fldexp x n with Ok r => [0; encode r] | Err c => [c] end
    | 2 => [ffloor x]
    | 3 => match fldexp (of_Z a) n with Ok r => [0; encode r] | Err c => [c] end
    | _ => []
    end in
  list_eqb Z.eqb out e.
