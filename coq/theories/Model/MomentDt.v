(* Primitive vocabulary for the datetime-level functions of moment.py that harness/mo2v.py translates into
   GristGen.MomentDt_gen on every run (TzInfo.utcoffset, TzInfo.fromutc, utc_to_ts_ms, ts_to_dt, dt_to_ts,
   date_to_ts, ts_to_date).  CPython's datetime/timedelta/date arithmetic is modelled here, once, over integer
   ticks (Model/Moment.v: 1 tick = 1/60 us; every seconds-, ms-, timedelta- and datetime-valued quantity is the
   same integer scale, so `x * 1000` from seconds to ms and timedelta(seconds=x)/total_seconds() are identities).
   [oob] is the arbitrary value standing for behaviour outside the model (see Lib/PyList.py_getitem); every
   theorem holds for all [oob]. *)
From Coq Require Import ZArith List Bool.
Import ListNotations.
Require Import Grist.Lib.PyPrelude Grist.Lib.PyList Grist.Model.Moment.
Open Scope Z_scope.

(* a moment.TzInfo object: TzInfo(zone, favor_offset) *)
Record tzinfo := mk_tz { tz_zone : zone; tz_favor : option Z }.

(* a datetime.datetime: its naive value (ticks from 1970-01-01 00:00, i.e. dt.replace(tzinfo=None) - EPOCH) and
   its tzinfo (None = naive) *)
Record pydt := mk_dt { d_naive : Z; d_tz : option tzinfo }.

(* module constants (pinned by mo2v: EPOCH = datetime(1970, 1, 1); DATE_EPOCH = EPOCH.date();
   TZ_UTC = tzinfo('UTC'); EPOCH_UTC = EPOCH.replace(tzinfo=TZ_UTC)); dates are day numbers *)
Definition utc_zone : zone := mk_zone_rec [] [0] [].
Definition EPOCH : pydt := mk_dt 0 None.
Definition DATE_EPOCH : Z := 0.
Definition TZ_UTC : tzinfo := mk_tz utc_zone None.
Definition EPOCH_UTC : pydt := mk_dt 0 (Some TZ_UTC).

(* zone.get_tzinfo(favor): a cached TzInfo(zone, favor) (pinned glue) *)
Definition py_get_tzinfo (z : zone) (favor : option Z) : tzinfo := mk_tz z favor.

(* dt.replace(tzinfo=t) *)
Definition py_replace_tzinfo (d : pydt) (t : option tzinfo) : pydt := mk_dt (d_naive d) t.
(* datetime + timedelta, datetime - timedelta: wall-clock arithmetic, tzinfo kept *)
Definition py_dt_add (d : pydt) (td : Z) : pydt := mk_dt (d_naive d + td) (d_tz d).
Definition py_dt_sub_td (d : pydt) (td : Z) : pydt := mk_dt (d_naive d - td) (d_tz d).
(* datetime - datetime of two NAIVE datetimes (the only use in moment.py); mixing naive and aware raises
   TypeError and aware - aware subtracts utc offsets: outside the model *)
Definition py_dt_sub_dt (oob : Z) (a b : pydt) : Z :=
  match d_tz a, d_tz b with
  | None, None => d_naive a - d_naive b
  | _, _ => oob
  end.
(* dt.date() as a day number (floor) *)
Definition py_dt_date (d : pydt) : Z := d_naive d / TICKS_PER_DAY.

(* timedelta(seconds=x), td.total_seconds(), seconds * 1000 (-> ms), timedelta(0): identities in ticks *)
Definition py_timedelta_seconds (x : Z) : Z := x.
Definition py_total_seconds (td : Z) : Z := td.
Definition py_sec_to_ms (x : Z) : Z := x.

(* date - date (a timedelta of whole days), date + timedelta (only timedelta.days counts: floor) *)
Definition py_date_sub (a b : Z) : Z := (a - b) * TICKS_PER_DAY.
Definition py_date_add_td (d td : Z) : Z := d + td / TICKS_PER_DAY.
