(* Concrete cell values for the event-trace tie of K1: Grist-encoded values (what actions.get_action_repr /
   fetch_table show), the column-class normalisation of Column.set on them, and the check functions the
   harness evaluates with vm_compute.  Model only (no proofs). *)
From Coq Require Import ZArith List Bool.
Import ListNotations.
Require Import Grist.Model.ActionLog.
Open Scope Z_scope.

(* floats are m * 2^e exactly (any m, e); EFloatSpec: 0 nan, 1 +inf, 2 -inf, 3 -0.0 *)
Inductive ev :=
| ENull
| EBool (b : bool)
| EInt (n : Z)
| EFloat (m e : Z)
| EFloatSpec (k : Z)
| EStr (s : list Z)
| EList (l : list ev)
| EDict (l : list (list Z * ev)).

Inductive numv := NNan | NInf (neg : bool) | NFin (m e : Z).

Definition num_eq (a b : numv) : bool :=
  match a, b with
  | NNan, NNan => true                     (* only reached where Python compares identical objects *)
  | NInf x, NInf y => Bool.eqb x y
  | NFin m1 e1, NFin m2 e2 =>
      let e := Z.min e1 e2 in Z.eqb (m1 * 2 ^ (e1 - e)) (m2 * 2 ^ (e2 - e))
  | _, _ => false
  end.

Definition float_num (x : ev) : option numv :=
  match x with
  | EFloat m e => Some (NFin m e)
  | EFloatSpec 0 => Some NNan
  | EFloatSpec 1 => Some (NInf false)
  | EFloatSpec 2 => Some (NInf true)
  | EFloatSpec _ => Some (NFin 0 0)
  | _ => None
  end.

(* the numeric tower as Python's == sees it inside containers: bool < int < float *)
Definition any_num (x : ev) : option numv :=
  match x with
  | EBool b => Some (NFin (if b then 1 else 0) 0)
  | EInt n => Some (NFin n 0)
  | _ => float_num x
  end.

Fixpoint zlist_eqb (a b : list Z) : bool :=
  match a, b with
  | [], [] => true
  | x :: a', y :: b' => Z.eqb x y && zlist_eqb a' b'
  | _, _ => false
  end.

(* Python == on encoded values *)
Fixpoint ev_pyeq (a b : ev) {struct a} : bool :=
  match any_num a, any_num b with
  | Some x, Some y => num_eq x y
  | Some _, None | None, Some _ => false
  | None, None =>
      match a, b with
      | ENull, ENull => true
      | EStr s, EStr s' => zlist_eqb s s'
      | EList l, EList l' =>
          (fix go (l l' : list ev) {struct l} : bool :=
             match l, l' with
             | [], [] => true
             | x :: t, y :: t' => ev_pyeq x y && go t t'
             | _, _ => false
             end) l l'
      | EDict l, EDict l' =>
          (fix go (l : list (list Z * ev)) (l' : list (list Z * ev)) {struct l} : bool :=
             match l, l' with
             | [], [] => true
             | (k, x) :: t, (k', y) :: t' => zlist_eqb k k' && ev_pyeq x y && go t t'
             | _, _ => false
             end) l l'
      | _, _ => false
      end
  end.

Definition is_bool (x : ev) : bool := match x with EBool _ => true | _ => false end.
Definition is_float (x : ev) : bool := match float_num x with Some _ => true | None => false end.
Definition is_nan (x : ev) : bool := match x with EFloatSpec 0 => true | _ => false end.

(* objtypes.equal_encoding *)
Definition ev_enc (a b : ev) : bool :=
  if is_float a && is_float b then ev_pyeq a b
  else if is_bool a || is_bool b then
    match a, b with EBool x, EBool y => Bool.eqb x y | _, _ => false end
  else ev_pyeq a b.

Definition ev_class (x : ev) : Z :=
  match x with
  | ENull => 0 | EBool _ => 1 | EInt _ => 2 | EFloat _ _ => 3 | EFloatSpec _ => 3
  | EStr _ => 4 | EList _ => 5 | EDict _ => 6
  end.

(* objtypes.strict_equal: same type and == ; nan is not equal to itself *)
Definition ev_strict (a b : ev) : bool :=
  Z.eqb (ev_class a) (ev_class b) && negb (is_nan a) && ev_pyeq a b.

(* structural identity used when the tie compares model output with engine output *)
Fixpoint ev_same (a b : ev) {struct a} : bool :=
  match a, b with
  | ENull, ENull => true
  | EBool x, EBool y => Bool.eqb x y
  | EInt x, EInt y => Z.eqb x y
  | EFloat m e, EFloat m' e' => num_eq (NFin m e) (NFin m' e')
  | EFloatSpec k, EFloatSpec k' => Z.eqb k k'
  | EStr s, EStr s' => zlist_eqb s s'
  | EList l, EList l' =>
      (fix go (l l' : list ev) {struct l} : bool :=
         match l, l' with
         | [], [] => true
         | x :: t, y :: t' => ev_same x y && go t t'
         | _, _ => false
         end) l l'
  | EDict l, EDict l' =>
      (fix go (l : list (list Z * ev)) (l' : list (list Z * ev)) {struct l} : bool :=
         match l, l' with
         | [], [] => true
         | (k, x) :: t, (k', y) :: t' => zlist_eqb k k' && ev_same x y && go t t'
         | _, _ => false
         end) l l'
  | _, _ => false
  end.

(* ------------------------------------------------------------------------------------------------ *)
(* Column.set by column class.  kinds: 0 BaseColumn.set, 1 BoolColumn, 2 NumericColumn (Numeric, Date,
   DateTime, PositionNumber, ManualSortPos), 3 ReferenceColumn, 4 ChoiceListColumn, 5 ReferenceListColumn.
   Kinds 4 and 5 change a value only when it is a str (json.loads / RecordList.from_repr); such traces
   are outside the tie and are counted by the harness.  NumericColumn turns an int into the float of the same
   value, exact below 2^53 (the harness counts larger ints as outside the tie). *)

Definition norm_bool (v : ev) : ev :=
  match any_num v with
  | Some x => if num_eq x (NFin 1 0) then EBool true else if num_eq x (NFin 0 0) then EBool false else v
  | None => v
  end.

Definition norm_numeric (v : ev) : ev := match v with EInt n => EFloat n 0 | _ => v end.

Definition norm_ref (v : ev) : ev :=
  match v with
  | EFloat m e =>
      let n := if Z.leb 0 e then Some (m * 2 ^ e)
               else if Z.eqb (m mod 2 ^ (- e)) 0 then Some (m / 2 ^ (- e)) else None in
      match n with
      | Some k => if Z.ltb 0 k && Z.ltb k (2 ^ 31) then EInt k else v
      | None => v
      end
  | _ => v
  end.

Definition norm_kind (k : Z) (v : ev) : ev :=
  match k with
  | 1 => norm_bool v
  | 2 => norm_numeric v
  | 3 => norm_ref v
  | _ => v
  end.

Fixpoint tbl_get {A} (tbl : list (name * A)) (k : name) : option A :=
  match tbl with
  | [] => None
  | (k', v) :: t => if name_eqb k k' then Some v else tbl_get t k
  end.

(* per type string, as the running usertypes/column modules report it: (default, kind) *)
Definition typetable := list (name * (ev * Z)).

Definition no_default : ev := EStr [60; 110; 111; 32; 100; 101; 102; 97; 117; 108; 116; 62].  (* "<no default>" *)

Definition EOps (tt : typetable) : ValOps :=
  mkValOps ev ev_strict ev_enc
    (fun ty => match tbl_get tt ty with Some (d, _) => d | None => no_default end)
    (fun ty v => match tbl_get tt ty with Some (_, k) => norm_kind k v | None => v end).

(* ------------------------------------------------------------------------------------------------ *)
(* comparing action lists and states with what the engine produced *)

Definition oeqb {A} (f : A -> A -> bool) (a b : option A) : bool :=
  match a, b with None, None => true | Some x, Some y => f x y | _, _ => false end.

Fixpoint list_eqb {A} (f : A -> A -> bool) (a b : list A) : bool :=
  match a, b with
  | [], [] => true
  | x :: a', y :: b' => f x y && list_eqb f a' b'
  | _, _ => false
  end.

(* column dictionaries are compared as dictionaries (key order is not significant) *)
Definition colvals_eqb (a b : list (name * list ev)) : bool :=
  Nat.eqb (length a) (length b) &&
  forallb (fun kv => match tbl_get b (fst kv) with
                     | Some vs => list_eqb ev_same (snd kv) vs
                     | None => false
                     end) a.

Definition modinfo_eqb (a b : modinfo) : bool :=
  oeqb name_eqb (mi_type a) (mi_type b) && oeqb Bool.eqb (mi_isformula a) (mi_isformula b) &&
  oeqb name_eqb (mi_formula a) (mi_formula b) && oeqb oname_eqb (mi_rev a) (mi_rev b).

Definition action_eqb (tt : typetable) (a b : action (EOps tt)) : bool :=
  match a, b with
  | BulkAddRecord _ t r c, BulkAddRecord _ t' r' c' => name_eqb t t' && zlist_eqb r r' && colvals_eqb c c'
  | BulkRemoveRecord _ t r, BulkRemoveRecord _ t' r' => name_eqb t t' && zlist_eqb r r'
  | BulkUpdateRecord _ t r c, BulkUpdateRecord _ t' r' c' => name_eqb t t' && zlist_eqb r r' && colvals_eqb c c'
  | ReplaceTableData _ t r c, ReplaceTableData _ t' r' c' => name_eqb t t' && zlist_eqb r r' && colvals_eqb c c'
  | AddColumn _ t c i, AddColumn _ t' c' i' => name_eqb t t' && name_eqb c c' && colinfo_eqb i i'
  | RemoveColumn _ t c, RemoveColumn _ t' c' => name_eqb t t' && name_eqb c c'
  | RenameColumn _ t o n, RenameColumn _ t' o' n' => name_eqb t t' && name_eqb o o' && name_eqb n n'
  | ModifyColumn _ t c m, ModifyColumn _ t' c' m' => name_eqb t t' && name_eqb c c' && modinfo_eqb m m'
  | AddTable _ t cs, AddTable _ t' cs' =>
      name_eqb t t' && list_eqb (fun x y => name_eqb (fst x) (fst y) && colinfo_eqb (snd x) (snd y)) cs cs'
  | RemoveTable _ t, RemoveTable _ t' => name_eqb t t'
  | RenameTable _ o n, RenameTable _ o' n' => name_eqb o o' && name_eqb n n'
  | _, _ => false
  end.

(* a table as the harness reads it from the engine: id, sorted row ids, columns (id, info, values by row) *)
Definition snap_col := (name * colinfo * list ev)%type.
Definition snap_table := (name * list Z * list snap_col)%type.
Definition snapshot := list snap_table.

Definition state_of_snapshot (tt : typetable) (sn : snapshot) : state (EOps tt) :=
  map (fun st : snap_table =>
         let '(t, rows, cols) := st in
         mkTab (EOps tt) t rows
               (map (fun sc : snap_col => let '(c, info, vals) := sc in
                                          mkCol (EOps tt) c info (combine rows vals)) cols)) sn.

Definition table_matches (tt : typetable) (T : table (EOps tt)) (st : snap_table) : bool :=
  let '(_, rows, cols) := st in
  zlist_eqb (t_rows _ T) rows &&
  Nat.eqb (length (t_cols _ T)) (length cols) &&
  forallb (fun sc : snap_col =>
             let '(c, info, vals) := sc in
             match find_col _ (t_cols _ T) c with
             | Some C => colinfo_eqb (c_info _ C) info && list_eqb ev_same (map (col_get _ C) rows) vals
             | None => false
             end) cols.

(* the same up to encoding (the equivalence of the theorems): schema as a map, row ids, cells by ev_enc *)
Definition table_equiv (tt : typetable) (T : table (EOps tt)) (st : snap_table) : bool :=
  let '(_, rows, cols) := st in
  zlist_eqb (t_rows _ T) rows &&
  Nat.eqb (length (t_cols _ T)) (length cols) &&
  forallb (fun sc : snap_col =>
             let '(c, info, vals) := sc in
             match find_col _ (t_cols _ T) c with
             | Some C => colinfo_eqb (c_info _ C) info && list_eqb ev_enc (map (col_get _ C) rows) vals
             | None => false
             end) cols.

Definition state_equiv (tt : typetable) (s : state (EOps tt)) (sn : snapshot) : bool :=
  Nat.eqb (length s) (length sn) &&
  forallb (fun st : snap_table =>
             match find_table _ s (fst (fst st)) with
             | Some T => table_equiv tt T st
             | None => false
             end) sn.

Definition state_matches (tt : typetable) (s : state (EOps tt)) (sn : snapshot) : bool :=
  Nat.eqb (length s) (length sn) &&
  forallb (fun st : snap_table =>
             match find_table _ s (fst (fst st)) with
             | Some T => table_matches tt T st
             | None => false
             end) sn.

(* ------------------------------------------------------------------------------------------------ *)
(* one recorded bundle.  Every event comes with the undo actions the engine appended while it ran (for Doc
   events; [] otherwise). *)

Record trace (tt : typetable) := mkTrace {
  tr_start : snapshot;
  tr_events : list (event (EOps tt) * list (action (EOps tt)));
  tr_stored : list (action (EOps tt));
  tr_undo : list (action (EOps tt));
  tr_final : snapshot;
}.
Arguments tr_start {tt} t.
Arguments tr_events {tt} t.
Arguments tr_stored {tt} t.
Arguments tr_undo {tt} t.
Arguments tr_final {tt} t.

Fixpoint tbl_getz {A} (tbl : list (Z * A)) (k : Z) : option A :=
  match tbl with
  | [] => None
  | (k', v) :: t => if Z.eqb k k' then Some v else tbl_getz t k
  end.

(* SC1: a Doc event writes cells of a column for which the summary holds a delta.
   SC2: the `before` of a Calc differs from the current cell (within one Calc a later change of the same row
        starts from the earlier `after`). *)
Definition pending_col (tt : typetable) (sm : summary (EOps tt)) (t c : name) : bool :=
  match td_find _ (sm_tables _ sm) t with
  | Some td => match cd_find _ (td_deltas _ td) c with Some (_ :: _) => true | _ => false end
  | None => false
  end.

Definition writes_pending (tt : typetable) (sm : summary (EOps tt)) (a : action (EOps tt)) : bool :=
  match a with
  | BulkUpdateRecord _ t _ cols => existsb (fun kv => pending_col tt sm t (fst kv)) cols
  | ModifyColumn _ t c _ => pending_col tt sm t c
  | _ => false
  end.

Definition calc_before_ok (tt : typetable) (m : mstate (EOps tt)) (t c : name)
                          (chs : list (change (EOps tt))) : bool :=
  match find_table _ (m_doc _ m) t with
  | None => false
  | Some T =>
      match find_col _ (t_cols _ T) c with
      | None => false
      | Some C =>
          fst (fold_left (fun (acc : bool * list (Z * ev)) (ch : change (EOps tt)) =>
                            let '(ok, seen) := acc in
                            let r := fst ch in
                            let cur := match tbl_getz seen r with
                                       | Some v => v
                                       | None => col_get _ C r end in
                            (ok && ev_same cur (fst (snd ch)),
                             (r, vnorm (EOps tt) (ci_type (c_info _ C)) (snd (snd ch))) :: seen))
                         chs (true, []))
      end
  end.

Record walkres := mkWalk {
  w_accepted : bool;      (* the model accepts every event *)
  w_undo_inc : bool;      (* every Doc event appends the undo actions the engine appended *)
  w_sc1 : bool;
  w_sc2 : bool;
  w_stored : bool;        (* final stored list = engine's *)
  w_undo : bool;          (* final undo list = engine's *)
  w_state : bool;         (* final tables = engine's *)
}.

Definition ends_with (tt : typetable) (l inc : list (action (EOps tt))) (old_len : nat) : bool :=
  list_eqb (action_eqb tt) (skipn old_len l) inc.

Fixpoint walk_events (tt : typetable) (m : mstate (EOps tt))
                     (evs : list (event (EOps tt) * list (action (EOps tt))))
                     (inc sc1 sc2 : bool) : option (mstate (EOps tt)) * (bool * bool * bool) :=
  match evs with
  | [] => (Some m, (inc, sc1, sc2))
  | (e, expected) :: rest =>
      let sc1' := match e with Doc _ a => sc1 && negb (writes_pending tt (m_sum _ m) a) | _ => sc1 end in
      let sc2' := match e with Calc _ t c chs => sc2 && calc_before_ok tt m t c chs | _ => sc2 end in
      match step _ m e with
      | Err _ => (None, (inc, sc1', sc2'))
      | Ok m' =>
          let inc' := match e with
                      | Doc _ _ => inc && ends_with tt (m_undo _ m') expected (length (m_undo _ m))
                      | _ => inc
                      end in
          walk_events tt m' rest inc' sc1' sc2'
      end
  end.

Definition walk (tt : typetable) (tr : trace tt) : walkres :=
  let m0 := mkM (EOps tt) (state_of_snapshot tt (tr_start tr)) [] [] (sum_empty _) in
  match walk_events tt m0 (tr_events tr) true true true with
  | (None, (inc, sc1, sc2)) => mkWalk false inc sc1 sc2 false false false
  | (Some m, (inc, sc1, sc2)) =>
      match step _ m (FlushAll _) with
      | Err _ => mkWalk false inc sc1 sc2 false false false
      | Ok mf =>
          mkWalk true inc sc1 sc2
                 (list_eqb (action_eqb tt) (m_stored _ mf) (tr_stored tr))
                 (list_eqb (action_eqb tt) (m_undo _ mf) (tr_undo tr))
                 (state_matches tt (m_doc _ mf) (tr_final tr))
      end
  end.

Definition tie_ok (tt : typetable) (tr : trace tt) : bool :=
  let w := walk tt tr in
  w_accepted w && w_undo_inc w && w_stored w && w_undo w && w_state w.

Definition sc1_ok (tt : typetable) (tr : trace tt) : bool := w_sc1 (walk tt tr).
Definition sc2_ok (tt : typetable) (tr : trace tt) : bool := w_sc2 (walk tt tr).

(* model-level undo/redo of the recorded bundle, on the engine's own outputs: replaying the engine's undo
   list reversed on the final tables gives the start tables; then the stored list gives the final tables *)
Definition undo_redo_ok (tt : typetable) (tr : trace tt) : bool :=
  match replay_doc _ (rev (tr_undo tr)) (state_of_snapshot tt (tr_final tr)) with
  | Err _ => false
  | Ok s0 =>
      state_matches tt s0 (tr_start tr) &&
      match replay_doc _ (tr_stored tr) s0 with
      | Err _ => false
      | Ok s1 => state_matches tt s1 (tr_final tr)
      end
  end.

(* the same, but cells of formula columns are not compared (the engine recomputes them after the doc actions) *)
Definition table_equiv_data (tt : typetable) (T : table (EOps tt)) (st : snap_table) : bool :=
  let '(_, rows, cols) := st in
  zlist_eqb (t_rows _ T) rows &&
  Nat.eqb (length (t_cols _ T)) (length cols) &&
  forallb (fun sc : snap_col =>
             let '(c, info, vals) := sc in
             match find_col _ (t_cols _ T) c with
             | Some C => colinfo_eqb (c_info _ C) info &&
                         (ci_isformula info || list_eqb ev_enc (map (col_get _ C) rows) vals)
             | None => false
             end) cols.

Definition state_equiv_data (tt : typetable) (s : state (EOps tt)) (sn : snapshot) : bool :=
  Nat.eqb (length s) (length sn) &&
  forallb (fun st : snap_table =>
             match find_table _ s (fst (fst st)) with
             | Some T => table_equiv_data tt T st
             | None => false
             end) sn.

(* 128: the engine's undo list, replayed by the model on the final tables, does not give the start tables
        (2048: not even on schema, row ids and the cells of data columns);
   256: the engine's stored list, replayed on the undone tables (on the start tables when the undo replay is not
        defined), does not give the final tables (4096: not even on schema, row ids and data cells) *)
Definition undo_redo_code (tt : typetable) (tr : trace tt) : Z :=
  let redo_from s0 :=
    match replay_doc _ (tr_stored tr) s0 with
    | Err _ => 256 + 4096
    | Ok s1 => (if state_equiv tt s1 (tr_final tr) then 0 else 256) +
               (if state_equiv_data tt s1 (tr_final tr) then 0 else 4096)
    end in
  match replay_doc _ (rev (tr_undo tr)) (state_of_snapshot tt (tr_final tr)) with
  | Err _ => 128 + 2048 + redo_from (state_of_snapshot tt (tr_start tr))
  | Ok s0 => (if state_equiv tt s0 (tr_start tr) then 0 else 128) +
             (if state_equiv_data tt s0 (tr_start tr) then 0 else 2048) + redo_from s0
  end.

(* monitor of the value laws the theorems assume (ValLaws), on the values that occur in a recorded trace; the last
   conjunct is tt_ok of Proofs/ActionLogEnc_laws.v (under which ValLaws is proved for EOps tt) *)
Definition snapshot_values (sn : snapshot) : list ev :=
  flat_map (fun st : snap_table => flat_map (fun sc : snap_col => snd sc) (snd st)) sn.

Definition laws_monitor (tt : typetable) (tr : trace tt) : bool :=
  let vals := snapshot_values (tr_start tr) ++ snapshot_values (tr_final tr) in
  forallb (fun v => ev_enc v v &&
                    forallb (fun k => ev_enc (norm_kind k (norm_kind k v)) (norm_kind k v) &&
                                      (negb (ev_strict v (norm_kind k v)) || ev_enc v (norm_kind k v)))
                            [0; 1; 2; 3]) vals &&
  forallb (fun e : name * (ev * Z) => let '(_, (d, k)) := e in ev_enc (norm_kind k d) d) tt.
