(* C27 -- row id allocation (useractions.py UserActions.doBulkAddOrReplace, docactions.py
   DocActions.BulkAddRecord / ReplaceTableData, table.py Table.RowIDs / next_row_id).

   The validation loop and the id-filling loop are ALSO translated from /repo's source on every run
   (GristGen.RowIds_gen, harness/py2v_ext.py); Proofs/RowIds_proofs.v proves that translation equal to [alloc]
   below, so every theorem about [alloc] is a theorem about the code as it is now.  Everything else in this file
   is written by hand and compared with the running engine by harness/props/c27.py.
   History: until fix e346da4 the loop accepted explicit 0, repeated explicit ids, and gave automatic slots ids
   that a later slot asked for explicitly; the old witnesses are regression Examples in Props/C27.v.

   Model only: no proofs here. *)
From Coq Require Import ZArith List Bool.
Import ListNotations.
Require Import Grist.Lib.PyPrelude Grist.Lib.PyMonad.
Open Scope Z_scope.

(* A requested row id: None (Python None) or an int.  None and negative ints ask for an automatic id. *)
Definition rid := option Z.
Definition MAX_ROW_ID : Z := 1000000.

(* the explicit (non-automatic) id a request slot carries, if any *)
Definition explicit (r : rid) : option Z :=
  match r with
  | None => None
  | Some z => if z <? 0 then None else Some z
  end.
Definition is_auto (r : rid) : bool := match explicit r with None => true | Some _ => false end.
Definition explicit_ids (req : list rid) : list Z :=
  flat_map (fun r => match explicit r with Some z => [z] | None => [] end) req.

(* ---- the table's set of row ids (table.py Table.RowIDs over the `id` column) -------------------------- *)

(* The `id` column holds r at index r for existing rows and 0 elsewhere; the set of valid ids is modelled by
   the list of existing ids (positive, no repeats: [wf_rows]). *)
Definition rows := list Z.
Definition wf_rows (rs : rows) : Prop := NoDup rs /\ Forall (fun r => 0 < r) rs.

(* RowIDs.__contains__: 0 < row_id < size and raw_get(row_id) > 0 *)
Definition row_in (r : Z) (rs : rows) : bool := (0 <? r) && py_mem Z.eqb r rs.
(* RowIDs.max(): the largest existing id, 0 for an empty table *)
Definition max_row (rs : rows) : Z := fold_right Z.max 0 rs.
(* Table.next_row_id *)
Definition next_row_id (rs : rows) : Z := max_row rs + 1.

(* Engine.add_records: id_column.set(r, r) for every r.  Setting index 0 to 0 creates nothing; setting an
   index that already holds r changes nothing. *)
Definition add_row (rs : rows) (r : Z) : rows :=
  if (0 <? r) && negb (py_mem Z.eqb r rs) then rs ++ [r] else rs.
Definition add_rows (rs : rows) (ids : list Z) : rows := fold_left add_row ids rs.

(* DocActions.BulkAddRecord: the existence assertion runs over all ids before anything is changed. *)
Definition doc_bulk_add (rs : rows) (ids : list Z) : py_result rows :=
  if existsb (fun r => row_in r rs) ids then PyErr PyAssertionError else PyOk (add_rows rs ids).
(* DocActions.ReplaceTableData -> Engine.load_table: all columns cleared, then add_records. *)
Definition doc_replace (ids : list Z) : rows := add_rows [] ids.

(* What the caller sees: the returned ids and the table's row ids afterwards, or the exception (the engine
   then rolls the bundle back: the table is as before). *)
Inductive outcome : Type :=
  | Accepted (ret : list Z) (after : rows)
  | Rejected (e : py_exc).

Definition rows_after (rs : rows) (o : outcome) : rows :=
  match o with Accepted _ a => a | Rejected _ => rs end.

Definition finish (replace : bool) (rs : rows) (out : list Z) : outcome :=
  if replace then Accepted out (doc_replace out)
  else match doc_bulk_add rs out with
       | PyOk rs' => Accepted out rs'
       | PyErr e => Rejected e
       end.

(* ---- validation of the requested ids and the id-filling loop, as coded (since fix e346da4) ----------- *)

(*  seen = set()
    for row_id in row_ids:
      if row_id is None or row_id < 0: continue
      if row_id > 1000000: raise ValueError("Row ID too high")
      if row_id == 0 or row_id in seen: raise ValueError("Row ID %s is invalid or repeated")
      seen.add(row_id)
      next_row_id = max(next_row_id, row_id + 1)
    (an id that is already in use is still refused by the doc action's assertion)                        *)
Fixpoint validate_ids (seen : list Z) (next : Z) (req : list rid) : py_result Z :=
  match req with
  | [] => PyOk next
  | r :: t =>
      match explicit r with
      | None => validate_ids seen next t
      | Some z =>
          if z >? MAX_ROW_ID then PyErr PyValueError
          else if (z =? 0) || py_mem Z.eqb z seen then PyErr PyValueError
          else validate_ids (seen ++ [z]) (Z.max next (z + 1)) t
      end
  end.

(*  for i, row_id in enumerate(filled_row_ids):
      if row_id is None or row_id < 0:
        filled_row_ids[i] = next_row_id
        next_row_id += 1                                                                                 *)
Fixpoint fill_autos (next : Z) (req : list rid) : list Z :=
  match req with
  | [] => []
  | r :: t => match explicit r with
              | None => next :: fill_autos (next + 1) t
              | Some z => z :: fill_autos next t
              end
  end.

(* both loops: what the translated fragment computes from (row_ids, next_row_id) *)
Definition alloc (next : Z) (req : list rid) : py_result (list Z) :=
  match validate_ids [] next req with
  | PyOk next' => PyOk (fill_autos next' req)
  | PyErr e => PyErr e
  end.

(* UserActions.doBulkAddOrReplace (BulkAddRecord / AddRecord: replace = false; ReplaceTableData: replace = true) *)
Definition do_bulk_add_or_replace (replace : bool) (rs : rows) (req : list rid) : outcome :=
  match alloc (if replace then 1 else next_row_id rs) req with
  | PyErr e => Rejected e
  | PyOk out => finish replace rs out
  end.

(* ---- the property (C27), stated for any implementation f of the user action ------------------------- *)

(* Accepted requests: returned ids are distinct, none existed before, explicit ids are honoured, automatic
   ids are greater than every existing id, and the rows afterwards are exactly existing + returned. *)
Definition alloc_statement (f : rows -> list rid -> outcome) (rs : rows) (req : list rid) : Prop :=
  forall out rs', f rs req = Accepted out rs' ->
    NoDup out /\
    (forall r, In r out -> ~ In r rs) /\
    Forall2 (fun r o => match explicit r with
                        | Some z => o = z
                        | None => forall e, In e rs -> e < o
                        end) req out /\
    (forall r, In r rs' <-> In r rs \/ In r out) /\
    wf_rows rs'.

(* Requests that cannot create exactly the requested distinct rows. *)
Definition bad_request (check_existing : bool) (rs : rows) (req : list rid) : Prop :=
  (exists z, In z (explicit_ids req) /\ z > MAX_ROW_ID) \/
  In 0 (explicit_ids req) \/
  ~ NoDup (explicit_ids req) \/
  (check_existing = true /\ exists z, In z (explicit_ids req) /\ In z rs).

Definition rejects_statement (f : rows -> list rid -> outcome) (check_existing : bool)
  (rs : rows) (req : list rid) : Prop :=
  bad_request check_existing rs req ->
  (exists e, f rs req = Rejected e) /\ rows_after rs (f rs req) = rs.

(* For ReplaceTableData every old row goes away first: "existing" is empty for the purposes of the statement. *)
Definition replace_as_add (f : bool -> rows -> list rid -> outcome) (old : rows) : rows -> list rid -> outcome :=
  fun _ req => f true old req.

(* The two full statements of C27, for an implementation f of doBulkAddOrReplace (f replace rows request). *)
Definition alloc_full (f : bool -> rows -> list rid -> outcome) : Prop :=
  (forall rs req, wf_rows rs -> alloc_statement (f false) rs req) /\
  (forall old req, wf_rows old -> alloc_statement (replace_as_add f old) [] req).

Definition rejects_full (f : bool -> rows -> list rid -> outcome) : Prop :=
  forall replace rs req, wf_rows rs -> rejects_statement (f replace) (negb replace) rs req.

(* boolean forms used by the correspondence check and the examples *)
Fixpoint nodupb (l : list Z) : bool :=
  match l with
  | [] => true
  | x :: t => negb (py_mem Z.eqb x t) && nodupb t
  end.
Definition subsetb (a b : list Z) : bool := forallb (fun x => py_mem Z.eqb x b) a.
Definition same_setb (a b : list Z) : bool := subsetb a b && subsetb b a.

Definition outcome_eqb (o p : outcome) : bool :=
  match o, p with
  | Accepted r a, Accepted r' a' => py_list_eqb Z.eqb r r' && same_setb a a' && nodupb a
  | Rejected e, Rejected e' => py_exc_eqb e e'
  | _, _ => false
  end.
