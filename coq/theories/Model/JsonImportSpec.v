(* Specification vocabulary for C33 (what "the tables reconstruct the document" means).  Definitions
   only. *)
From Coq Require Import ZArith List Bool Arith.
Import ListNotations.
Require Import Grist.Model.JsonImport.

Section Spec.
Variable inc : str -> bool.          (* the include/exclude filter on table and property paths *)
Variable ts : list ttable.           (* the imported tables (before _dump_value) *)

(* an item added to table T got row `row` there (None: the table is filtered out) *)
Definition row_ok (T : str) (row : option nat) : Prop :=
  match row with
  | Some r => inc T = true /\ 1 <= r <= tnrows ts T
  | None => inc T = false
  end.

(* `repr v T row`: the item v (a top-level item, a nested object or an array element; a non-dict item
   counts as {'': item}) is row `row` of table T, and all it contains is in the tables:
   - a scalar under key k is the cell of column k in that row (when the path T_k is kept);
   - an object under key k is itself represented by some row of table T_k, and the cell of column k
     holds the reference (T_k, that row);
   - every element of an array under key k is itself represented by some row of table T_k whose
     parent-column entry is the reference (T, row). *)
Inductive repr : json -> str -> option nat -> Prop :=
| Repr : forall v T row,
    row_ok T row ->
    (forall k s r, In (k, JS s) (fields v) -> row = Some r -> inc (sub T k) = true ->
       tcell ts T k r = Some (CS s)) ->
    (forall k o, In (k, JObj o) (fields v) ->
       exists row', repr (JObj o) (sub T k) row' /\
         forall r r', row = Some r -> row' = Some r' -> tcell ts T k r = Some (CR (sub T k, r'))) ->
    (forall k l e, In (k, JArr l) (fields v) -> In e l ->
       exists row', repr e (sub T k) row' /\
         forall r r', row = Some r -> row' = Some r' -> tparent ts (sub T k) r' = Some (CR (T, r))) ->
    repr v T row.

End Spec.

(* `item_at d name v T`: v is an item of document d with table path T -- a top-level item (path = the
   import name), an object under key k of an item at path P (path P_k), or an element of an array under
   key k of an item at path P (path P_k), at any depth *)
Inductive item_at (d : json) (name : str) : json -> str -> Prop :=
| item_top : forall v, In v (top_items d) -> item_at d name v name
| item_obj : forall v T k o, item_at d name v T -> In (k, JObj o) (fields v) -> item_at d name (JObj o) (sub T k)
| item_elem : forall v T k l e, item_at d name v T -> In (k, JArr l) (fields v) -> In e l ->
    item_at d name e (sub T k).

(* which scalars of the document are kept: the row's table and the property path *)
Definition kept (inc : str -> bool) (t : str * str * scalar) : bool :=
  inc (fst (fst t)) && inc (sub (fst (fst t)) (snd (fst t))).

(* all (table path, key, scalar) of the whole document *)
Definition doc_scalars_top (name : str) (d : json) : list (str * str * scalar) :=
  flat_map (fun v => doc_scalars v name) (top_items d).
Definition doc_items_top (name : str) (d : json) : list str :=
  flat_map (fun v => doc_items v name) (top_items d).

(* ---- what the dumped form can tell ---- *)

(* the row count as far as the dumped table shows it *)
Definition dumped_nrows (t : dtable) : option nat :=
  match snd t with
  | [] => None
  | c :: _ => Some (length (snd c))
  end.

(* a cell is described by the type of its column: references to table t only in 'Ref:t' columns, scalars
   only in columns that are not reference columns *)
Definition cell_described (ty : str) (c : cell) : bool :=
  match c with
  | CR (t, _) => str_eqb ty (s_RefColon ++ t)
  | CS SNull => true
  | CS _ => negb (prefixb s_RefColon ty)
  end.

(* reading a dumped cell back, given the column type *)
Definition undump (ty : str) (d : dcell) : cell :=
  match d with
  | DNone => cnone
  | DBool b => CS (SBool b)
  | DFloat f => CS (SFloat f)
  | DStr s => CS (SStr s)
  | DInt n =>
      if prefixb s_RefColon ty then CR (skipn (length s_RefColon) ty, Z.to_nat n) else CS (SInt n)
  end.
