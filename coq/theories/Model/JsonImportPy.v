(* Python primitives used by the code generated from imports/import_json.py (harness/ij2v.py writes
   coq/gen/JsonImport_gen.v in terms of these).  Definitions only.  The value types (json, cell, ref, event)
   are those of Model/JsonImport.v. *)
From Coq Require Import ZArith List Bool Arith.
Import ListNotations.
Require Import Grist.Model.JsonImport.

(* ---- str, list, truthiness *)
Definition py_startswith (s p : str) : bool := prefixb p s.
Definition py_truthy_list {A} (l : list A) : bool := match l with [] => false | _ => true end.
Definition py_truthy_opt {A} (o : option A) : bool := match o with Some _ => true | None => false end.
Definition py_filter_none (l : list str) : list str := filter py_truthy_list l.   (* filter(None, strings) *)

(* s.split(c) for a one-character separator *)
Fixpoint py_split_aux (c : Z) (s cur : str) : list str :=
  match s with
  | [] => [rev cur]
  | x :: s' => if Z.eqb x c then rev cur :: py_split_aux c s' [] else py_split_aux c s' (x :: cur)
  end.
Definition py_split (s : str) (sep : str) : list str :=
  match sep with [c] => py_split_aux c s [] | _ => [s] end.

Definition py_str_nat (n : nat) : str := dec n.           (* '{}'.format(n) *)

(* ---- type(value), isinstance, attributes of Ref, for values that can sit in a cell *)
Inductive pytype := TyInt | TyFloat | TyBool | TyStr | TyNone | TyRef.
Definition pytype_eqb (a b : pytype) : bool :=
  match a, b with
  | TyInt, TyInt | TyFloat, TyFloat | TyBool, TyBool | TyStr, TyStr | TyNone, TyNone | TyRef, TyRef => true
  | _, _ => false
  end.
Definition py_type (c : cell) : pytype :=
  match c with
  | CR _ => TyRef
  | CS SNull => TyNone
  | CS (SBool _) => TyBool
  | CS (SInt _) => TyInt
  | CS (SFloat _) => TyFloat
  | CS (SStr _) => TyStr
  end.
Definition cell_is_ref (c : cell) : bool := match c with CR _ => true | _ => false end.
Definition cell_table_name (c : cell) : str := match c with CR (t, _) => t | _ => [] end.
Definition cell_rowid (c : cell) : nat := match c with CR (_, r) => r | _ => O end.
Definition ref_table_name (r : ref) : str := fst r.
Definition ref_rowid (r : ref) : nat := snd r.

(* dict.get(key, default) on a literal dict with non-string keys *)
Fixpoint py_assoc_get {K V} (eqb : K -> K -> bool) (d : list (K * V)) (k : K) (default : V) : V :=
  match d with
  | [] => default
  | (k', v) :: t => if eqb k' k then v else py_assoc_get eqb t k default
  end.

(* a value returned as it is into the dumped (JSON) output *)
Definition dcell_of_cell (c : cell) : dcell :=
  match c with
  | CS SNull => DNone
  | CS (SBool b) => DBool b
  | CS (SInt n) => DInt n
  | CS (SFloat f) => DFloat f
  | CS (SStr s) => DStr s
  | CR _ => DNone                      (* a namedtuple is not a dumped value; never reached *)
  end.
Definition dcell_of_nat (n : nat) : dcell := DInt (Z.of_nat n).

(* ---- OrderedDict with str keys *)
Fixpoint od_set {V} (k : str) (v : V) (d : list (str * V)) : list (str * V) :=
  match d with
  | [] => [(k, v)]
  | (k', v') :: t => if str_eqb k' k then (k', v) :: t else (k', v') :: od_set k v t
  end.
Definition od_update {V} (d row : list (str * V)) : list (str * V) :=
  fold_left (fun d kv => od_set (fst kv) (snd kv) d) row d.
Fixpoint od_get {V} (k : str) (d : list (str * V)) (default : V) : V :=
  match d with
  | [] => default
  | (k', v) :: t => if str_eqb k' k then v else od_get k t default
  end.
Definition od_mem {V} (k : str) (d : list (str * V)) : bool := mem_str k (map fst d).
Definition od_items {V} (d : list (str * V)) : list (str * V) := d.
Definition od_values {V} (d : list (str * V)) : list V := map snd d.

(* ---- Row(values, parent, ref) as _dump_table sees it: the values and the parent's ref (None: no parent) *)
Definition grow := (dict * option ref)%type.
Definition row_values (r : grow) : dict := fst r.
Definition row_parent (r : grow) : option ref := snd r.
Definition parent_ref (p : option ref) : ref := match p with Some r => r | None => ([], O) end.   (* p.ref *)
Definition cell_of_oref (p : option ref) : cell := match p with Some r => CR r | None => cnone end.

(* Col(type, values) *)
Definition gcol := (str * list cell)%type.
Definition col_type_of (c : gcol) : str := fst c.
Definition col_values_of (c : gcol) : list cell := snd c.

(* next(x for x in chain(heads, (gen i for i in count(start))) if ok x): the heads, then gen start, gen (start+1),
   ...; `fuel` candidates of the infinite part are tested and the next one is returned unconditionally (the
   translator passes len(dictionary): one more candidate than keys always contains a free one, proved in
   JsonImport_final_proofs.fak_fresh) *)
Fixpoint py_next_count (gen : nat -> str) (ok : str -> bool) (i fuel : nat) : str :=
  match fuel with
  | O => gen i
  | S f => if ok (gen i) then gen i else py_next_count gen ok (S i) f
  end.
Definition py_next_chain (heads : list str) (gen : nat -> str) (ok : str -> bool) (start fuel : nat) : str :=
  match find ok heads with
  | Some x => x
  | None => py_next_count gen ok start fuel
  end.

(* ---- JSON values as add_row sees them *)
Definition json_is_dict (v : json) : bool := match v with JObj _ => true | _ => false end.
Definition json_is_list (v : json) : bool := match v with JArr _ => true | _ => false end.
Definition json_items (v : json) : list (str * json) := match v with JObj kvs => kvs | _ => [] end.
Definition json_elems (v : json) : list json := match v with JArr l => l | _ => [] end.
Definition cell_of_json (v : json) : cell := match v with JS s => CS s | _ => cnone end.
Definition py_sorted_items (kvs : list (str * json)) : list (str * json) := sort_kvs kvs.   (* sorted(d.items()) *)
