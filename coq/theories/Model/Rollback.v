(* Rollback.v -- executable model of the engine's checkpoint / rollback machinery (C04, C29).

   Sources followed (sandbox/grist):
     docactions.py   the ORDER of sub-steps inside each doc action ("micro-steps": compute undo values, mutate
                     cells, mutate schema + rebuild_usercode, append undo, update summary)
     engine.py       apply_user_actions (checkpoint, except branch), _get_undo_checkpoint / _undo_to_checkpoint,
                     apply_doc_action (saved_schema clone + restore for schema actions), rebuild_usercode /
                     _update_table_model / Table._create_or_update_col (column OBJECTS are reused by name and keep
                     the type they were created with; columns and tables that left the schema are destroyed),
                     _recompute_step + _post_update (calc deltas go to out_actions.summary, NOT to the undo list),
                     get_formula_value (checkpoint + rollback around a read-only evaluation), fetch_table.

   Document state: the engine's `schema` and the Table/Column objects.  A column stores only its NON-default
   cells (so that observational equality of documents is Leibniz equality: "s_r ~ s" of the property is "s_r = s").
   Names (table/column ids), cell values, types and formulas are interned as Z by the harness.
   Models only: no proofs in this file (proofs: Proofs/Rollback_proofs.v). *)
From stdpp Require Import gmap sorting.
Open Scope Z_scope.

Definition name := Z.
Definition rowid := Z.
Definition val := Z.

(* ---------------------------------------------------------------------------------------------------------- *)
(* Schema entries (schema.SchemaColumn; the default value is a function of the type and travels with it). *)
Record colinfo := ColInfo {
  ci_type : Z; ci_default : val; ci_isformula : bool; ci_formula : Z; ci_reverse : Z }.

(* The col_info dict of ModifyColumn: only the keys present are changed. *)
Record colmod := ColMod {
  cm_type : option (Z * val); cm_isformula : option bool; cm_formula : option Z; cm_reverse : option Z }.

Definition upd_info (ci : colinfo) (m : colmod) : colinfo :=
  {| ci_type := from_option fst (ci_type ci) (cm_type m);
     ci_default := from_option snd (ci_default ci) (cm_type m);
     ci_isformula := default (ci_isformula ci) (cm_isformula m);
     ci_formula := default (ci_formula ci) (cm_formula m);
     ci_reverse := default (ci_reverse ci) (cm_reverse m) |}.

(* undo_col_info = {k: old[k] for k in col_info} *)
Definition undo_mod (ci : colinfo) (m : colmod) : colmod :=
  {| cm_type := (fun _ => (ci_type ci, ci_default ci)) <$> cm_type m;
     cm_isformula := (fun _ => ci_isformula ci) <$> cm_isformula m;
     cm_formula := (fun _ => ci_formula ci) <$> cm_formula m;
     cm_reverse := (fun _ => ci_reverse ci) <$> cm_reverse m |}.

Global Instance colinfo_eq_dec : EqDecision colinfo.
Proof. solve_decision. Defined.
Global Instance colmod_eq_dec : EqDecision colmod.
Proof. solve_decision. Defined.

(* A Column object: the info it was CREATED with (update_method only swaps the method) and its data. *)
Record column := Column { c_info : colinfo; c_data : gmap rowid val }.
(* A Table object: row ids (the id column) and the columns. *)
Record table := Table { t_rows : gset rowid; t_cols : gmap name column }.
Notation schema := (gmap name (gmap name colinfo)).
Record doc := Doc { d_schema : schema; d_tables : gmap name table }.

Global Instance column_eq_dec : EqDecision column.
Proof. solve_decision. Defined.
Global Instance table_eq_dec : EqDecision table.
Proof. solve_decision. Defined.
Global Instance doc_eq_dec : EqDecision doc.
Proof. solve_decision. Defined.

Definition new_col (ci : colinfo) : column := {| c_info := ci; c_data := ∅ |}.
Definition cdefault (c : column) : val := ci_default (c_info c).
(* column.raw_get *)
Definition cget (c : column) (r : rowid) : val := default (cdefault c) (c_data c !! r).
(* column.set (a cell holding the default value is not stored) *)
Definition cset (c : column) (r : rowid) (v : val) : column :=
  {| c_info := c_info c;
     c_data := if decide (v = cdefault c) then delete r (c_data c) else <[r := v]> (c_data c) |}.

Definition rows_list (tb : table) : list rowid := merge_sort Z.le (elements (t_rows tb)).

(* ---------------------------------------------------------------------------------------------------------- *)
(* Doc actions (actions.py).  Column values: association list in the dict's iteration order. *)
Inductive action :=
| AddRecord (t : name) (r : rowid) (vals : list (name * val))
| BulkAddRecord (t : name) (rows : list rowid) (vals : list (name * list val))
| RemoveRecord (t : name) (r : rowid)
| BulkRemoveRecord (t : name) (rows : list rowid)
| UpdateRecord (t : name) (r : rowid) (vals : list (name * val))
| BulkUpdateRecord (t : name) (rows : list rowid) (vals : list (name * list val))
| ReplaceTableData (t : name) (rows : list rowid) (vals : list (name * list val))
| AddColumn (t c : name) (ci : colinfo)
| RemoveColumn (t c : name)
| RenameColumn (t c c' : name)
| ModifyColumn (t c : name) (m : colmod)
| AddTable (t : name) (cols : list (name * colinfo))
| RemoveTable (t : name)
| RenameTable (t t' : name).

Global Instance action_eq_dec : EqDecision action.
Proof. solve_decision. Defined.

(* actions.schema_actions *)
Definition is_schema_action (a : action) : bool :=
  match a with
  | AddColumn _ _ _ | RemoveColumn _ _ | RenameColumn _ _ _ | ModifyColumn _ _ _
  | AddTable _ _ | RemoveTable _ | RenameTable _ _ => true
  | _ => false
  end.

(* ---------------------------------------------------------------------------------------------------------- *)
(* Pending calc deltas (ActionSummary.column_deltas): (table, column, row, before, after). *)
Definition delta := (name * name * rowid * val * val)%type.

Inductive sumcall :=
| SAddChanges (t c : name) (changes : list (rowid * val * val))
| SAddRecords (t : name) (rows : list rowid) | SRemoveRecords (t : name) (rows : list rowid)
| SAddColumn (t c : name) | SRemoveColumn (t c : name) | SRenameColumn (t c c' : name)
| SAddTable (t : name) | SRemoveTable (t : name) | SRenameTable (t t' : name).

Global Instance sumcall_eq_dec : EqDecision sumcall.
Proof. solve_decision. Defined.

(* Micro-steps: each one is a crash point (a fault strikes BEFORE the step runs). *)
Inductive mstep :=
| MSave                                        (* apply_doc_action: saved_schema = clone_schema(self.schema)  [silent] *)
| MDrop                                        (* the schema doc action returned: saved_schema goes out of scope [silent] *)
| MFail                                        (* an assert / KeyError of the source raises here *)
| MSchema (sch : schema)                       (* in-place mutation of engine.schema [silent: followed by MRebuild] *)
| MRebuild                                     (* engine.rebuild_usercode() *)
| MAddRow (t : name) (r : rowid)               (* id_column.set(r, r) *)
| MDelRow (t : name) (r : rowid)               (* id_column.unset(r) *)
| MSetCell (t c : name) (r : rowid) (v : val)  (* column.set(r, v) / column.unset(r) *)
| MSetRows (t : name) (rows : gset rowid)      (* new id column .copy_from_column(old id column) *)
| MSetData (t c : name) (data : gmap rowid val) (* new_column.copy_from_column(old_column) *)
| MClearRows (t : name)                        (* id column .clear() *)
| MClearCol (t c : name)                       (* column.clear() *)
| MUndo (a : action)                           (* out_actions.undo.append(a) *)
| MSum (s : sumcall).                          (* out_actions.summary.<method>(...) *)

Global Instance mstep_eq_dec : EqDecision mstep.
Proof. solve_decision. Defined.

(* Steps that the harness can see (instrumented calls); the others are plain assignments between them. *)
Definition visible (m : mstep) : bool :=
  match m with MSave | MDrop | MSchema _ | MFail => false | _ => true end.

(* Machine state inside one apply_user_actions / get_formula_value. *)
Record mstate := MState {
  ms_doc : doc;
  ms_undo : list action;           (* out_actions.undo *)
  ms_pending : list delta;         (* out_actions.summary column deltas *)
  ms_saved : option schema }.      (* saved_schema of the schema doc action in progress *)

Definition init_state (d : doc) (undo0 : list action) : mstate :=
  {| ms_doc := d; ms_undo := undo0; ms_pending := []; ms_saved := None |}.

(* ---------------------------------------------------------------------------------------------------------- *)
(* rebuild_usercode: tables and columns follow the schema; objects are reused BY NAME, others are created
   empty; what is not in the schema any more is destroyed. *)
(* Table._create_or_update_col: an existing Column object is kept (type, default, is_formula, data) and only gets
   the method compiled from the schema's current formula (update_method). *)
Definition reuse_col (ci : colinfo) (col : column) : column :=
  {| c_info := {| ci_type := ci_type (c_info col); ci_default := ci_default (c_info col);
                  ci_isformula := ci_isformula (c_info col); ci_formula := ci_formula ci;
                  ci_reverse := ci_reverse (c_info col) |};
     c_data := c_data col |}.

Definition rebuild_table (scols : gmap name colinfo) (old : option table) : table :=
  {| t_rows := from_option t_rows ∅ old;
     t_cols := map_imap (fun c ci => Some (from_option (reuse_col ci) (new_col ci) (from_option t_cols ∅ old !! c)))
                        scols |}.

Definition rebuild (d : doc) : doc :=
  {| d_schema := d_schema d;
     d_tables := map_imap (fun t scols => Some (rebuild_table scols (d_tables d !! t))) (d_schema d) |}.

Definition upd_table (t : name) (f : table -> table) (d : doc) : doc :=
  {| d_schema := d_schema d; d_tables := alter f t (d_tables d) |}.
Definition upd_col (c : name) (f : column -> column) (tb : table) : table :=
  {| t_rows := t_rows tb; t_cols := alter f c (t_cols tb) |}.
Definition set_rows (f : gset rowid -> gset rowid) (tb : table) : table :=
  {| t_rows := f (t_rows tb); t_cols := t_cols tb |}.
Definition set_data (data : gmap rowid val) (c : column) : column := {| c_info := c_info c; c_data := data |}.

Definition on_doc (f : doc -> doc) (st : mstate) : mstate :=
  {| ms_doc := f (ms_doc st); ms_undo := ms_undo st; ms_pending := ms_pending st; ms_saved := ms_saved st |}.

Definition deltas_of (t c : name) (changes : list (rowid * val * val)) : list delta :=
  map (fun x => (t, c, x.1.1, x.1.2, x.2)) changes.

Definition exec_step (st : mstate) (m : mstep) : option mstate :=
  match m with
  | MFail => None
  | MSave => Some {| ms_doc := ms_doc st; ms_undo := ms_undo st; ms_pending := ms_pending st;
                     ms_saved := Some (d_schema (ms_doc st)) |}
  | MDrop => Some {| ms_doc := ms_doc st; ms_undo := ms_undo st; ms_pending := ms_pending st; ms_saved := None |}
  | MSchema sch => Some (on_doc (fun d => {| d_schema := sch; d_tables := d_tables d |}) st)
  | MRebuild => Some (on_doc rebuild st)
  | MAddRow t r => Some (on_doc (upd_table t (set_rows (fun rs => {[r]} ∪ rs))) st)
  | MDelRow t r => Some (on_doc (upd_table t (set_rows (fun rs => rs ∖ {[r]}))) st)
  | MSetCell t c r v => Some (on_doc (upd_table t (upd_col c (fun col => cset col r v))) st)
  | MSetRows t rows => Some (on_doc (upd_table t (set_rows (fun _ => rows))) st)
  | MSetData t c data => Some (on_doc (upd_table t (upd_col c (set_data data))) st)
  | MClearRows t => Some (on_doc (upd_table t (set_rows (fun _ => ∅))) st)
  | MClearCol t c => Some (on_doc (upd_table t (upd_col c (set_data ∅))) st)
  | MUndo a => Some {| ms_doc := ms_doc st; ms_undo := ms_undo st ++ [a]; ms_pending := ms_pending st;
                       ms_saved := ms_saved st |}
  | MSum (SAddChanges t c ch) =>
      Some {| ms_doc := ms_doc st; ms_undo := ms_undo st; ms_pending := ms_pending st ++ deltas_of t c ch;
              ms_saved := ms_saved st |}
  | MSum _ => Some st
  end.

(* ---------------------------------------------------------------------------------------------------------- *)
(* The micro-step list of each doc action, in source order, computed from the document at the action's start.
   `ord t` is the iteration order of table t's all_columns dict (an environment oracle: the theorems hold for
   every order; the harness passes the real one). *)
Section Steps.
  Variable ord : name -> list name.

  Definition cols_in_order (t : name) (tb : table) : list name :=
    filter (fun c => is_Some (t_cols tb !! c)) (ord t)
    ++ filter (fun c => c ∉ ord t) (map fst (map_to_list (t_cols tb))).

  (* the leading (column, values) entries whose column exists; get_column raises KeyError at the first unknown one *)
  Fixpoint known_prefix (tb : table) (vals : list (name * list val)) : list (name * list val) :=
    match vals with
    | [] => []
    | cv :: rest => match t_cols tb !! cv.1 with Some _ => cv :: known_prefix tb rest | None => [] end
    end.

  Definition cell_steps (t : name) (rows : list rowid) (cv : name * list val) : list mstep :=
    map (fun rv => MSetCell t cv.1 rv.1 rv.2) (zip rows cv.2).

  (* add_records: all ids first, then column by column in the action's dict order; an unknown column raises
     (load_table drops unknown columns beforehand: skip_unknown) *)
  Definition add_records_steps (tb : table) (t : name) (rows : list rowid) (vals : list (name * list val))
      (skip_unknown : bool) : list mstep :=
    let vals' := if skip_unknown then filter (fun cv => is_Some (t_cols tb !! cv.1)) vals else vals in
    let known := known_prefix tb vals' in
    map (MAddRow t) rows ++ concat (map (cell_steps t rows) known)
    ++ (if bool_decide (length known = length vals') then [] else [MFail]).

  (* BulkUpdateRecord (since 6f648c6): every column is resolved and its undo values read first (an unknown column
     raises before anything is written), the undo action is appended, THEN the cells are written *)
  Definition update_steps (tb : table) (t : name) (rows : list rowid) (vals : list (name * list val))
      : list mstep :=
    if bool_decide (length (known_prefix tb vals) = length vals)
    then MUndo (BulkUpdateRecord t rows
                  (omap (fun cv => (fun col => (cv.1, map (cget col) rows)) <$> t_cols tb !! cv.1) vals))
         :: concat (map (cell_steps t rows) vals)
    else [MFail].

  Definition all_default (col : column) (rows : list rowid) : bool :=
    forallb (fun r => bool_decide (cget col r = cdefault col)) rows.

  (* values of the given columns for the given rows (fetch_table) *)
  Definition col_values (tb : table) (cs : list name) (rows : list rowid) : list (name * list val) :=
    omap (fun c => (fun col => (c, map (cget col) rows)) <$> t_cols tb !! c) cs.

  (* column.unset(r) for every column and every removed row: set(r, default) *)
  Definition unset_values (tb : table) (cs : list name) (rows : list rowid) : list (name * list val) :=
    omap (fun c => (fun col => (c, map (fun _ => cdefault col) rows)) <$> t_cols tb !! c) cs.

  (* undo of BulkRemoveRecord: the removed rows with the columns that were not all default *)
  Definition remove_undo (t : name) (tb : table) (cs : list name) (rows : list rowid) : action :=
    BulkAddRecord t rows
      (col_values tb (filter (fun c => from_option (fun col => negb (all_default col rows)) false
                                                   (t_cols tb !! c) = true) cs) rows).

  Definition steps_of (d : doc) (a : action) : list mstep :=
    match a with
    | AddRecord t r vals => [MFail]      (* desugared by normalize below before use *)
    | RemoveRecord t r => [MFail]
    | UpdateRecord t r vals => [MFail]
    | BulkAddRecord t rows vals =>
        match d_tables d !! t with
        | None => [MFail]
        | Some tb =>
            if bool_decide (Exists (fun r => r ∈ t_rows tb) rows) then [MFail]
            else [MUndo (BulkRemoveRecord t rows); MSum (SAddRecords t rows)] ++ add_records_steps tb t rows vals false
        end
    | BulkRemoveRecord t rows =>
        match d_tables d !! t with
        | None => [MFail]
        | Some tb =>
            let rows' := filter (fun r => r ∈ t_rows tb) rows in
            match rows' with
            | [] => []
            | _ =>
              let cs := cols_in_order t tb in
              map (MDelRow t) rows'
              ++ concat (map (cell_steps t rows') (unset_values tb cs rows'))
              ++ [MUndo (remove_undo t tb cs rows'); MSum (SRemoveRecords t rows')]
            end
        end
    | BulkUpdateRecord t rows vals =>
        match d_tables d !! t with
        | None => [MFail]
        | Some tb =>
            if bool_decide (Forall (fun r => r ∈ t_rows tb) rows) then update_steps tb t rows vals
            else [MFail]
        end
    | ReplaceTableData t rows vals =>
        match d_tables d !! t with
        | None => [MFail]
        | Some tb =>
            let cs := cols_in_order t tb in
            let data_cs := filter (fun c => from_option (fun col => negb (ci_isformula (c_info col))) false
                                                        (t_cols tb !! c) = true) cs in
            let old_rows := rows_list tb in
            [MUndo (ReplaceTableData t old_rows (col_values tb data_cs old_rows));
             MSum (SRemoveRecords t old_rows); MSum (SAddRecords t rows); MClearRows t]
            ++ map (MClearCol t) cs
            ++ add_records_steps tb t rows vals true
        end
    | AddColumn t c ci =>
        MSave ::
        match d_tables d !! t, d_schema d !! t with
        | Some tb, Some sc =>
            if bool_decide (is_Some (t_cols tb !! c)) then [MFail]
            else [MSchema (<[t := <[c := ci]> sc]> (d_schema d)); MRebuild;
                  MUndo (RemoveColumn t c); MSum (SAddColumn t c); MDrop]
        | _, _ => [MFail]
        end
    | RemoveColumn t c =>
        MSave ::
        match d_tables d !! t, d_schema d !! t with
        | Some tb, Some sc =>
            match t_cols tb !! c, sc !! c with
            | Some col, Some ci =>
                let nd := filter (fun r => cget col r ≠ cdefault col) (rows_list tb) in
                [MSchema (<[t := delete c sc]> (d_schema d)); MRebuild]
                ++ (match nd with
                    | [] => []
                    | _ => if ci_isformula (c_info col)
                           then [MSum (SAddChanges t c (map (fun r => (r, cget col r, cdefault col)) nd))]
                           else [MUndo (BulkUpdateRecord t nd [(c, map (cget col) nd)])]
                    end)
                ++ [MUndo (AddColumn t c ci); MSum (SRemoveColumn t c); MDrop]
            | _, _ => [MFail]
            end
        | _, _ => [MFail]
        end
    | RenameColumn t c c' =>
        MSave ::
        match d_tables d !! t, d_schema d !! t with
        | Some tb, Some sc =>
            match t_cols tb !! c, sc !! c with
            | Some col, Some ci =>
                if bool_decide (is_Some (t_cols tb !! c')) then [MFail]
                else [MSchema (<[t := <[c' := ci]> (delete c sc)]> (d_schema d)); MRebuild;
                      MSetData t c' (c_data col);
                      MUndo (RenameColumn t c' c); MSum (SRenameColumn t c c'); MDrop]
            | _, _ => [MFail]
            end
        | _, _ => [MFail]
        end
    | ModifyColumn t c m =>
        MSave ::
        match d_tables d !! t, d_schema d !! t with
        | Some tb, Some sc =>
            match t_cols tb !! c, sc !! c with
            | Some col, Some ci =>
                let ci' := upd_info ci m in
                if bool_decide (ci' = ci) then [MDrop]
                else [MSchema (<[t := delete c sc]> (d_schema d)); MRebuild;
                      MSchema (<[t := <[c := ci']> (delete c sc)]> (d_schema d)); MRebuild]
                     ++ map (fun r => MSetCell t c r (cget col r)) (rows_list tb)
                     ++ [MUndo (ModifyColumn t c (undo_mod ci m)); MDrop]
            | _, _ => [MFail]
            end
        | _, _ => [MFail]
        end
    | AddTable t cols =>
        MSave ::
        match d_tables d !! t with
        | Some _ => [MFail]
        | None => [MSchema (<[t := list_to_map cols]> (d_schema d)); MRebuild;
                   MUndo (RemoveTable t); MSum (SAddTable t); MDrop]
        end
    | RemoveTable t =>
        MSave ::
        match d_tables d !! t, d_schema d !! t with
        | Some tb, Some sc =>
            let rows := rows_list tb in
            (match rows with
             | [] => []
             | _ => [MUndo (BulkAddRecord t rows (col_values tb (cols_in_order t tb) rows))]
             end)
            ++ [MSchema (delete t (d_schema d)); MRebuild;
                MUndo (AddTable t (map_to_list sc)); MSum (SRemoveTable t); MDrop]
        | _, _ => [MFail]
        end
    | RenameTable t t' =>
        MSave ::
        match d_tables d !! t, d_schema d !! t with
        | Some tb, Some sc =>
            match d_tables d !! t' with
            | Some _ => [MFail]
            | None =>
                [MSchema (<[t' := sc]> (delete t (d_schema d))); MRebuild; MSetRows t' (t_rows tb)]
                ++ omap (fun c => (fun col => MSetData t' c (c_data col)) <$> t_cols tb !! c) (cols_in_order t tb)
                ++ [MUndo (RenameTable t' t); MSum (SRenameTable t t'); MDrop]
            end
        | _, _ => [MFail]
        end
    end.

  (* single-record forms call the bulk forms (docactions.AddRecord etc.) *)
  Definition normalize (a : action) : action :=
    match a with
    | AddRecord t r vals => BulkAddRecord t [r] (map (fun cv => (cv.1, [cv.2])) vals)
    | RemoveRecord t r => BulkRemoveRecord t [r]
    | UpdateRecord t r vals => BulkUpdateRecord t [r] (map (fun cv => (cv.1, [cv.2])) vals)
    | _ => a
    end.

  Definition doc_steps (d : doc) (a : action) : list mstep := steps_of d (normalize a).

  (* -------------------------------------------------------------------------------------------------------- *)
  (* Events inside a bundle: a doc action, or a batch of formula cells recomputed in between
     (bring_col_up_to_date, _bring_mlookups_up_to_date): the cells are set, then _post_update records the
     deltas in the summary -- nothing goes to the undo list. *)
  Inductive event :=
  | EDoc (a : action)
  | ECalc (t c : name) (cells : list (rowid * val)).

  Definition event_steps (d : doc) (e : event) : list mstep :=
    match e with
    | EDoc a => doc_steps d a
    | ECalc t c cells =>
        match cells with
        | [] => []
        | _ =>
          match d_tables d !! t with
          | Some tb =>
              match t_cols tb !! c with
              | Some col =>
                  (* only cells of existing rows are ever evaluated (_recompute_step skips absent rows) *)
                  if bool_decide (Forall (fun rv => rv.1 ∈ t_rows tb) cells)
                  then map (fun rv => MSetCell t c rv.1 rv.2) cells
                       ++ [MSum (SAddChanges t c (map (fun rv => (rv.1, cget col rv.1, rv.2)) cells))]
                  else [MFail]
              | None => [MFail]
              end
          | None => [MFail]
          end
        end
    end.

  (* Execute steps; stop BEFORE step number k (None in the second component = crashed there, or at an MFail;
     `done` = the steps of this event that did run). *)
  Fixpoint exec_upto (st : mstate) (steps : list mstep) (k : nat) (done : list mstep)
      : mstate * list mstep * option nat :=
    match steps with
    | [] => (st, done, Some k)
    | m :: rest =>
        match k with
        | O => (st, done, None)
        | S k' => match exec_step st m with
                  | None => (st, done, None)
                  | Some st' => exec_upto st' rest k' (done ++ [m])
                  end
        end
    end.

  Inductive outcome :=
  | Crashed (st : mstate) (cur : option event) (done : list mstep)   (* event in progress, its steps already run *)
  | Finished (st : mstate).

  Fixpoint run_until_crash (st : mstate) (es : list event) (k : nat) : outcome :=
    match es with
    | [] => match k with O => Crashed st None [] | S _ => Finished st end
    | e :: es' =>
        match exec_upto st (event_steps (ms_doc st) e) k [] with
        | (st', done, None) => Crashed st' (Some e) done
        | (st', _, Some k') => run_until_crash st' es' k'
        end
    end.

  (* A whole doc action (as replayed by ApplyUndoActions / used by complete events). *)
  Fixpoint exec_all (st : mstate) (steps : list mstep) : option mstate :=
    match steps with
    | [] => Some st
    | m :: rest => match exec_step st m with None => None | Some st' => exec_all st' rest end
    end.

  Definition apply_doc (d : doc) (a : action) : option doc :=
    ms_doc <$> exec_all (init_state d []) (doc_steps d a).

  (* ApplyUndoActions on an already reversed list; the undo actions those produce are discarded (trimmed). *)
  Fixpoint replay (d : doc) (acts : list action) : option doc :=
    match acts with
    | [] => Some d
    | a :: rest => match apply_doc d a with None => None | Some d' => replay d' rest end
    end.

  (* apply_doc_action's except branch (schema restore), then _undo_to_checkpoint; the summary is dropped with
     the ActionGroup. *)
  Definition restore_schema (st : mstate) : doc :=
    match ms_saved st with
    | Some sch => rebuild {| d_schema := sch; d_tables := d_tables (ms_doc st) |}
    | None => ms_doc st
    end.

  Definition rollback (checkpoint : nat) (st : mstate) : option doc :=
    replay (restore_schema st) (rev (drop checkpoint (ms_undo st))).

End Steps.

(* fetch_table(t, formulas): row ids in order and the cells of every (non-formula, if asked) column *)
Definition fetch_table (d : doc) (t : name) (formulas : bool) : option (list rowid * list (name * list val)) :=
  (fun tb =>
     let rows := rows_list tb in
     (rows, map (fun cc => (cc.1, map (cget cc.2) rows))
                (filter (fun cc => formulas = true \/ ci_isformula (c_info cc.2) = false) (map_to_list (t_cols tb)))))
  <$> d_tables d !! t.

(* a read-only call as a state transformer: the document it leaves behind *)
Definition fetch_call (d : doc) (t : name) (formulas : bool)
  : doc * option (list rowid * list (name * list val)) := (d, fetch_table d t formulas).

(* ---------------------------------------------------------------------------------------------------------- *)
(* Signatures of micro-steps, for the tie with the instrumented engine (what the harness can observe of a call). *)
Definition action_sig (a : action) : list Z :=
  match a with
  | AddRecord t _ _ => [1; t] | BulkAddRecord t _ _ => [1; t]
  | RemoveRecord t _ => [2; t] | BulkRemoveRecord t _ => [2; t]
  | UpdateRecord t _ _ => [3; t] | BulkUpdateRecord t _ _ => [3; t]
  | ReplaceTableData t _ _ => [4; t]
  | AddColumn t c _ => [5; t; c] | RemoveColumn t c => [6; t; c] | RenameColumn t c c' => [7; t; c; c']
  | ModifyColumn t c _ => [8; t; c]
  | AddTable t _ => [9; t] | RemoveTable t => [10; t] | RenameTable t t' => [11; t; t']
  end.

Definition sum_sig (s : sumcall) : list Z :=
  match s with
  | SAddChanges t c _ => [1; t; c] | SAddRecords t _ => [2; t] | SRemoveRecords t _ => [3; t]
  | SAddColumn t c => [4; t; c] | SRemoveColumn t c => [5; t; c] | SRenameColumn t c c' => [6; t; c; c']
  | SAddTable t => [7; t] | SRemoveTable t => [8; t] | SRenameTable t t' => [9; t; t']
  end.

Definition step_sig (m : mstep) : list Z :=
  match m with
  | MSave => [0; 1] | MDrop => [0; 2] | MFail => [0; 3] | MSchema _ => [0; 4]
  | MRebuild => [1]
  | MAddRow t r => [2; t; r] | MDelRow t r => [3; t; r]
  | MSetCell t c r _ => [4; t; c; r]
  | MSetRows t _ => [5; t] | MSetData t c _ => [6; t; c]
  | MClearRows t => [7; t] | MClearCol t c => [8; t; c]
  | MUndo a => 9 :: action_sig a
  | MSum s => 10 :: sum_sig s
  end.

Definition visible_sigs (steps : list mstep) : list (list Z) :=
  map step_sig (filter (fun m => visible m = true) steps).

(* ---------------------------------------------------------------------------------------------------------- *)
(* Helpers for the event-trace tie: all micro-steps a bundle performs (complete execution), and the global index
   of the crash point "event i, after j of its visible steps" (at_start: before its first step, silent ones
   included). *)
Fixpoint trace_steps (ord : name -> list name) (st : mstate) (es : list event) : list mstep :=
  match es with
  | [] => []
  | e :: es' =>
      let steps := event_steps ord (ms_doc st) e in
      steps ++ match exec_all st steps with Some st' => trace_steps ord st' es' | None => [] end
  end.

Fixpoint state_after (ord : name -> list name) (st : mstate) (es : list event) : option mstate :=
  match es with
  | [] => Some st
  | e :: es' => match exec_all st (event_steps ord (ms_doc st) e) with
                | Some st' => state_after ord st' es' | None => None end
  end.

(* number of steps before the (j+1)-th visible step *)
Fixpoint nth_visible (steps : list mstep) (j : nat) (acc : nat) : nat :=
  match steps with
  | [] => acc
  | m :: rest => if visible m then match j with O => acc | S j' => nth_visible rest j' (S acc) end
                 else nth_visible rest j (S acc)
  end.

Definition crash_index (ord : name -> list name) (st : mstate) (es : list event) (i j : nat) (at_start : bool)
  : nat :=
  let pre := length (trace_steps ord st (take i es)) in
  if at_start then pre
  else match state_after ord st (take i es), es !! i with
       | Some st', Some e => pre + nth_visible (event_steps ord (ms_doc st') e) j 0
       | _, _ => pre
       end.

(* ---------------------------------------------------------------------------------------------------------- *)
(* The property as a boolean on concrete inputs: crashing the bundle `es` of document d before micro-step k and
   rolling back does NOT give d back (the rollback raises, or tables / schema / column objects differ). *)
Definition leaves_trace (ord : name -> list name) (d : doc) (es : list event) (k : nat) : bool :=
  match run_until_crash ord (init_state d []) es k with
  | Crashed st _ _ => negb (bool_decide (rollback ord 0 st = Some d))
  | Finished _ => false
  end.

(* ... and the rollback itself raises (a replayed undo action fails its assert) *)
Definition rollback_raises (ord : name -> list name) (d : doc) (es : list event) (k : nat) : bool :=
  match run_until_crash ord (init_state d []) es k with
  | Crashed st _ _ => bool_decide (rollback ord 0 st = None)
  | Finished _ => false
  end.


(* ---------------------------------------------------------------------------------------------------------- *)
(* ActionSummary (action_summary.py) as a function of the summary calls made so far, and the flush that
   apply_user_actions performs before reverting a failed bundle (since f80d48c): the pending column deltas become
   undo actions -- appended for rows that still exist (replayed first, under the current names), inserted at the
   FRONT under the original names for rows / columns / tables that are gone (replayed last). *)
Definition lname := (bool * name)%type.              (* (true, n) is the defunct name "-n" *)
Definition root (n : lname) : name := n.2.
Definition is_defunct (n : lname) : bool := n.1.

(* LabelRenames._new_to_old: latest name -> original name (None: created) *)
Definition renames := list (lname * option name).
Fixpoint assoc_get {K V} `{EqDecision K} (k : K) (l : list (K * V)) : option V :=
  match l with [] => None | (k', v) :: r => if decide (k' = k) then Some v else assoc_get k r end.
Fixpoint assoc_del {K V} `{EqDecision K} (k : K) (l : list (K * V)) : list (K * V) :=
  match l with [] => [] | (k', v) :: r => if decide (k' = k) then assoc_del k r else (k', v) :: assoc_del k r end.
Definition assoc_set {K V} `{EqDecision K} (k : K) (v : V) (l : list (K * V)) : list (K * V) :=
  assoc_del k l ++ [(k, v)].

(* add_rename(before, after); before = None for an addition *)
Definition add_rename (before : option lname) (after : lname) (m : renames) : renames :=
  match before with
  | None => assoc_set after None m
  | Some b => let original := default (Some (root b)) (assoc_get b m) in assoc_set after original (assoc_del b m)
  end.
Definition rn_is_created (n : lname) (m : renames) : bool :=
  match assoc_get n m with Some None => true | _ => false end.
Definition rn_original (n : lname) (m : renames) : name :=
  match assoc_get n m with Some (Some o) => o | _ => root n end.

Record table_delta := TableDelta {
  td_before : gmap rowid bool; td_after : gmap rowid bool;
  td_renames : renames;
  td_deltas : list (lname * gmap rowid (val * val)) }.
Definition td_empty : table_delta := TableDelta ∅ ∅ [] [].

Record summary := Summary { sm_renames : renames; sm_tables : list (lname * table_delta) }.
Definition sm_empty : summary := Summary [] [].

Definition for_table (t : lname) (sm : summary) : table_delta := default td_empty (assoc_get t (sm_tables sm)).
Definition put_table (t : lname) (td : table_delta) (sm : summary) : summary :=
  {| sm_renames := sm_renames sm;
     sm_tables := match assoc_get t (sm_tables sm) with
                  | Some _ => map (fun kv => if decide (kv.1 = t) then (t, td) else kv) (sm_tables sm)
                  | None => sm_tables sm ++ [(t, td)] end |}.

Definition td_add_changes (c : lname) (changes : list (rowid * val * val)) (td : table_delta) : table_delta :=
  let m0 := default ∅ (assoc_get c (td_deltas td)) in
  let m := foldl (fun m ch => <[ch.1.1 := (from_option fst ch.1.2 (m !! ch.1.1), ch.2)]> m) m0 changes in
  {| td_before := td_before td; td_after := td_after td; td_renames := td_renames td;
     td_deltas := match assoc_get c (td_deltas td) with
                  | Some _ => map (fun kv => if decide (kv.1 = c) then (c, m) else kv) (td_deltas td)
                  | None => td_deltas td ++ [(c, m)] end |}.

Definition td_rename_column (old : option lname) (new : lname) (td : table_delta) : table_delta :=
  {| td_before := td_before td; td_after := td_after td;
     td_renames := add_rename old new (td_renames td);
     td_deltas := match old ≫= fun o => assoc_get o (td_deltas td) with
                  | Some m => assoc_set new m (assoc_del (default new old) (td_deltas td))
                  | None => td_deltas td end |}.

Definition sm_step (sm : summary) (s : sumcall) : summary :=
  let plain (n : name) : lname := (false, n) in
  match s with
  | SAddChanges t c ch => put_table (plain t) (td_add_changes (plain c) ch (for_table (plain t) sm)) sm
  | SAddRecords t rows =>
      let td := for_table (plain t) sm in
      put_table (plain t)
        {| td_before := foldl (fun m r => match m !! r with Some _ => m | None => <[r := false]> m end) (td_before td) rows;
           td_after := foldl (fun m r => <[r := true]> m) (td_after td) rows;
           td_renames := td_renames td; td_deltas := td_deltas td |} sm
  | SRemoveRecords t rows =>
      let td := for_table (plain t) sm in
      put_table (plain t)
        {| td_before := foldl (fun m r => match m !! r with Some _ => m | None => <[r := true]> m end) (td_before td) rows;
           td_after := foldl (fun m r => <[r := false]> m) (td_after td) rows;
           td_renames := td_renames td; td_deltas := td_deltas td |} sm
  | SAddColumn t c => put_table (plain t) (td_rename_column None (plain c) (for_table (plain t) sm)) sm
  | SRemoveColumn t c => put_table (plain t) (td_rename_column (Some (plain c)) (true, c) (for_table (plain t) sm)) sm
  | SRenameColumn t c c' => put_table (plain t) (td_rename_column (Some (plain c)) (plain c') (for_table (plain t) sm)) sm
  | SAddTable t => {| sm_renames := add_rename None (plain t) (sm_renames sm); sm_tables := sm_tables sm |}
  | SRemoveTable t =>
      {| sm_renames := add_rename (Some (plain t)) (true, t) (sm_renames sm);
         sm_tables := match assoc_get (plain t) (sm_tables sm) with
                      | Some td => assoc_set (true, t) td (assoc_del (plain t) (sm_tables sm))
                      | None => sm_tables sm end |}
  | SRenameTable t t' =>
      {| sm_renames := add_rename (Some (plain t)) (plain t') (sm_renames sm);
         sm_tables := match assoc_get (plain t) (sm_tables sm) with
                      | Some td => assoc_set (plain t') td (assoc_del (plain t) (sm_tables sm))
                      | None => sm_tables sm end |}
  end.

Definition summary_of (log : list sumcall) : summary := foldl sm_step sm_empty log.

(* _changes_to_actions for one column: (front insert, appended) undo actions *)
Definition changes_to_undo (sm : summary) (t : lname) (td : table_delta) (c : lname) (m : gmap rowid (val * val))
  : list action * list action :=
  let full := filter (fun r => from_option (fun ba => bool_decide (ba.1 ≠ ba.2)) false (m !! r) = true)
                     (merge_sort Z.le (map fst (map_to_list m))) in
  let defunct := is_defunct t || is_defunct c in
  let orig_t := rn_original t (sm_renames sm) in
  let orig_c := rn_original c (td_renames td) in
  let t' := root t in
  let c' := root c in
  (* the lookups after root_name() use the plain names *)
  let td' := assoc_get (false, t') (sm_tables sm) in
  let created := rn_is_created (false, t') (sm_renames sm)
                 || from_option (fun x => rn_is_created (false, c') (td_renames x)) false td' in
  if created && negb defunct then ([], [])
  else
    let befores rs := map (fun r => from_option fst 0 (m !! r)) rs in
    (* filter_out_new_rows looks the presence map up under the LATEST table name (delta_key, since b239974):
       that is the table_delta `td` passed in, also for a removed table *)
    let rows_before := filter (fun r => td_before td !! r ≠ Some false) full in
    let preserved := if defunct then []
                     else filter (fun r => from_option (fun x => td_after x !! r) None td' ≠ Some false) rows_before in
    let gone := filter (fun r => r ∉ preserved) rows_before in
    (match gone with [] => [] | _ => [BulkUpdateRecord orig_t gone [(orig_c, befores gone)]] end,
     match preserved with [] => [] | _ => [BulkUpdateRecord t' preserved [(c', befores preserved)]] end).

(* convert_deltas_to_actions: every table, every column; front inserts pile up in reverse *)
Definition flush_undo_of (sm : summary) : list action * list action :=
  foldl (fun acc ttd =>
           foldl (fun acc cm => let fb := changes_to_undo sm ttd.1 ttd.2 cm.1 cm.2 in (fb.1 ++ acc.1, acc.2 ++ fb.2))
                 acc (td_deltas ttd.2))
        ([], []) (sm_tables sm).
Definition flush_undo (log : list sumcall) : list action * list action := flush_undo_of (summary_of log).

Definition sum_log (steps : list mstep) : list sumcall :=
  omap (fun m => match m with MSum s => Some s | _ => None end) steps.

(* all micro-steps executed before the crash *)
Fixpoint run_log (ord : name -> list name) (st : mstate) (es : list event) (k : nat) : list mstep :=
  match es with
  | [] => []
  | e :: es' =>
      match exec_upto st (event_steps ord (ms_doc st) e) k [] with
      | (_, done, None) => done
      | (st', done, Some k') => done ++ run_log ord st' es' k'
      end
  end.

(* the except branch of apply_user_actions: [schema restore of the failing doc action,] flush, then revert *)
Definition rollback_flush (ord : name -> list name) (st : mstate) (log : list sumcall) : option doc :=
  let fb := flush_undo log in
  replay ord (restore_schema st) (rev (fb.1 ++ ms_undo st ++ fb.2)).

Definition leaves_trace_flush (ord : name -> list name) (d : doc) (es : list event) (k : nat) : bool :=
  match run_until_crash ord (init_state d []) es k with
  | Crashed st _ _ =>
      negb (bool_decide (rollback_flush ord st (sum_log (run_log ord (init_state d []) es k)) = Some d))
  | Finished _ => false
  end.
