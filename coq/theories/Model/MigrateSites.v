(* C25 -- the six places where a migration reads a JSON value out of a Text cell, as functions from the parsed
   value to "returns / raises which exception".  The *_raw functions are the operations the migrations perform
   on the value (they raise off the expected shape); the *_site functions are the sites as they are in the source
   since fix 5a4118c: a guard (safe_parse_dict / isinstance / try-except) in front of the raw operation.  Only the raise behaviour is modelled (result type res unit);
   what the migration then does with the value is not.  Hand-written from migrations.py (15, 16, 34, 35, 45) and
   summary._copy_widget_options (29); compared on every run with the real migrations run on one-cell documents
   (harness/props/c25.py, stream "sites").  The text -> value step is Python's json.loads (not modelled). *)
From Coq Require Import ZArith Bool String List.
Import ListNotations.
Require Import Grist.Model.Migrate.
Open Scope Z_scope.

Inductive jnum := JInt (z : Z) | JFlt (bits : Z).       (* json.loads gives int or float (nan/inf included) *)
Inductive json :=
| JNull
| JBool (b : bool)
| JNum (n : jnum)
| JStr (s : str)
| JArr (l : list json)
| JObj (m : list (str * json)).

Definition ValueErr : Z := 6.
Definition OverflowErr : Z := 7.

(* floats by bit pattern *)
Definition flt_exp (bits : Z) : Z := (bits / 4503599627370496) mod 2048.     (* bits 52..62 *)
Definition flt_mant (bits : Z) : Z := bits mod 4503599627370496.
Definition flt_is_zero (bits : Z) : bool := Z.eqb (bits mod 9223372036854775808) 0.   (* +0.0 / -0.0 *)
Definition flt_is_nan (bits : Z) : bool := Z.eqb (flt_exp bits) 2047 && negb (Z.eqb (flt_mant bits) 0).
Definition flt_is_inf (bits : Z) : bool := Z.eqb (flt_exp bits) 2047 && Z.eqb (flt_mant bits) 0.

(* Python truthiness of a parsed value *)
Definition truthy (j : json) : bool :=
  match j with
  | JNull => false
  | JBool b => b
  | JNum (JInt z) => negb (Z.eqb z 0)
  | JNum (JFlt bits) => negb (flt_is_zero bits)
  | JStr s => match s with [] => false | _ => true end
  | JArr l => match l with [] => false | _ => true end
  | JObj m => match m with [] => false | _ => true end
  end.

Definition is_str (k : str) (j : json) : bool := match j with JStr s => seqb s k | _ => false end.

Fixpoint is_substring (k s : str) : bool :=      (* k in s, for strings *)
  is_prefix k s || match s with [] => false | _ :: s' => is_substring k s' end.

Definition ok : res unit := Ok tt.

(* migration 15:  filter_spec = safe_parse(s.filterSpec);
                  if filter_spec and str(f.colRef) in filter_spec: json.dumps(filter_spec[str(f.colRef)]) *)
Definition m15_raw (key : str) (j : json) : res unit :=
  if negb (truthy j) then ok else
  match j with
  | JObj _ => ok
  | JArr l => if existsb (is_str key) l then Err TypeErr else ok        (* list indices must be integers *)
  | JStr s => if is_substring key s then Err TypeErr else ok            (* string indices must be integers *)
  | JNum _ | JBool _ => Err TypeErr                                     (* argument of type .. is not iterable *)
  | JNull => ok
  end.

(* migration 16, convert_visible_col:  parsed_options.pop('visibleCol', None); if not v: return;
                                        columns_by_id.get((target_table.id, v)) *)
Definition m16_raw (j : json) : res unit :=
  match j with
  | JObj m =>
      match lookup (zs "visibleCol") m with
      | None => ok
      | Some v => if negb (truthy v) then ok
                  else match v with JArr _ | JObj _ => Err TypeErr | _ => ok end     (* unhashable *)
      end
  | JArr _ => Err TypeErr              (* list.pop takes at most 1 argument *)
  | _ => Err AttrErr
  end.

(* migration 29 -> summary._copy_widget_options (non-empty text that parses):  options.items() *)
Definition m29_raw (j : json) : res unit := match j with JObj _ => ok | _ => Err AttrErr end.

(* migration 34:  safe_parse(s.options).get('filterBar', False) *)
Definition m34_raw (j : json) : res unit := match j with JObj _ => ok | _ => Err AttrErr end.

(* migration 35:  if not acl_formula or acl_formula[0] != 'Comment': continue;  acl_formula[2] *)
Definition m35_raw (j : json) : res unit :=
  if negb (truthy j) then ok else
  match j with
  | JArr (x :: rest) => if is_str (zs "Comment") x then (if (2 <=? length rest)%nat then ok else Err IndexErr) else ok
  | JArr [] => ok
  | JStr _ => ok                          (* s[0] is one character, never 'Comment' *)
  | JObj _ => Err KeyErr                  (* d[0]: keys are strings *)
  | JNum _ | JBool _ => Err TypeErr       (* not subscriptable *)
  | JNull => ok
  end.

(* migration 45:  int(t / 1000) if t is not None else 0   for t = content.get('timeCreated'), then 'timeUpdated' *)
Definition BIG : Z := 2 ^ 1000.
Definition OVER : Z := 1000 * 2 ^ 1024.
Arguments BIG : simpl never.
Arguments OVER : simpl never.
Definition ms_raw (v : option json) : res unit :=
  match v with
  | None | Some JNull | Some (JBool _) => ok
  | Some (JNum (JInt z)) =>
      if Z.abs z <? OVER then ok               (* between BIG and OVER the rounding decides; the guarded site *)
      else Err OverflowErr                     (* returns either way.  int too large to convert to float *)
  | Some (JNum (JFlt bits)) =>
      if flt_is_nan bits then Err ValueErr else if flt_is_inf bits then Err OverflowErr else ok
  | Some (JStr _) | Some (JArr _) | Some (JObj _) => Err TypeErr
  end.

Definition m45_raw (j : json) : res unit :=
  match j with
  | JObj m => bind (ms_raw (lookup (zs "timeCreated") m)) (fun _ => ms_raw (lookup (zs "timeUpdated") m))
  | _ => ok
  end.

(* ---- the shapes under which a site cannot raise (the harness's WELL_SHAPED table, mirrored) ---- *)
Definition ws_obj (j : json) : bool := match j with JObj _ => true | _ => false end.

Definition ws_m16 (j : json) : bool :=
  match j with
  | JObj m => match lookup (zs "visibleCol") m with Some (JArr _) | Some (JObj _) => false | _ => true end
  | _ => false
  end.

Definition ws_m35 (j : json) : bool :=
  negb (truthy j) ||
  match j with
  | JArr (x :: rest) => negb (is_str (zs "Comment") x) || (2 <=? length rest)%nat
  | _ => false
  end.

Definition ws_time (v : option json) : bool :=
  match v with
  | None | Some JNull | Some (JBool _) => true
  | Some (JNum (JInt z)) => Z.abs z <? BIG
  | Some (JNum (JFlt bits)) => negb (Z.eqb (flt_exp bits) 2047)
  | _ => false
  end.

Definition ws_m45 (j : json) : bool :=
  match j with
  | JObj m => ws_time (lookup (zs "timeCreated") m) && ws_time (lookup (zs "timeUpdated") m)
  | _ => true
  end.

(* ---- the sites as guarded in the source ---- *)
Definition as_obj (j : json) : json := match j with JObj _ => j | _ => JObj [] end.   (* safe_parse_dict *)

(* migration 15:  specs = safe_parse_dict(s.filterSpec) *)
Definition m15_site (key : str) (j : json) : res unit := m15_raw key (as_obj j).

(* migration 16:  if not isinstance(parsed_options, dict): return None;  v = pop('visibleCol', None);
                  if not v or not isinstance(v, str): return None *)
Definition m16_site (j : json) : res unit :=
  match j with
  | JObj m => match lookup (zs "visibleCol") m with
              | Some (JStr s) => if truthy (JStr s) then m16_raw j else ok
              | _ => ok
              end
  | _ => ok
  end.

(* summary._copy_widget_options:  if not isinstance(options, dict): return original *)
Definition m29_site (j : json) : res unit := match j with JObj _ => m29_raw j | _ => ok end.

(* migration 34:  safe_parse_dict(s.options).get('filterBar', False) *)
Definition m34_site (j : json) : res unit := m34_raw (as_obj j).

(* migration 35:  if not isinstance(acl_formula, list) or len(acl_formula) < 3 or acl_formula[0] != 'Comment': continue *)
Definition m35_site (j : json) : res unit :=
  match j with
  | JArr (x :: rest) => if (2 <=? length rest)%nat && is_str (zs "Comment") x then m35_raw j else ok
  | _ => ok
  end.

(* migration 45, ms_to_seconds:  try: int(ms / 1000)  except (TypeError, ValueError, OverflowError): 0
   (None / 1000 is a TypeError: same 0 as before) *)
Definition ms_site (v : option json) : res unit :=
  match ms_raw v with
  | Ok _ => ok
  | Err c => if Z.eqb c TypeErr || Z.eqb c ValueErr || Z.eqb c OverflowErr then ok else Err c
  end.

Definition m45_site (j : json) : res unit :=
  match j with
  | JObj m => bind (ms_site (lookup (zs "timeCreated") m)) (fun _ => ms_site (lookup (zs "timeUpdated") m))
  | _ => ok
  end.

(* one generated case: (site number, key for site 15, parsed value, what the real migration did, WELL_SHAPED) *)
Definition site_fn (n : Z) (key : str) (j : json) : res unit :=
  if Z.eqb n 15 then m15_site key j else if Z.eqb n 16 then m16_site j else if Z.eqb n 29 then m29_site j
  else if Z.eqb n 34 then m34_site j else if Z.eqb n 35 then m35_site j else m45_site j.
Definition ws_fn (n : Z) (j : json) : bool :=
  (* the harness keys its table by column name: widgetOptions (16 and 29) share the stricter shape *)
  if Z.eqb n 16 || Z.eqb n 29 then ws_m16 j else if Z.eqb n 35 then ws_m35 j else if Z.eqb n 45 then ws_m45 j else ws_obj j.

Definition check_site (n : Z) (key : str) (j : json) (raised : Z) (ws_py : bool) : bool :=
  match site_fn n key j with
  | Ok _ => Z.eqb raised 0
  | Err c => Z.eqb raised c
  end && Bool.eqb (ws_fn n j) ws_py.

(* the operations without their guards, for the regression examples *)
Definition raw_fn (n : Z) (key : str) (j : json) : res unit :=
  if Z.eqb n 15 then m15_raw key j else if Z.eqb n 16 then m16_raw j else if Z.eqb n 29 then m29_raw j
  else if Z.eqb n 34 then m34_raw j else if Z.eqb n 35 then m35_raw j else m45_raw j.
