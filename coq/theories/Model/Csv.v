(* Executable model of the CSV importer (C32), hand-written from
     /repo/sandbox/grist/imports/import_csv.py   _parse_open_file
     /repo/sandbox/grist/imports/import_utils.py column_count_modal, empty, _is_header, _count_nonempty,
                                                 find_first_non_empty_row, expand_headers, headers_guess
     /repo/sandbox/grist/parse_data.py           get_table_data (for str cells: AnyConverter = identity)
   The model starts AFTER `rows = list(csv.reader(...))`: its input is the grid of string rows.  Decoding,
   dialect sniffing and csv.reader are outside the model (oracle; see harness/props/c32.py TRUSTED).
   `_is_numeric` (float()/int() on a header cell) is an arbitrary boolean function `isnum`: every theorem
   holds for all such functions.  Strings are lists of code points.
   The model is compared with the running importer on generated CSV files on every run (correspondence). *)
From Coq Require Import ZArith List Bool Arith.
Import ListNotations.

Definition cell := list Z.
Definition row := list cell.
Definition grid := list row.

(* ---- strings ------------------------------------------------------------------------------------ *)

(* str.strip()/str.isspace() whitespace (checked against CPython over all code points on every run) *)
Definition is_space (c : Z) : bool :=
  (((9 <=? c) && (c <=? 13)) || ((28 <=? c) && (c <=? 32)) || (c =? 133) || (c =? 160) || (c =? 5760)
   || ((8192 <=? c) && (c <=? 8202)) || (c =? 8232) || (c =? 8233) || (c =? 8239) || (c =? 8287)
   || (c =? 12288))%Z.

(* import_utils.empty(value) for a str: not value.strip() *)
Definition empty (s : cell) : bool := forallb is_space s.

Fixpoint lstrip (s : cell) : cell :=
  match s with
  | [] => []
  | c :: t => if is_space c then lstrip t else s
  end.
Definition strip (s : cell) : cell := rev (lstrip (rev (lstrip s))).

Definition is_nil {A} (l : list A) : bool := match l with [] => true | _ => false end.

Fixpoint list_eqb {A} (eqb : A -> A -> bool) (l m : list A) : bool :=
  match l, m with
  | [], [] => true
  | x :: l', y :: m' => eqb x y && list_eqb eqb l' m'
  | _, _ => false
  end.
Definition cell_eqb : cell -> cell -> bool := list_eqb Z.eqb.

(* ---- import_utils ------------------------------------------------------------------------------- *)

(* len([c for c in row if not empty(c)]) *)
Definition nonempty_cells (r : row) : nat := length (filter (fun c => negb (empty c)) r).

(* counts[length] += 1 on a dict that keeps insertion order *)
Fixpoint bump (k : nat) (counts : list (nat * nat)) : list (nat * nat) :=
  match counts with
  | [] => [(k, 1)]
  | (k', n) :: t => if k =? k' then (k', S n) :: t else (k', n) :: bump k t
  end.

Definition modal_counts (rows : grid) : list (nat * nat) :=
  fold_left (fun cs r => let l := nonempty_cells r in if 1 <? l then bump l cs else cs) rows [].

(* max(items, key=count): the first item with the largest count *)
Fixpoint first_max (best : nat * nat) (l : list (nat * nat)) : nat * nat :=
  match l with
  | [] => best
  | kv :: t => if snd best <? snd kv then first_max kv t else first_max best t
  end.

Definition column_count_modal (rows : grid) : nat :=
  match modal_counts rows with
  | [] => 0
  | kv :: t => fst (first_max kv t)
  end.

(* _count_nonempty(row): 1 + index of the last non-empty cell, 0 if there is none *)
Fixpoint count_nonempty (r : row) : nat :=
  match r with
  | [] => 0
  | c :: t => let n := count_nonempty t in if (n =? 0) && empty c then 0 else S n
  end.

(* find_first_non_empty_row(rows): `length >= modal - tolerance` with tolerance 1; modal is 0 or >= 2, so the
   truncated subtraction agrees with Python's integers *)
Fixpoint ffner_from (modal i : nat) (rows : grid) : nat * row :=
  match rows with
  | [] => (0, [])
  | r :: t => if modal - 1 <=? count_nonempty r then (S i, r) else ffner_from modal (S i) t
  end.
Definition find_first_non_empty_row (rows : grid) : nat * row :=
  ffner_from (column_count_modal rows) 0 rows.

(* expand_headers(headers, data_offset, rows) *)
Definition expand_headers (headers : list cell) (off : nat) (rows : grid) : list cell :=
  let row_length := Nat.max (length headers) (list_max (map count_nonempty (skipn off rows))) in
  map strip headers ++ repeat [] (row_length - length headers).

(* _is_header(header, data_rows); isnum stands for _is_numeric *)
Definition is_header (isnum : cell -> bool) (header : row) (data_rows : grid) : bool :=
  negb (existsb isnum header) &&
  forallb (fun r => negb (existsb (fun p => negb (is_nil (fst p)) && cell_eqb (fst p) (snd p))
                                  (combine r header))) data_rows.

(* headers_guess(rows) *)
Definition headers_guess (isnum : cell -> bool) (rows : grid) : nat * list cell :=
  let '(off, header) := find_first_non_empty_row rows in
  match header with
  | [] => (off, [])
  | _ =>
      let '(off, header) :=
        if is_header isnum header (skipn off rows) then (off, header) else (off - 1, []) in
      (off, expand_headers header off rows)
  end.

(* ---- import_csv._parse_open_file ---------------------------------------------------------------- *)

Record options := { o_headers : option bool;     (* include_col_names_as_headers, None = not given *)
                    o_num_rows : Z }.            (* NUM_ROWS, 0 = not given *)

Definition sample_len : nat := 100.

(* any(headers) *)
Definition any_header (hs : list cell) : bool := existsb (fun h => negb (is_nil h)) hs.

(* data_offset and headers as decided on the sample *)
Definition header_decision (isnum : cell -> bool) (o : options) (rows : grid) : nat * list cell :=
  let sample := firstn sample_len rows in
  let '(off, headers) := headers_guess isnum sample in
  let have := any_header headers in
  let incl := match o_headers o with Some b => b | None => have end in
  if incl && negb have then
    let '(off', first_row) := find_first_non_empty_row sample in
    (off', expand_headers first_row off' sample)
  else if negb incl && have then (off - 1, repeat [] (length headers))
  else (off, headers).

(* The one place where the source before and after the repair (commit 6b8f366, was
   notes/proposed_fixes/C32-late-wide-row.diff: `headers = import_utils.expand_headers(headers, 0, rows)`
   after `rows = rows[data_offset:]`) differ. *)
Definition widen (repaired : bool) (headers : list cell) (rows_after_offset : grid) : list cell :=
  if repaired then expand_headers headers 0 rows_after_offset else headers.

(* `if num_rows and num == num_rows: break` *)
Definition take_rows (num_rows : Z) (rows : grid) : grid :=
  if (0 <? num_rows)%Z then firstn (Z.to_nat num_rows) rows else rows.

(* parse_data.get_table_data(rows, num_columns) on str cells: pad each row with "" up to num_columns,
   column k collects cell k of every row *)
Definition get_table_data (rows : grid) (num_columns : nat) : list (list cell) :=
  map (fun k => map (fun r => nth k r []) rows) (seq 0 num_columns).

(* an output column: position in the input, id (header text), data *)
Record column := { c_index : nat; c_id : cell; c_data : list cell }.

(* zip(table_data, headers) minus the columns with no header and only "" cells *)
Fixpoint build_columns (k : nat) (cols : list (list cell)) (headers : list cell) : list column :=
  match cols, headers with
  | d :: cols', h :: headers' =>
      if is_nil h && forallb is_nil d then build_columns (S k) cols' headers'
      else {| c_index := k; c_id := h; c_data := d |} :: build_columns (S k) cols' headers'
  | _, _ => []
  end.

Definition csv_offset (isnum : cell -> bool) (g : grid) (o : options) : nat :=
  fst (header_decision isnum o g).

(* the headers (hence the table width) used for get_table_data *)
Definition csv_headers (repaired : bool) (isnum : cell -> bool) (g : grid) (o : options) : list cell :=
  let '(off, headers) := header_decision isnum o g in widen repaired headers (skipn off g).

Definition csv_width (repaired : bool) (isnum : cell -> bool) (g : grid) (o : options) : nat :=
  length (csv_headers repaired isnum g o).

(* the data rows: those after the importer's own offset (limited to NUM_ROWS when given) *)
Definition csv_data_rows (isnum : cell -> bool) (g : grid) (o : options) : grid :=
  take_rows (o_num_rows o) (skipn (csv_offset isnum g o) g).

(* the columns of the exported table; [] stands for "no table" (export_list == []) *)
Definition import_csv_gen (repaired : bool) (isnum : cell -> bool) (g : grid) (o : options) : list column :=
  let headers := csv_headers repaired isnum g o in
  build_columns 0 (get_table_data (csv_data_rows isnum g o) (length headers)) headers.

(* THE ONE-LINE SWITCH: true = /repo's current source (repair applied as commit 6b8f366: headers widened over all
   data rows); false = the source before that commit, kept to document what the repair was needed for. *)
Definition source_is_repaired : bool := true.

Definition import_csv : (cell -> bool) -> grid -> options -> list column :=
  import_csv_gen source_is_repaired.

(* what the implementation returns, without the model-only c_index *)
Definition erase (cols : list column) : list (cell * list cell) :=
  map (fun c => (c_id c, c_data c)) cols.

(* ---- specification vocabulary ------------------------------------------------------------------- *)

(* C32: columns have one entry per data row, and every cell of a data row that has a non-blank character
   (the importer's own `empty`) is found at its row in the column that stands at its input position. *)
Definition cells_kept (data_rows : grid) (cols : list column) : Prop :=
  (forall col, In col cols -> length (c_data col) = length data_rows) /\
  (forall i j r c, nth_error data_rows i = Some r -> nth_error r j = Some c -> empty c = false ->
     exists col, In col cols /\ c_index col = j /\ nth_error (c_data col) i = Some c).

Definition C32_statement (repaired : bool) (isnum : cell -> bool) (g : grid) (o : options) : Prop :=
  cells_kept (csv_data_rows isnum g o) (import_csv_gen repaired isnum g o).

(* every data row fits into the table width (decidable form of "no cell is cut off") *)
Definition rows_fit (w : nat) (rows : grid) : bool := forallb (fun r => count_nonempty r <=? w) rows.

(* The defect excluded by the positive theorem for the source BEFORE the repair, cause 1: a row after the sample
   that is wider than the width derived from the sample. *)
Definition late_rows_fit (isnum : cell -> bool) (g : grid) (o : options) : Prop :=
  Forall (fun r => count_nonempty r <= csv_width false isnum g o) (skipn sample_len g).

(* cause 2: the file starts with a blank line (csv.reader gives []), no row has two non-empty cells, and
   headers are not explicitly requested: headers_guess returns (1, []) without calling expand_headers. *)
Definition blank_first_row_case (g : grid) (o : options) : Prop :=
  hd_error g = Some [] /\ column_count_modal (firstn sample_len g) = 0 /\ o_headers o <> Some true.

(* correspondence helper: _is_numeric as the finite table of the numeric cells of the case *)
Definition isnum_of (numeric : list cell) (c : cell) : bool := existsb (cell_eqb c) numeric.

Definition out_eqb (a b : list (cell * list cell)) : bool :=
  list_eqb (fun p q => cell_eqb (fst p) (fst q) && list_eqb cell_eqb (snd p) (snd q)) a b.
